(* Lemmas about model/Watcher.v (property C03). *)
From Verif Require Import Common RoleTree RoleTree_proofs TaskCmd Gen_FailureLabel Gen_Reconcile Watcher.
Open Scope N_scope.

(* ------------------------------------------------------------------ *)
(* 0. Tactics                                                          *)
(* ------------------------------------------------------------------ *)

Ltac ds s := destruct s as [?env ?tree ?paths ?tst ?watch ?flight ?pend ?istop ?rend ?rendc ?log].

(* call-by-need reduction of the record plumbing only (unfolding the setters naively is exponential) *)
Ltac red_s :=
  lazy beta iota zeta delta
    [do_fault do_upd do_wstart do_wselect do_fire do_begin do_finish do_istop do_leafwrite do_reply
     finish_cmd go_error before_hooks after_hooks apply_upd role_update status_update role_forward leaf_write
     add_pend add_log clear_log set_env set_tree set_tst set_watch set_flight set_pend
     set_istop set_rend set_rendc is_flying
     w_env w_tree w_paths w_tst w_watch w_flight w_pend w_istop w_rend w_rendc w_log] in *.

Ltac unf := red_s.
Ltac prj := red_s.

Ltac brk :=
  repeat (match goal with
          | |- context [match ?x with _ => _ end] =>
              lazymatch x with
              | context [match _ with _ => _ end] => fail
              | _ => destruct x eqn:?
              end
          end; red_s).

Lemma wst_beq_eq a b : wst_beq a b = true <-> a = b.
Proof. split; [apply internal_wst_dec_bl | apply internal_wst_dec_lb]. Qed.
Lemma runv_beq_eq a b : runv_beq a b = true <-> a = b.
Proof. split; [apply internal_runv_dec_bl | apply internal_runv_dec_lb]. Qed.
Lemma estate_beq_eq a b : estate_beq a b = true <-> a = b.
Proof. split; [apply internal_estate_dec_bl | apply internal_estate_dec_lb]. Qed.
Lemma estate_beq_refl a : estate_beq a a = true.
Proof. apply estate_beq_eq. reflexivity. Qed.

(* ------------------------------------------------------------------ *)
(* 1. The walk of an update through the role tree                      *)
(* ------------------------------------------------------------------ *)

(* criticality of the task role a path leads to (false when it leads to no task role) *)
Definition critp (t : rtree) (p : path) : bool :=
  match get_sub p t with Some (Leaf c _ _) => c | _ => false end.

Lemma crit_of_critp s i :
  crit_of s i = match nth_error (w_paths s) i with Some p => critp (w_tree s) p | None => false end.
Proof.
  unfold crit_of, critp, leaf_at. destruct (nth_error (w_paths s) i) as [p|]; [|reflexivity].
  destruct (get_sub p (w_tree s)) as [[c st x|]|]; reflexivity.
Qed.

(* the ERROR of a critical task role always leaves the root as ERROR: every aggregator on the way
   merges an incoming ERROR to ERROR and hands ERROR on *)
Lemma upd_state_ERROR_crit : forall p t,
  critp t p = true -> snd (upd_state p ERROR t) = Some ERROR.
Proof.
  induction p as [|i p IH]; intros t H; unfold critp in H.
  - cbn in H. destruct t as [c st x|st x cs]; [|discriminate]. cbn. rewrite H. reflexivity.
  - destruct t as [c st x|st x cs].
    + cbn in H. destruct i; discriminate.
    + cbn [get_sub children] in H. cbn [upd_state].
      destruct (nth_error cs i) as [c|] eqn:E; [|discriminate].
      specialize (IH c). unfold critp in IH. specialize (IH H).
      destruct (upd_state p ERROR c) as [c' fwd]. cbn in IH. subst fwd.
      cbn. rewrite merge_state_ERROR_in. reflexivity.
Qed.

(* an update of a role that is not a critical task role hands nothing to the ParentAdapter *)
Lemma upd_state_noncrit : forall p v t,
  critp t p = false -> snd (upd_state p v t) = None.
Proof.
  induction p as [|i p IH]; intros v t H; unfold critp in H.
  - cbn in H. destruct t as [c st x|st x cs]; cbn; [rewrite H|]; reflexivity.
  - destruct t as [c st x|st x cs]; [reflexivity|].
    cbn [get_sub children] in H. cbn [upd_state].
    destruct (nth_error cs i) as [c|] eqn:E; [|reflexivity].
    specialize (IH v c). unfold critp in IH. specialize (IH H).
    destruct (upd_state p v c) as [c' fwd]. cbn in IH. subst fwd. reflexivity.
Qed.

(* updates never change which paths lead to critical task roles *)
Lemma critp_upd_state : forall q v t p, critp (fst (upd_state q v t)) p = critp t p.
Proof.
  induction q as [|i q IH]; intros v t p.
  - destruct t as [c st x|st x cs]; [|reflexivity].
    cbn. unfold critp. destruct p as [|j p]; cbn; [reflexivity|]. destruct j; reflexivity.
  - destruct t as [c st x|st x cs]; [reflexivity|].
    cbn [upd_state]. destruct (nth_error cs i) as [c|] eqn:E; [|reflexivity].
    specialize (IH v c). destruct (upd_state q v c) as [c' fwd] eqn:U. cbn [fst] in IH.
    assert (X : forall s', critp (Agg s' x (replace_nth i c' cs)) p = critp (Agg st x cs) p).
    { intro s'. unfold critp. destruct p as [|j p]; [reflexivity|]. cbn [get_sub children].
      destruct (Nat.eq_dec j i) as [->|N].
      - rewrite nth_error_replace_same by (apply nth_error_Some; congruence).
        rewrite E. apply (IH p).
      - rewrite nth_error_replace_other by congruence. reflexivity. }
    destruct fwd; cbn [fst]; apply X.
Qed.

Lemma critp_upd_status : forall q v t p, critp (fst (upd_status q v t)) p = critp t p.
Proof.
  induction q as [|i q IH]; intros v t p.
  - destruct t as [c st x|st x cs]; [|reflexivity].
    cbn. unfold critp. destruct p as [|j p]; cbn; [reflexivity|]. destruct j; reflexivity.
  - destruct t as [c st x|st x cs]; [reflexivity|].
    cbn [upd_status]. destruct (nth_error cs i) as [c|] eqn:E; [|reflexivity].
    specialize (IH v c). destruct (upd_status q v c) as [c' fwd] eqn:U. cbn [fst] in IH.
    assert (X : forall x', critp (Agg st x' (replace_nth i c' cs)) p = critp (Agg st x cs) p).
    { intro x'. unfold critp. destruct p as [|j p]; [reflexivity|]. cbn [get_sub children].
      destruct (Nat.eq_dec j i) as [->|N].
      - rewrite nth_error_replace_same by (apply nth_error_Some; congruence).
        rewrite E. apply (IH p).
      - rewrite nth_error_replace_other by congruence. reflexivity. }
    destruct fwd; cbn [fst]; apply X.
Qed.

(* the same for the second half of an update alone: whatever the leaf's cache holds by now, the
   ERROR it was called with is what goes up *)
Lemma fwd_state_ERROR_crit : forall p t,
  critp t p = true -> snd (fwd_state p ERROR t) = Some ERROR.
Proof.
  induction p as [|i p IH]; intros t H; unfold critp in H.
  - cbn in H. destruct t as [c st x|st x cs]; [|discriminate]. cbn. rewrite H. reflexivity.
  - destruct t as [c st x|st x cs].
    + cbn in H. destruct i; discriminate.
    + cbn [get_sub children] in H. cbn [fwd_state].
      destruct (nth_error cs i) as [c|] eqn:E; [|discriminate].
      specialize (IH c). unfold critp in IH. specialize (IH H).
      destruct (fwd_state p ERROR c) as [c' fwd]. cbn in IH. subst fwd.
      cbn. rewrite merge_state_ERROR_in. reflexivity.
Qed.

Lemma fwd_state_noncrit : forall p v t,
  critp t p = false -> snd (fwd_state p v t) = None.
Proof.
  induction p as [|i p IH]; intros v t H; unfold critp in H.
  - cbn in H. destruct t as [c st x|st x cs]; cbn; [rewrite H|]; reflexivity.
  - destruct t as [c st x|st x cs]; [reflexivity|].
    cbn [get_sub children] in H. cbn [fwd_state].
    destruct (nth_error cs i) as [c|] eqn:E; [|reflexivity].
    specialize (IH v c). unfold critp in IH. specialize (IH H).
    destruct (fwd_state p v c) as [c' fwd]. cbn in IH. subst fwd. reflexivity.
Qed.

Lemma critp_fwd_state : forall q v t p, critp (fst (fwd_state q v t)) p = critp t p.
Proof.
  induction q as [|i q IH]; intros v t p.
  - destruct t as [c st x|st x cs]; reflexivity.
  - destruct t as [c st x|st x cs]; [reflexivity|].
    cbn [fwd_state]. destruct (nth_error cs i) as [c|] eqn:E; [|reflexivity].
    specialize (IH v c). destruct (fwd_state q v c) as [c' fwd] eqn:U. cbn [fst] in IH.
    assert (X : forall s', critp (Agg s' x (replace_nth i c' cs)) p = critp (Agg st x cs) p).
    { intro s'. unfold critp. destruct p as [|j p]; [reflexivity|]. cbn [get_sub children].
      destruct (Nat.eq_dec j i) as [->|N].
      - rewrite nth_error_replace_same by (apply nth_error_Some; congruence).
        rewrite E. apply (IH p).
      - rewrite nth_error_replace_other by congruence. reflexivity. }
    destruct fwd; cbn [fst]; apply X.
Qed.

Lemma critp_write_leaf : forall q v t p, critp (map_at q (write_leaf_f v) t) p = critp t p.
Proof.
  induction q as [|i q IH]; intros v t p.
  - cbn. destruct t as [c st x|st x cs]; [|reflexivity].
    cbn. unfold critp. destruct p as [|j p]; cbn; [reflexivity|]. destruct j; reflexivity.
  - destruct t as [c st x|st x cs]; [reflexivity|].
    cbn [map_at]. destruct (nth_error cs i) as [c|] eqn:E; [|reflexivity].
    unfold critp. destruct p as [|j p]; [reflexivity|]. cbn [get_sub children].
    destruct (Nat.eq_dec j i) as [->|N].
    + rewrite nth_error_replace_same by (apply nth_error_Some; congruence).
      rewrite E. apply (IH v c p).
    + rewrite nth_error_replace_other by congruence. reflexivity.
Qed.

(* ------------------------------------------------------------------ *)
(* 2. What each action touches                                         *)
(* ------------------------------------------------------------------ *)

Lemma go_error_env s : w_env (go_error s) = E_ERROR.
Proof. ds s. red_s. brk; reflexivity. Qed.
Lemma go_error_watch s : w_watch (go_error s) = w_watch s.
Proof. ds s. red_s. brk; reflexivity. Qed.
Lemma go_error_flight s : w_flight (go_error s) = w_flight s.
Proof. ds s. red_s. brk; reflexivity. Qed.
Lemma go_error_pend s : w_pend (go_error s) = w_pend s.
Proof. ds s. red_s. brk; reflexivity. Qed.
Lemma go_error_istop s : w_istop (go_error s) = w_istop s.
Proof. ds s. red_s. brk; reflexivity. Qed.
Lemma go_error_paths s : w_paths (go_error s) = w_paths s.
Proof. ds s. red_s. brk; reflexivity. Qed.
Lemma go_error_tree s : w_tree (go_error s) = w_tree s.
Proof. ds s. red_s. brk; reflexivity. Qed.
Lemma go_error_tst s : w_tst (go_error s) = w_tst s.
Proof. ds s. red_s. brk; reflexivity. Qed.
Lemma go_error_rend s :
  w_rend (go_error s) = if go_error_ok (w_env s) && runv_beq (w_rend s) REmpty then RSet else w_rend s.
Proof. ds s. red_s. brk; try reflexivity; cbn in *; congruence. Qed.

(* the watcher's state after an update: changed only by a delivered notification *)
Lemma role_update_env i v s : w_env (role_update i v s) = w_env s.
Proof. ds s. red_s. brk; reflexivity. Qed.
Lemma apply_upd_env u s : w_env (apply_upd u s) = w_env s.
Proof. ds s. destruct u; red_s; brk; reflexivity. Qed.
Lemma apply_upd_flight u s : w_flight (apply_upd u s) = w_flight s.
Proof. ds s. destruct u; red_s; brk; reflexivity. Qed.
Lemma apply_upd_rend u s : w_rend (apply_upd u s) = w_rend s.
Proof. ds s. destruct u; red_s; brk; reflexivity. Qed.
Lemma apply_upd_istop u s : w_istop (apply_upd u s) = w_istop s.
Proof. ds s. destruct u; red_s; brk; reflexivity. Qed.
Lemma apply_upd_pend u s : w_pend (apply_upd u s) = w_pend s.
Proof. ds s. destruct u; red_s; brk; reflexivity. Qed.
Lemma apply_upd_paths u s : w_paths (apply_upd u s) = w_paths s.
Proof. ds s. destruct u; red_s; brk; reflexivity. Qed.

Lemma deliver_timer_stays v : deliver v WTimer = WTimer.
Proof. reflexivity. Qed.
Lemma deliver_not_waiting v w : w <> WWaiting -> deliver v w = w.
Proof. destruct w; cbn; congruence. Qed.

Lemma apply_upd_watch_timer u s : w_watch s = WTimer -> w_watch (apply_upd u s) = WTimer.
Proof. ds s. intro H. red_s. subst. destruct u; red_s; brk; reflexivity. Qed.

(* ------------------------------------------------------------------ *)
(* 3. The invariant of reachable states                                *)
(* ------------------------------------------------------------------ *)

Record Inv (s : wsys) : Prop := mkInv {
  inv_flight : forall e, w_flight s = Some e -> w_env s = ev_src e;
  inv_rempty : w_rend s = REmpty ->
               w_env s = E_RUNNING \/ (w_env s = E_CONFIGURED /\ w_flight s = Some START);
  inv_run : w_env s = E_RUNNING \/ w_flight s = Some START -> w_rend s <> RAbsent;
  inv_stop : w_flight s = Some STOP -> w_rend s <> REmpty
}.

Lemma Inv_created t paths : Inv (created t paths).
Proof. constructor; cbn; intros; try discriminate; intuition discriminate. Qed.

Ltac inv_tac :=
  constructor; prj; intros;
  repeat match goal with
         | H : Some _ = Some _ |- _ => inversion H; subst; clear H
         | H : _ /\ _ |- _ => destruct H
         end;
  try discriminate; try congruence;
  try (left; reflexivity); try (right; split; reflexivity); try (cbn; congruence).

Lemma Inv_noflight s :
  w_flight s = None -> (w_rend s = REmpty -> w_env s = E_RUNNING) ->
  (w_env s = E_RUNNING -> w_rend s <> RAbsent) -> Inv s.
Proof.
  intros F A B. constructor; rewrite ?F; intros; try discriminate.
  - left. auto.
  - destruct H as [H|H]; [auto|discriminate].
Qed.

Lemma Inv_go_error s :
  w_flight s = None -> (w_rend s = REmpty -> go_error_ok (w_env s) = true) -> Inv (go_error s).
Proof.
  intros F G. apply Inv_noflight.
  - rewrite go_error_flight. exact F.
  - rewrite go_error_rend. intro R.
    destruct (go_error_ok (w_env s)) eqn:K; cbn [andb] in R.
    + destruct (runv_beq (w_rend s) REmpty) eqn:B; [discriminate|].
      apply runv_beq_eq in R. congruence.
    + specialize (G R). discriminate.
  - rewrite go_error_env. discriminate.
Qed.

Lemma Inv_rempty_goerr s : Inv s -> w_rend s = REmpty -> go_error_ok (w_env s) = true.
Proof. intros [_ I2 _ _] R. destruct (I2 R) as [E|[E _]]; rewrite E; reflexivity. Qed.

Lemma Inv_before_hooks e s :
  Inv s -> w_flight s = None -> w_env s = ev_src e ->
  Inv (before_hooks e (set_flight (Some e) s)).
Proof.
  ds s. intros [I1 I2 I3 I4] F E. red_s. subst flight env.
  destruct e; red_s.
  - (* CONFIGURE *) constructor; red_s; intros.
    + inversion H; subst. reflexivity.
    + specialize (I2 H). destruct I2 as [X|[X _]]; discriminate.
    + destruct H as [H|H]; discriminate.
    + discriminate.
  - (* START *) constructor; red_s; intros.
    + inversion H; subst. reflexivity.
    + right. split; reflexivity.
    + discriminate.
    + discriminate.
  - (* STOP *) destruct (runv_beq rend REmpty) eqn:B; red_s.
    + constructor; red_s; intros; try discriminate.
      inversion H; subst. reflexivity.
    + constructor; red_s; intros.
      * inversion H; subst. reflexivity.
      * apply runv_beq_eq in H. congruence.
      * apply I3. left. reflexivity.
      * intro X. apply runv_beq_eq in X. congruence.
  - (* RESET *) constructor; red_s; intros.
    + inversion H; subst. reflexivity.
    + specialize (I2 H). destruct I2 as [X|[_ X]]; discriminate.
    + destruct H as [H|H]; discriminate.
    + discriminate.
Qed.

Lemma ev_src_goerr e : go_error_ok (ev_src e) = true.
Proof. destruct e; reflexivity. Qed.

(* finish_cmd on a state whose mutex was just released by the transition [e] *)
Lemma Inv_finish_cmd fb e oc s :
  w_flight s = None -> w_env s = ev_src e ->
  (w_rend s = REmpty -> e = START) ->
  (e = START -> w_rend s <> RAbsent) ->
  (w_env s = E_RUNNING -> w_rend s <> RAbsent) ->
  (fb = false -> w_rend s <> REmpty) ->
  Inv (finish_cmd fb e oc s).
Proof.
  intros F E R1 R2 R3 R4.
  unfold finish_cmd.
  set (s1 := add_pend _ _).
  assert (F1 : w_flight s1 = None) by exact F.
  assert (E1 : w_env s1 = ev_src e) by exact E.
  assert (Q1 : w_rend s1 = w_rend s) by reflexivity.
  destruct (res_ok _).
  - apply Inv_noflight.
    + destruct e; exact F.
    + assert (X : w_rend (after_hooks e (add_log [LState (N_of_estate (ev_dst e))] (set_env (ev_dst e) s1))) = w_rend s)
        by (destruct e; reflexivity).
      assert (Y : w_env (after_hooks e (add_log [LState (N_of_estate (ev_dst e))] (set_env (ev_dst e) s1))) = ev_dst e)
        by (destruct e; reflexivity).
      rewrite X, Y. intro R. rewrite (R1 R). reflexivity.
    + assert (X : w_rend (after_hooks e (add_log [LState (N_of_estate (ev_dst e))] (set_env (ev_dst e) s1))) = w_rend s)
        by (destruct e; reflexivity).
      assert (Y : w_env (after_hooks e (add_log [LState (N_of_estate (ev_dst e))] (set_env (ev_dst e) s1))) = ev_dst e)
        by (destruct e; reflexivity).
      rewrite X, Y. intro D. apply R2. destruct e; try discriminate. reflexivity.
  - destruct fb.
    + apply Inv_go_error; [exact F1|]. intros _. rewrite E1. apply ev_src_goerr.
    + apply Inv_noflight; [exact F1| |].
      * rewrite Q1. intro R. exfalso. exact (R4 eq_refl R).
      * rewrite Q1, E1, <- E. exact R3.
Qed.

Lemma Inv_same s s' :
  w_env s' = w_env s -> w_flight s' = w_flight s -> w_rend s' = w_rend s -> Inv s -> Inv s'.
Proof. intros E F R [I1 I2 I3 I4]. constructor; rewrite ?E, ?F, ?R; assumption. Qed.

Lemma Inv_step a s : Inv s -> Inv (wstep a s).
Proof.
  intro I. destruct a as [f|k|k|j v| | |oc|e|oc|oc]; cbn [wstep].
  - (* AFault *) apply (Inv_same s); [| | |exact I]; ds s; destruct f; red_s; brk; reflexivity.
  - (* AUpd *) unfold do_upd. destruct (nth_error (w_pend s) k) as [u|]; [|exact I].
    apply (Inv_same s); [| | |exact I].
    + rewrite apply_upd_env. reflexivity.
    + rewrite apply_upd_flight. reflexivity.
    + rewrite apply_upd_rend. reflexivity.
  - (* ALeafWrite *) apply (Inv_same s); [| | |exact I]; ds s; red_s; brk; reflexivity.
  - (* AReply *) apply (Inv_same s); [reflexivity..|exact I].
  - (* AWStart *) apply (Inv_same s); [| | |exact I]; ds s; red_s; brk; reflexivity.
  - (* AWSelect *) apply (Inv_same s); [| | |exact I]; ds s; red_s; brk; reflexivity.
  - (* AFire *) unfold do_fire.
    destruct (wst_beq (w_watch s) WTimer && negb (is_flying s)) eqn:C; [|exact I].
    apply andb_true_iff in C. destruct C as [_ C]. apply negb_true_iff in C.
    assert (F : w_flight s = None) by (unfold is_flying in C; destruct (w_flight s); [discriminate|reflexivity]).
    assert (G : Inv (go_error s)) by (apply Inv_go_error; [exact F|apply Inv_rempty_goerr; exact I]).
    assert (G1 : Inv (set_watch WFired (go_error s))) by (apply (Inv_same (go_error s)); [reflexivity..|exact G]).
    destruct (running_pos _); [exact G1|].
    apply (Inv_same (set_watch WFired (go_error s))); [reflexivity..|exact G1].
  - (* ABegin *) unfold do_begin. destruct (is_flying s) eqn:C; [exact I|].
    assert (F : w_flight s = None) by (unfold is_flying in C; destruct (w_flight s); [discriminate|reflexivity]).
    destruct (estate_beq (w_env s) (ev_src e)) eqn:E.
    + apply estate_beq_eq in E.
      apply Inv_before_hooks; [|exact F|exact E].
      apply (Inv_same s); [reflexivity..|exact I].
    + apply Inv_go_error; [exact F|apply Inv_rempty_goerr; exact I].
  - (* AFinish *) unfold do_finish. destruct (w_flight s) as [e|] eqn:F; [|exact I].
    destruct I as [I1 I2 I3 I4].
    apply Inv_finish_cmd.
    + reflexivity.
    + exact (I1 e F).
    + intro R. change (w_rend s = REmpty) in R. destruct (I2 R) as [X|[_ X]].
      * pose proof (I1 e F) as Y. rewrite X in Y. destruct e; try discriminate.
        exfalso. exact (I4 F R).
      * congruence.
    + intros ->. apply I3. right. exact F.
    + intro X. apply I3. left. exact X.
    + discriminate.
  - (* AIStop *) unfold do_istop. destruct (w_istop s) as [|n] eqn:K; [exact I|].
    destruct (is_flying s) eqn:C; [exact I|].
    assert (F : w_flight s = None) by (unfold is_flying in C; destruct (w_flight s); [discriminate|reflexivity]).
    destruct (estate_beq (w_env s) E_RUNNING) eqn:E.
    + apply estate_beq_eq in E. destruct I as [I1 I2 I3 I4].
      assert (NA : w_rend s <> RAbsent) by (apply I3; left; exact E).
      set (s1 := add_log _ (set_istop n s)).
      assert (R1 : w_rend (before_hooks STOP s1) <> REmpty /\ w_rend (before_hooks STOP s1) <> RAbsent
                   /\ w_flight (before_hooks STOP s1) = None /\ w_env (before_hooks STOP s1) = E_RUNNING).
      { subst s1. clear -NA F E. ds s. red_s. subst.
        destruct (runv_beq rend REmpty) eqn:B; red_s; repeat split; try discriminate; try assumption.
        intro X. apply runv_beq_eq in X. congruence. }
      destruct R1 as [A [B [C1 D]]].
      apply Inv_finish_cmd; try assumption.
      * intro X. contradiction.
      * intros _. exact B.
      * intros _. exact B.
      * intros _. exact A.
    + apply (Inv_same s); [reflexivity..|exact I].
Qed.

Lemma Inv_run sched : forall s, Inv s -> Inv (wrun sched s).
Proof.
  induction sched as [|a r IH]; intros s I; [exact I|]. cbn. apply IH. apply Inv_step. exact I.
Qed.

Lemma reachable_Inv s : reachable s -> Inv s.
Proof. intros [t [paths [sched ->]]]. apply Inv_run. apply Inv_created. Qed.

(* ------------------------------------------------------------------ *)
(* 4. Armed timer => ERROR in every completed schedule                 *)
(* ------------------------------------------------------------------ *)

Lemma ev_src_not_error e : ev_src e <> E_ERROR.
Proof. destruct e; discriminate. Qed.

Lemma finish_cmd_env_cases fb e oc s :
  w_env (finish_cmd fb e oc s) = ev_dst e \/ w_env (finish_cmd fb e oc s) = E_ERROR \/
  w_env (finish_cmd fb e oc s) = w_env s.
Proof.
  unfold finish_cmd. destruct (res_ok _).
  - left. destruct e; reflexivity.
  - destruct fb; [right; left; apply go_error_env|right; right; reflexivity].
Qed.

(* ERROR is absorbing (no teardown, no RECOVER in the model) *)
Lemma step_env_error a s : Inv s -> w_env s = E_ERROR -> w_env (wstep a s) = E_ERROR.
Proof.
  intros I E.
  assert (F : w_flight s = None).
  { destruct (w_flight s) as [e|] eqn:F; [|reflexivity].
    pose proof (inv_flight s I e F) as X. rewrite E in X. symmetry in X. destruct (ev_src_not_error e X). }
  destruct a as [f|k|k|j v| | |oc|e|oc|oc]; cbn [wstep].
  - ds s; destruct f; red_s; brk; assumption.
  - unfold do_upd. destruct (nth_error _ k); [rewrite apply_upd_env|]; exact E.
  - ds s; red_s; brk; assumption.
  - exact E.
  - ds s; red_s; brk; assumption.
  - ds s; red_s; brk; assumption.
  - unfold do_fire. destruct (_ && _); [|exact E].
    destruct (running_pos _); cbn; apply go_error_env.
  - unfold do_begin, is_flying. rewrite F.
    destruct (estate_beq (w_env s) (ev_src e)) eqn:B.
    + apply estate_beq_eq in B. rewrite E in B. symmetry in B. destruct (ev_src_not_error e B).
    + apply go_error_env.
  - unfold do_finish. rewrite F. exact E.
  - unfold do_istop, is_flying. rewrite F. destruct (w_istop s); [exact E|].
    rewrite E. cbn. exact E.
Qed.

(* the armed timer stays armed until its callback has run, and the callback leaves ERROR *)
Lemma step_watch_timer a s :
  w_watch s = WTimer -> w_watch (wstep a s) = WTimer \/ w_env (wstep a s) = E_ERROR.
Proof.
  intro W. destruct a as [f|k|k|j v| | |oc|e|oc|oc]; cbn [wstep].
  - left. ds s; destruct f; red_s; brk; assumption.
  - left. unfold do_upd. destruct (nth_error _ k); [|exact W]. apply apply_upd_watch_timer. exact W.
  - left. ds s; red_s; brk; assumption.
  - left. exact W.
  - left. ds s; red_s; subst; reflexivity.
  - left. ds s; red_s; subst; reflexivity.
  - unfold do_fire. destruct (_ && _); [|left; exact W].
    right. destruct (running_pos _); cbn; apply go_error_env.
  - left. unfold do_begin. destruct (is_flying s); [exact W|].
    destruct (estate_beq _ _).
    + ds s. destruct e; red_s; brk; assumption.
    + rewrite go_error_watch. exact W.
  - left. unfold do_finish. destruct (w_flight s) as [e|]; [|exact W].
    unfold finish_cmd. destruct (res_ok _).
    + ds s. destruct e; red_s; assumption.
    + rewrite go_error_watch. ds s. red_s. assumption.
  - left. unfold do_istop. destruct (w_istop s); [exact W|]. destruct (is_flying s); [exact W|].
    destruct (estate_beq _ _).
    + unfold finish_cmd. destruct (res_ok _).
      * ds s. red_s. brk; assumption.
      * ds s. red_s. brk; assumption.
    + ds s. red_s. assumption.
Qed.

Definition Armed (s : wsys) : Prop := w_watch s = WTimer \/ w_env s = E_ERROR.

Lemma Armed_run sched : forall s, Inv s -> Armed s -> Armed (wrun sched s).
Proof.
  induction sched as [|a r IH]; intros s I A; [exact A|].
  cbn. apply IH; [apply Inv_step; exact I|].
  destruct A as [W|E].
  - exact (step_watch_timer a s W).
  - right. apply step_env_error; assumption.
Qed.

Lemma wquiet_not_timer s : wquiet s = true -> w_watch s <> WTimer.
Proof.
  unfold wquiet. intros Q W. rewrite W in Q.
  rewrite !andb_false_r in Q. discriminate.
Qed.

Lemma armed_ends_in_error s sched :
  Inv s -> w_watch s = WTimer -> wquiet (wrun sched s) = true -> w_env (wrun sched s) = E_ERROR.
Proof.
  intros I W Q. destruct (Armed_run sched s I (or_introl W)) as [X|X]; [|exact X].
  destruct (wquiet_not_timer _ Q X).
Qed.

(* delivery: the state ERROR of a critical task, applied while the watcher is in its select, arms the timer *)
Definition is_error_upd (u : pupd) (i : nat) : Prop :=
  u = PState i ERROR \/ u = PRole i ERROR \/ u = PFwd i ERROR.

Lemma delivered_arms s k u i :
  nth_error (w_pend s) k = Some u -> is_error_upd u i -> crit_of s i = true ->
  w_watch s = WWaiting -> w_watch (wstep (AUpd k) s) = WTimer.
Proof.
  intros K U C W. cbn [wstep]. unfold do_upd. rewrite K.
  rewrite crit_of_critp in C.
  destruct (nth_error (w_paths s) i) as [p|] eqn:P; [|discriminate].
  pose proof (upd_state_ERROR_crit p (w_tree s) C) as D.
  pose proof (fwd_state_ERROR_crit p (w_tree s) C) as D'.
  destruct U as [->|[->| ->]]; ds s; red_s; subst; rewrite P.
  - destruct (upd_state p ERROR tree) as [t' fwd]; cbn in D; subst fwd; red_s; reflexivity.
  - destruct (upd_state p ERROR tree) as [t' fwd]; cbn in D; subst fwd; red_s; reflexivity.
  - destruct (fwd_state p ERROR tree) as [t' fwd]; cbn in D'; subst fwd; red_s; reflexivity.
Qed.

(* the fault puts such an update in flight for every victim *)
Lemma fault_pends_error vs i s :
  In i vs -> In (PState i ERROR) (w_pend (wstep (AFault (FDead vs)) s)).
Proof.
  intro H. cbn [wstep]. ds s. red_s. apply in_or_app. right.
  apply in_flat_map. exists i. split; [exact H|left; reflexivity].
Qed.
Lemma fault_internal_pends v s :
  In (PRole v ERROR) (w_pend (wstep (AFault (FInternal v)) s)) /\
  (crit_of s v = true -> w_env s = E_RUNNING -> w_istop (wstep (AFault (FInternal v)) s) = S (w_istop s)).
Proof.
  cbn [wstep]. unfold do_fault. split.
  - destruct (crit_of s v && estate_beq (w_env s) E_RUNNING); cbn; apply in_or_app; right; left; reflexivity.
  - intros C E. rewrite C, E. reflexivity.
Qed.

Theorem ideal_partial s k u i sched :
  Inv s ->
  nth_error (w_pend s) k = Some u -> is_error_upd u i -> crit_of s i = true ->
  w_watch s = WWaiting ->
  wquiet (wrun sched (wstep (AUpd k) s)) = true ->
  w_env (wrun sched (wstep (AUpd k) s)) = E_ERROR.
Proof.
  intros I K U C W Q.
  apply armed_ends_in_error; [apply Inv_step; exact I| |exact Q].
  exact (delivered_arms s k u i K U C W).
Qed.

(* ------------------------------------------------------------------ *)
(* 5. The end of the run is recorded                                   *)
(* ------------------------------------------------------------------ *)

Lemma step_rend_not_absent a s : w_rend s <> RAbsent -> w_rend (wstep a s) <> RAbsent.
Proof.
  intro R. destruct a as [f|k|k|j v| | |oc|e|oc|oc]; cbn [wstep].
  - ds s; destruct f; red_s; brk; assumption.
  - unfold do_upd. destruct (nth_error _ k); [rewrite apply_upd_rend|]; exact R.
  - ds s; red_s; brk; assumption.
  - exact R.
  - ds s; red_s; brk; assumption.
  - ds s; red_s; brk; assumption.
  - unfold do_fire. destruct (_ && _); [|exact R].
    assert (X : w_rend (go_error s) <> RAbsent).
    { rewrite go_error_rend. destruct (_ && _); [discriminate|exact R]. }
    destruct (running_pos _); exact X.
  - unfold do_begin. destruct (is_flying s); [exact R|]. destruct (estate_beq _ _).
    + ds s. destruct e; red_s; brk; try assumption; discriminate.
    + rewrite go_error_rend. destruct (_ && _); [discriminate|exact R].
  - unfold do_finish. destruct (w_flight s) as [e|]; [|exact R].
    unfold finish_cmd. destruct (res_ok _).
    + ds s. destruct e; red_s; assumption.
    + rewrite go_error_rend. destruct (_ && _); [discriminate|]. ds s. red_s. assumption.
  - unfold do_istop. destruct (w_istop s); [exact R|]. destruct (is_flying s); [exact R|].
    destruct (estate_beq _ _).
    + unfold finish_cmd. destruct (res_ok _); ds s; red_s; brk; try assumption; discriminate.
    + ds s. red_s. assumption.
Qed.

Lemma run_rend_not_absent sched : forall s, w_rend s <> RAbsent -> w_rend (wrun sched s) <> RAbsent.
Proof.
  induction sched as [|a r IH]; intros s R; [exact R|]. cbn. apply IH. apply step_rend_not_absent. exact R.
Qed.

(* a run that was going on when the environment was healthy has its end stamped once the
   environment is in ERROR, whatever happened in between *)
Theorem run_end_recorded s sched :
  Inv s -> w_env s = E_RUNNING -> w_env (wrun sched s) = E_ERROR -> w_rend (wrun sched s) = RSet.
Proof.
  intros I E X.
  pose proof (Inv_run sched s I) as I'.
  assert (A : w_rend (wrun sched s) <> RAbsent).
  { apply run_rend_not_absent. apply (inv_run s I). left. exact E. }
  assert (B : w_rend (wrun sched s) <> REmpty).
  { intro R. destruct (inv_rempty _ I' R) as [Y|[Y _]]; rewrite X in Y; discriminate. }
  destruct (w_rend (wrun sched s)); congruence.
Qed.

(* the timer callback itself: from RUNNING it publishes the GO_ERROR run event, stamps the run end
   and commands STOP to every task whose state is RUNNING *)
Lemma running_pos_spec s i : In i (running_pos s) <-> nth_error (w_tst s) i = Some RUNNING.
Proof.
  unfold running_pos, indexed.
  assert (G : forall l b, In i (map fst (filter (fun p : nat * state => state_beq (snd p) RUNNING) (indexed_from b l)))
                          <-> (b <= i)%nat /\ nth_error l (i - b) = Some RUNNING).
  { induction l as [|x l IH]; intro b'; cbn.
    - split; [intros []|]. intros [_ H]. destruct (i - b')%nat; discriminate.
    - destruct (state_beq x RUNNING) eqn:B; cbn; rewrite IH.
      + apply state_beq_eq in B. subst x. split.
        * intros [->|[H1 H2]]; [split; [lia|]; replace (i - i)%nat with 0%nat by lia; reflexivity|].
          split; [lia|]. replace (i - b')%nat with (S (i - S b')) by lia. exact H2.
        * intros [H1 H2]. destruct (Nat.eq_dec b' i) as [->|N]; [left; reflexivity|right].
          split; [lia|]. replace (i - b')%nat with (S (i - S b')) in H2 by lia. exact H2.
      + split.
        * intros [H1 H2]. split; [lia|]. replace (i - b')%nat with (S (i - S b')) by lia. exact H2.
        * intros [H1 H2]. destruct (Nat.eq_dec b' i) as [->|N].
          -- replace (i - i)%nat with 0%nat in H2 by lia. cbn in H2. inversion H2; subst.
             rewrite state_beq_refl in B. discriminate.
          -- split; [lia|]. replace (i - b')%nat with (S (i - S b')) in H2 by lia. exact H2. }
  rewrite G. replace (i - 0)%nat with i by lia. split; [intros [_ H]; exact H|intro H; split; [lia|exact H]].
Qed.

Theorem fire_from_running s oc :
  w_watch s = WTimer -> w_flight s = None -> w_env s = E_RUNNING -> w_rend s = REmpty ->
  let s' := wstep (AFire oc) s in
  w_env s' = E_ERROR /\ w_rend s' = RSet /\ In (LRun 7) (w_log s') /\ w_watch s' = WFired /\
  forall i, nth_error (w_tst s) i = Some RUNNING -> exists tg, In (LCmd tg) (w_log s') /\ In i tg.
Proof.
  intros W F E R. cbn zeta. cbn [wstep]. unfold do_fire, is_flying. rewrite W, F. cbn [wst_beq andb negb].
  change (wst_beq WTimer WTimer) with true. cbn [andb].
  set (s1 := set_watch WFired (go_error s)).
  assert (T : w_tst s1 = w_tst s) by (subst s1; cbn; apply go_error_tst).
  assert (E1 : w_env s1 = E_ERROR) by (subst s1; cbn; apply go_error_env).
  assert (R1 : w_rend s1 = RSet).
  { subst s1. cbn. rewrite go_error_rend, E, R. reflexivity. }
  assert (L1 : In (LRun 7) (w_log s1)).
  { subst s1. clear T E1 R1. ds s. red_s. subst. cbn. brk; cbn;
      repeat (apply in_or_app; first [right; left; reflexivity | left]); try (left; reflexivity).
    all: try (apply in_or_app; right; left; reflexivity).
    all: repeat (apply in_or_app; left); try (apply in_or_app; right; left; reflexivity). }
  destruct (running_pos s1) as [|j tg] eqn:RP.
  - repeat split; try assumption; try reflexivity.
    intros i Hi. exfalso. rewrite <- T in Hi. apply running_pos_spec in Hi. rewrite RP in Hi. exact Hi.
  - repeat split; try assumption.
    + cbn. apply in_or_app. left. exact L1.
    + intros i Hi. exists (j :: tg). split.
      * cbn. apply in_or_app. right. left. reflexivity.
      * rewrite <- RP. apply running_pos_spec. rewrite T. exact Hi.
Qed.

(* ------------------------------------------------------------------ *)
(* 6. Failures of non-critical tasks                                   *)
(* ------------------------------------------------------------------ *)

(* the steps a failure sets off by itself (no request of a user, no further reply) *)
Definition handler_action (a : action) : bool :=
  match a with AUpd _ | ALeafWrite _ | AWStart | AWSelect | AFire _ | AIStop _ => true | _ => false end.

Definition upd_noncrit (s : wsys) (u : pupd) : Prop :=
  match u with PState i _ | PRole i _ | PFwd i _ => crit_of s i = false | PStatus _ _ => True end.

Lemma crit_of_role_update j v s i : crit_of (role_update j v s) i = crit_of s i.
Proof.
  rewrite !crit_of_critp. unfold role_update.
  destruct (nth_error (w_paths s) j) as [p|] eqn:P; [|reflexivity].
  pose proof (critp_upd_state p v (w_tree s)) as X.
  destruct (upd_state p v (w_tree s)) as [t' fwd]. cbn [fst] in X.
  destruct fwd; cbn; destruct (nth_error (w_paths s) i); try reflexivity; apply X.
Qed.

Lemma crit_of_role_forward j v s i : crit_of (role_forward j v s) i = crit_of s i.
Proof.
  rewrite !crit_of_critp. unfold role_forward.
  destruct (nth_error (w_paths s) j) as [p|] eqn:P; [|reflexivity].
  pose proof (critp_fwd_state p v (w_tree s)) as X.
  destruct (fwd_state p v (w_tree s)) as [t' fwd]. cbn [fst] in X.
  destruct fwd; cbn; destruct (nth_error (w_paths s) i); try reflexivity; apply X.
Qed.

Lemma crit_of_leaf_write j v s i : crit_of (leaf_write j v s) i = crit_of s i.
Proof.
  rewrite !crit_of_critp. unfold leaf_write.
  destruct (nth_error (w_paths s) j) as [p|] eqn:P; [|reflexivity].
  cbn. destruct (nth_error (w_paths s) i); [|reflexivity]. apply critp_write_leaf.
Qed.

Lemma crit_of_apply_upd u s i : crit_of (apply_upd u s) i = crit_of s i.
Proof.
  destruct u as [j v|j v|j v|j v]; cbn [apply_upd].
  - rewrite crit_of_role_update. reflexivity.
  - apply crit_of_role_update.
  - rewrite !crit_of_critp. unfold status_update.
    destruct (nth_error (w_paths s) j) as [p|] eqn:P; [|reflexivity].
    cbn. destruct (nth_error (w_paths s) i); [|reflexivity]. apply critp_upd_status.
  - apply crit_of_role_forward.
Qed.

Lemma role_forward_noncrit_watch j v s : crit_of s j = false -> w_watch (role_forward j v s) = w_watch s.
Proof.
  intro C. rewrite crit_of_critp in C. unfold role_forward.
  destruct (nth_error (w_paths s) j) as [p|] eqn:P; [|reflexivity].
  pose proof (fwd_state_noncrit p v (w_tree s) C) as X.
  destruct (fwd_state p v (w_tree s)) as [t' fwd]. cbn in X. subst fwd. reflexivity.
Qed.

Lemma In_replace_nth_cases {A} (x y : A) : forall k l, In x (replace_nth k y l) -> x = y \/ In x l.
Proof.
  induction k as [|k IH]; intros [|a l] H; cbn in *; try contradiction.
  - destruct H as [<-|H]; [left; reflexivity|right; right; exact H].
  - destruct H as [->|H]; [right; left; reflexivity|].
    destruct (IH l H) as [->|H']; [left; reflexivity|right; right; exact H'].
Qed.

Lemma role_update_noncrit_watch j v s : crit_of s j = false -> w_watch (role_update j v s) = w_watch s.
Proof.
  intro C. rewrite crit_of_critp in C. unfold role_update.
  destruct (nth_error (w_paths s) j) as [p|] eqn:P; [|reflexivity].
  pose proof (upd_state_noncrit p v (w_tree s) C) as X.
  destruct (upd_state p v (w_tree s)) as [t' fwd]. cbn in X. subst fwd. reflexivity.
Qed.

Lemma In_remove_nth {A} (x : A) : forall k l, In x (remove_nth k l) -> In x l.
Proof.
  induction k as [|k IH]; intros [|a l] H; cbn in *; try contradiction.
  - right. exact H.
  - destruct H as [->|H]; [left; reflexivity|right; apply IH; exact H].
Qed.

Record Calm (e0 : estate) (s : wsys) : Prop := mkCalm {
  calm_env : w_env s = e0;
  calm_watch : w_watch s <> WTimer;
  calm_started : w_watch s <> WNotStarted;
  calm_istop : w_istop s = O;
  calm_pend : forall u, In u (w_pend s) -> upd_noncrit s u }.

Lemma upd_noncrit_ext s s' u :
  (forall i, crit_of s' i = crit_of s i) -> upd_noncrit s u -> upd_noncrit s' u.
Proof. intros X. destruct u; cbn; try rewrite X; auto. Qed.

Lemma Calm_step e0 a s : handler_action a = true -> Calm e0 s -> Calm e0 (wstep a s).
Proof.
  intros A [E W S0 K0 P]. destruct a as [f|k|k|j v| | |oc|e|oc|oc]; try discriminate; cbn [wstep].
  - (* AUpd *) unfold do_upd. destruct (nth_error (w_pend s) k) as [u|] eqn:K; [|constructor; assumption].
    assert (U : upd_noncrit s u) by (apply P; eapply nth_error_In; exact K).
    set (s0 := set_pend (remove_nth k (w_pend s)) s).
    assert (C0 : forall i, crit_of s0 i = crit_of s i) by reflexivity.
    assert (WW : w_watch (apply_upd u s0) = w_watch s).
    { destruct u as [j v|j v|j v|j v]; cbn [apply_upd].
      - rewrite role_update_noncrit_watch; [reflexivity|]. exact U.
      - rewrite role_update_noncrit_watch; [reflexivity|]. exact U.
      - unfold status_update. destruct (nth_error _ j); reflexivity.
      - rewrite role_forward_noncrit_watch; [reflexivity|]. exact U. }
    constructor.
    + rewrite apply_upd_env. exact E.
    + rewrite WW. exact W.
    + rewrite WW. exact S0.
    + rewrite apply_upd_istop. exact K0.
    + rewrite apply_upd_pend. intros u' H'.
      apply (upd_noncrit_ext s).
      * intro i. rewrite crit_of_apply_upd. apply C0.
      * apply P. apply (In_remove_nth u' k). exact H'.
  - (* ALeafWrite *) unfold do_leafwrite.
    destruct (nth_error (w_pend s) k) as [u|] eqn:K; [|constructor; assumption].
    assert (U : upd_noncrit s u) by (apply P; eapply nth_error_In; exact K).
    destruct u as [j v|j v|j v|j v]; try (constructor; assumption).
    + constructor; try (unfold leaf_write; destruct (nth_error _ j); assumption).
      intros u' H'.
      apply (upd_noncrit_ext s); [intro i; rewrite crit_of_leaf_write; reflexivity|].
      assert (H2 : In u' (replace_nth k (PFwd j v) (w_pend s)))
        by (unfold leaf_write in H'; destruct (nth_error _ j); exact H').
      destruct (In_replace_nth_cases _ _ _ _ H2) as [->|H3]; [exact U|apply P; exact H3].
    + constructor; try (unfold leaf_write; destruct (nth_error _ j); assumption).
      intros u' H'.
      apply (upd_noncrit_ext s); [intro i; rewrite crit_of_leaf_write; reflexivity|].
      assert (H2 : In u' (replace_nth k (PFwd j v) (w_pend s)))
        by (unfold leaf_write in H'; destruct (nth_error _ j); exact H').
      destruct (In_replace_nth_cases _ _ _ _ H2) as [->|H3]; [exact U|apply P; exact H3].
  - (* AWStart: already started *) unfold do_wstart.
    destruct (w_watch s) eqn:X; try (constructor; rewrite ?X; assumption). congruence.
  - (* AWSelect *) unfold do_wselect.
    destruct (w_watch s) eqn:X; try (constructor; rewrite ?X; assumption).
    + constructor; try assumption; cbn; discriminate.
    + constructor; try assumption; cbn; discriminate.
  - (* AFire *) unfold do_fire.
    destruct (wst_beq (w_watch s) WTimer) eqn:B; [apply wst_beq_eq in B; contradiction|].
    cbn [andb]. constructor; assumption.
  - (* AIStop: no handler is waiting *) unfold do_istop. rewrite K0. constructor; assumption.
Qed.

Lemma Calm_run e0 sched : forall s,
  forallb handler_action sched = true -> Calm e0 s -> Calm e0 (wrun sched s).
Proof.
  induction sched as [|a r IH]; intros s A C; [exact C|].
  cbn in A. apply andb_true_iff in A. destruct A as [A1 A2].
  cbn. apply IH; [exact A2|]. apply Calm_step; assumption.
Qed.

(* every kind of failure - terminal Mesos status, executor lost, agent lost, TASK_INTERNAL_ERROR - that
   hits only non-critical tasks leaves the environment state alone and never arms the watcher,
   whatever the order in which the updates, the watcher, the timer and the handlers run *)
Theorem noncritical_inert s f sched :
  (forall i, In i (fault_victims f) -> crit_of s i = false) ->
  (forall u, In u (w_pend s) -> upd_noncrit s u) ->
  w_watch s <> WTimer -> w_watch s <> WNotStarted -> w_istop s = O ->
  forallb handler_action sched = true ->
  w_env (wrun sched (wstep (AFault f) s)) = w_env s /\
  w_watch (wrun sched (wstep (AFault f) s)) <> WTimer.
Proof.
  intros V P W S0 K0 A.
  assert (C : Calm (w_env s) (wstep (AFault f) s)).
  { cbn [wstep]. destruct f as [vs|v]; unfold do_fault.
    - constructor; try assumption; try reflexivity.
      intros u H. cbn in H. apply in_app_or in H. destruct H as [H|H].
      + specialize (P u H). destruct u; exact P.
      + apply in_flat_map in H. destruct H as [i [Hi Hu]].
        destruct Hu as [<-|[<-|[]]]; cbn; [|exact I].
        change (crit_of s i = false). apply V. exact Hi.
    - assert (Cv : crit_of s v = false) by (apply V; left; reflexivity).
      rewrite Cv. cbn [andb].
      constructor; try assumption; try reflexivity.
      intros u H. cbn in H. apply in_app_or in H. destruct H as [H|H].
      + specialize (P u H). destruct u; exact P.
      + destruct H as [<-|[]]. cbn. exact Cv. }
  destruct (Calm_run (w_env s) sched _ A C) as [E W' _ _ _]. split; assumption.
Qed.

(* ------------------------------------------------------------------ *)
(* 7. Witnesses of the refutations                                     *)
(* ------------------------------------------------------------------ *)

(* workflow: root[ t0 critical, t1 non-critical ] *)
Definition wit_tree : rtree := Agg STANDBY INACTIVE [Leaf true STANDBY INACTIVE; Leaf false STANDBY INACTIVE].
Definition wit_paths : list path := [[0%nat]; [1%nat]].
Definition wit_created : wsys := created wit_tree wit_paths.

(* (a) the critical task dies before the watcher goroutine has subscribed (witness of the former
   finding C03-a): the watcher now arms its timer at subscription *)
Definition wit_a_sched : list action := [AUpd 0; AUpd 0; AWStart; AFire []].
Lemma wit_a :
  let s := wrun wit_a_sched (wstep (AFault (FDead [0%nat])) wit_created) in
  wquiet s = true /\ w_env s = E_ERROR /\ w_watch s = WFired /\ st_of (w_tree s) = ERROR.
Proof. vm_compute. repeat split. Qed.

(* (b1) the watcher has subscribed and read the workflow state but is not yet in its select *)
Definition wit_b1_pre : list action := [AWStart].
Definition wit_b1_sched : list action := [AUpd 0; AUpd 0; AWSelect].
Lemma wit_b1 :
  let s := wrun wit_b1_sched (wstep (AFault (FDead [0%nat])) (wrun wit_b1_pre wit_created)) in
  wquiet s = true /\ w_env s = E_CONFIGURED /\ w_watch s = WWaiting /\ st_of (w_tree s) = ERROR.
Proof. vm_compute. repeat split. Qed.

(* (b2) two critical tasks; START_ACTIVITY; the reply of t0 has been processed (root MIXED, taken by the
   watcher, which is now between two selects); t1 dies; its updates run before the watcher is back *)
Definition wit2_tree : rtree := Agg STANDBY INACTIVE [Leaf true STANDBY INACTIVE; Leaf true STANDBY INACTIVE].
Definition wit_b2_pre : list action := [AWStart; AWSelect; ABegin START; AFinish []; AUpd 0].
Definition wit_b2_sched : list action := [AUpd 0; AUpd 0; AUpd 0; AWSelect].
Lemma wit_b2 :
  let s0 := wrun wit_b2_pre (created wit2_tree wit_paths) in
  let s := wrun wit_b2_sched (wstep (AFault (FDead [1%nat])) s0) in
  w_watch s0 = WBusy /\ w_env s0 = E_RUNNING /\
  wquiet s = true /\ w_env s = E_RUNNING /\ w_watch s = WWaiting /\ st_of (w_tree s) = ERROR.
Proof. vm_compute. repeat split. Qed.

(* (c) TASK_INTERNAL_ERROR of the non-critical task while RUNNING (witness of the former finding
   C03-c): the role goes to ERROR, the run goes on *)
Definition wit_c_pre : list action := [AWStart; AWSelect; ABegin START; AFinish []; AUpd 0; AWSelect; AUpd 0].
Definition wit_c_sched : list action := [AUpd 0; AIStop []].
Lemma wit_c :
  let s0 := wrun wit_c_pre wit_created in
  let s := wrun wit_c_sched (wstep (AFault (FInternal 1%nat)) s0) in
  wquiet s0 = true /\ w_env s0 = E_RUNNING /\ crit_of s0 1%nat = false /\
  wquiet s = true /\ w_env s = E_RUNNING /\ leaf_at (w_tree s) [1%nat] = Some (false, ERROR, ACTIVE).
Proof. vm_compute. repeat split. Qed.

(* (d) TASK_INTERNAL_ERROR of the critical task while CONFIGURED (witness of the former finding
   C03-d): the role goes to ERROR, the watcher takes it, the environment ends in ERROR *)
Definition wit_d_pre : list action := [AWStart; AWSelect].
Lemma wit_d :
  let s0 := wrun wit_d_pre wit_created in
  let s := wrun [AUpd 0; AFire []] (wstep (AFault (FInternal 0%nat)) s0) in
  crit_of s0 0%nat = true /\ w_env s0 = E_CONFIGURED /\ wquiet s = true /\ w_env s = E_ERROR.
Proof. vm_compute. repeat split. Qed.

(* a state that meets the hypotheses of the ideal theorem: RUNNING, watcher in its select, the
   critical task's ERROR update pending *)
Definition wit_ok_pre : list action := [AWStart; AWSelect; ABegin START; AFinish []; AUpd 0; AWSelect; AUpd 0; AWSelect].
Lemma wit_ok :
  let s0 := wstep (AFault (FDead [0%nat])) (wrun wit_ok_pre wit_created) in
  let s := wrun [AUpd 0; AFire []; AUpd 0; AWSelect] (wstep (AUpd 0) s0) in
  w_env s0 = E_RUNNING /\ w_watch s0 = WWaiting /\ nth_error (w_pend s0) 0 = Some (PState 0%nat ERROR) /\
  crit_of s0 0%nat = true /\ wf_ok s0 = true /\
  wquiet s = true /\ w_env s = E_ERROR /\ w_rend s = RSet /\ w_watch s = WFired.
Proof. vm_compute. repeat split. Qed.

(* ------------------------------------------------------------------ *)
(* 8. The full statements and their refutations                        *)
(* ------------------------------------------------------------------ *)

(* every failure kind, every instant, every schedule: a completed schedule ends in ERROR *)
Definition full_statement : Prop :=
  forall s f i sched,
    reachable s -> wf_ok s = true ->
    (w_env s = E_CONFIGURED \/ w_env s = E_RUNNING) ->
    In i (fault_victims f) -> crit_of s i = true ->
    wquiet (wrun sched (wstep (AFault f) s)) = true ->
    w_env (wrun sched (wstep (AFault f) s)) = E_ERROR.

Definition noncritical_full_statement : Prop :=
  forall s f sched,
    reachable s -> wquiet s = true ->
    (forall i, In i (fault_victims f) -> crit_of s i = false) ->
    forallb handler_action sched = true ->
    w_env (wrun sched (wstep (AFault f) s)) = w_env s.

Lemma reachable_created t paths : reachable (created t paths).
Proof. exists t, paths, []. reflexivity. Qed.
Lemma reachable_run sched s : reachable s -> reachable (wrun sched s).
Proof.
  intros [t [paths [sc ->]]]. exists t, paths, (sc ++ sched). unfold wrun. rewrite fold_left_app. reflexivity.
Qed.

(* still false: the notification can be lost (C03-b, design level) *)
Lemma full_statement_refuted : ~ full_statement.
Proof.
  intro H.
  specialize (H (wrun wit_b1_pre wit_created) (FDead [0%nat]) 0%nat wit_b1_sched
                (reachable_run _ _ (reachable_created _ _)) eq_refl
                (or_introl eq_refl) (or_introl eq_refl) eq_refl).
  pose proof wit_b1 as [Q [E _]]. specialize (H Q). vm_compute in H. discriminate H.
Qed.

Lemma wquiet_fields s :
  wquiet s = true -> w_pend s = [] /\ w_istop s = O /\ w_watch s <> WTimer /\ w_watch s <> WNotStarted.
Proof.
  unfold wquiet. intro Q. repeat (apply andb_true_iff in Q; destruct Q as [Q ?]).
  repeat split.
  - destruct (w_pend s); [reflexivity|discriminate].
  - apply Nat.eqb_eq. assumption.
  - intro X. rewrite X in *. discriminate.
  - intro X. rewrite X in *. discriminate.
Qed.

(* true since the repair of C03-c *)
Lemma noncritical_full_statement_holds : noncritical_full_statement.
Proof.
  intros s f sched _ Q V A.
  destruct (wquiet_fields s Q) as [P [K [W S0]]].
  apply (noncritical_inert s f sched V); try assumption.
  rewrite P. intros u [].
Qed.

(* ------------------------------------------------------------------ *)
(* 9. The hand-over of a task role to its parent                       *)
(* ------------------------------------------------------------------ *)

(* what the translator counted in taskrole.go / callrole.go means: the parent gets the parameter *)
Lemma leaf_handover_in_source : leaf_hands_incoming = true.
Proof. vm_compute. reflexivity. Qed.

(* the split is a refinement of the one-step update: writing the leaf and handing over at once is
   RoleTree.upd_state *)
Lemma upd_state_split : forall p v t,
  upd_state p v t = fwd_state p v (map_at p (write_leaf_f v) t).
Proof.
  induction p as [|i p IH]; intros v t.
  - destruct t as [c st x|st x cs]; reflexivity.
  - destruct t as [c st x|st x cs]; [reflexivity|].
    cbn [upd_state map_at]. destruct (nth_error cs i) as [c|] eqn:E.
    + cbn [fwd_state].
      rewrite nth_error_replace_same by (apply nth_error_Some; congruence).
      rewrite <- IH. destruct (upd_state p v c) as [c' fwd].
      rewrite replace_nth_twice. reflexivity.
    + cbn [fwd_state]. rewrite E. reflexivity.
Qed.

(* the forced race of the harness on the witness workflow: RUNNING, t0 (critical) dies, its ERROR is
   overtaken at the leaf by a late RUNNING reply, and still goes up: environment in ERROR although
   the role of t0 reports RUNNING (the watcher's STOP cannot be delivered to the dead task) *)
Lemma wit_race :
  let s0 := wrun wit_ok_pre wit_created in
  let s := run_sop (SRace 0%nat RUNNING [SendFail]) s0 in
  w_env s0 = E_RUNNING /\ w_watch s0 = WWaiting /\
  w_env s = E_ERROR /\ w_rend s = RSet /\ wquiet s = true /\
  leaf_at (w_tree s) [0%nat] = Some (true, RUNNING, INACTIVE) /\ st_of (w_tree s) = ERROR.
Proof. vm_compute. repeat split. Qed.

(* ------------------------------------------------------------------ *)
(* 10. A failure before the watcher has subscribed (repair of C03-a)   *)
(* ------------------------------------------------------------------ *)

Lemma wstart_on_error s :
  w_watch s = WNotStarted -> st_of (w_tree s) = ERROR -> w_watch (wstep AWStart s) = WTimer.
Proof. intros W R. cbn [wstep]. unfold do_wstart. rewrite W. cbn. rewrite R. reflexivity. Qed.

(* the ERROR update of a critical task role leaves the root aggregator in ERROR *)
Lemma root_error_after_crit_update p t :
  is_agg t = true -> critp t p = true -> st_of (fst (upd_state p ERROR t)) = ERROR.
Proof.
  intros A C. destruct t as [c st x|st x cs]; [discriminate|].
  destruct p as [|i p]; [discriminate|].
  unfold critp in C. cbn [get_sub children] in C. cbn [upd_state].
  destruct (nth_error cs i) as [c|] eqn:E; [|discriminate].
  pose proof (upd_state_ERROR_crit p c) as D. unfold critp in D. specialize (D C).
  destruct (upd_state p ERROR c) as [c' fwd]. cbn in D. subst fwd.
  cbn. apply merge_state_ERROR_in.
Qed.

Theorem error_before_subscription s sched :
  Inv s -> w_watch s = WNotStarted -> st_of (w_tree s) = ERROR ->
  wquiet (wrun sched (wstep AWStart s)) = true -> w_env (wrun sched (wstep AWStart s)) = E_ERROR.
Proof.
  intros I W R Q. apply armed_ends_in_error; [apply Inv_step; exact I| |exact Q].
  apply wstart_on_error; assumption.
Qed.

(* ------------------------------------------------------------------ *)
(* 11. The label and the route of a failure report do not matter       *)
(* ------------------------------------------------------------------ *)

Lemma failure_label_in_source : failure_label_irrelevant = true.
Proof. vm_compute. reflexivity. Qed.

(* whatever reason, source, route and optional fields: a terminal failure state of an owned, locked
   task is the fault FDead [v] of the model; of a task that is not, nothing *)
Lemma report_fault_label_free l v :
  In (fl_state l) [1; 2; 3; 7] ->
  report_fault l true v = FDead [v] /\ report_fault l false v = FDead [].
Proof.
  intro H. unfold report_fault.
  assert (M : memN (fl_state l) error_case_states = true).
  { destruct H as [<-|[<-|[<-|[<-|[]]]]]; vm_compute; reflexivity. }
  rewrite M. split; reflexivity.
Qed.

(* ------------------------------------------------------------------ *)
(* 12. Failures are routed to the environment that owns the task       *)
(* ------------------------------------------------------------------ *)

Lemma routed_by_owner_in_source : routed_by_owner = true.
Proof. vm_compute. reflexivity. Qed.

(* ------------------------------------------------------------------ *)
(* 13. Benign status traffic                                           *)
(* ------------------------------------------------------------------ *)

Lemma refresh_keeps_ownership_in_source : refresh_keeps_ownership = true.
Proof. vm_compute. reflexivity. Qed.

(* in the model a refresh changes nothing, so every theorem about a later failure applies to the state
   before it *)
Lemma run_sop_refresh s : run_sop SRefresh s = clear_log s.
Proof. reflexivity. Qed.

(* ------------------------------------------------------------------ *)
(* 14. The tasks of a live environment stay in the roster              *)
(* ------------------------------------------------------------------ *)

Lemma roster_writes_fresh_in_source : roster_writes_fresh = true.
Proof. vm_compute. reflexivity. Qed.

(* the model's probe never fails: a model environment has all its tasks *)
Lemma observe_rostered s : wo_rostered (observe s) = true.
Proof. reflexivity. Qed.
