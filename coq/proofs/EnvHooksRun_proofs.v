(* Lemmas for C10 (run number and run timestamps) about the model of coq/model/EnvHooks.v. *)
From Verif Require Import Common EnvHooks EnvHooks_proofs EnvHooksFail_proofs.
From Coq Require Import ZArith List Bool Lia.
Import ListNotations.
Open Scope N_scope.

(* ------------------------------------------------------------------ what a call sees *)

Definition upd_eosor (v : sv) (r : rvars) := mkRv (rv_rn r) (rv_var r) (rv_sosor r) v (rv_soeor r) (rv_eoeor r).
Definition upd_soeor (v : sv) (r : rvars) := mkRv (rv_rn r) (rv_var r) (rv_sosor r) (rv_eosor r) v (rv_eoeor r).
Definition upd_eoeor (v : sv) (r : rvars) := mkRv (rv_rn r) (rv_var r) (rv_sosor r) (rv_eosor r) (rv_soeor r) v.

(* a predicate on the run variables that the writes of the three later stamps cannot break *)
Definition stable (P : rvars -> Prop) : Prop :=
  forall r c, P r -> P (upd_eosor (SSet c) r) /\ P (upd_soeor (SSet c) r) /\ P (upd_eoeor (SSet c) r).

(* every call started in this trace saw run variables satisfying P *)
Definition sees (P : rvars -> Prop) (t : list tev) : Prop :=
  Forall (fun x => match x with TStart _ _ sn => P sn | _ => True end) t.

Lemma sees_app P a b : sees P a -> sees P b -> sees P (a ++ b).
Proof. intros A B. apply Forall_app. split; assumption. Qed.
Lemma sees_cons_step P n b er t : sees P t -> sees P (TStep n b er :: t).
Proof. intro H. constructor; [exact I|exact H]. Qed.
Lemma sees_step P n b er : sees P [TStep n b er].
Proof. repeat constructor. Qed.
Lemma sees_runs P t : Forall is_run_ev t -> sees P t.
Proof. intro H. eapply Forall_impl; [|exact H]. intros x Hx. destruct x; cbn in *; tauto. Qed.
Lemma sees_body P e ok : sees P (body_trace e ok).
Proof. repeat constructor. Qed.

Lemma run_pass_sees hooks orc m pred s s' t p (P : rvars -> Prop) :
  run_pass hooks orc m pred s = (s', t, p) -> P (e_rv s) -> sees P t /\ e_rv s' = e_rv s /\ e_clock s' = e_clock s.
Proof.
  intros H HP. pose proof (run_pass_events _ _ _ _ _ _ _ _ H) as V. apply run_pass_frame in H.
  split; [|tauto]. eapply Forall_impl; [|exact V]. intros x Hx.
  destruct x; cbn in *; try exact I. destruct Hx as (_ & _ & _ & _ & _ & ->). exact HP.
Qed.

Lemma set_soeor_P P s : stable P -> P (e_rv s) -> P (e_rv (fst (set_soeor_if_empty s))).
Proof.
  intros St HP. unfold set_soeor_if_empty. destruct (is_empty (rv_soeor (e_rv s))); [|exact HP].
  cbn. apply (St (e_rv s) (e_clock s) HP).
Qed.
Lemma set_eoeor_P P s : stable P -> P (e_rv s) -> P (e_rv (fst (set_eoeor_if_empty s))).
Proof.
  intros St HP. unfold set_eoeor_if_empty. destruct (is_empty (rv_eoeor (e_rv s))); [|exact HP].
  cbn. apply (St (e_rv s) (e_clock s) HP).
Qed.

Lemma builtin_before_P P e s : stable P -> e <> START_ACTIVITY -> P (e_rv s) -> P (e_rv (fst (builtin_before e s))).
Proof.
  intros St He HP. unfold builtin_before. destruct e; try exact HP; try contradiction;
    pose proof (set_soeor_P P s St HP) as Q; destruct (set_soeor_if_empty s); exact Q.
Qed.
Lemma builtin_leave_P P src s : stable P -> P (e_rv s) -> P (e_rv (builtin_leave src s)).
Proof. intros St HP. unfold builtin_leave. destruct src; try exact HP. apply set_soeor_P; assumption. Qed.
Lemma builtin_after_P P e err s : stable P -> P (e_rv s) -> P (e_rv (fst (builtin_after e err s))).
Proof.
  intros St HP. unfold builtin_after. destruct e; try exact HP.
  - cbn. apply (St (e_rv s) (e_clock s) HP).
  - cbn. apply (St (e_rv s) (e_clock s) HP).
  - pose proof (set_eoeor_P P s St HP) as Q; destruct (set_eoeor_if_empty s); exact Q.
Qed.

Lemma sees_nil P : sees P [].
Proof. constructor. Qed.

Ltac sees_tac :=
  repeat first
    [ assumption
    | apply sees_nil
    | apply sees_step
    | apply sees_app
    | apply sees_cons_step
    | apply sees_runs; eassumption ].

Lemma leave_stage_P P hooks orc src s s' t errs c :
  leave_stage hooks orc src s = (s', t, errs, c) -> stable P -> P (e_rv s) -> sees P t /\ P (e_rv s').
Proof.
  unfold leave_stage, bstep, estep. intros H St HP.
  destruct (run_pass hooks orc (MLeave src) wneg s) as [[s1 t1] p1] eqn:E1.
  destruct (run_pass_sees _ _ _ _ _ _ _ _ P E1 HP) as (V1 & R1 & _).
  assert (HP1 : P (e_rv s1)) by (rewrite R1; exact HP).
  pose proof (builtin_leave_P P src s1 St HP1) as HPl.
  destruct p1.
  - destruct (run_pass hooks orc (MLeave src) wnonneg (builtin_leave src s1)) as [[s3 t3] p3] eqn:E3.
    destruct (run_pass_sees _ _ _ _ _ _ _ _ P E3 HPl) as (V3 & R3 & _).
    destruct p3; inversion H; subst; clear H; (split; [sees_tac|rewrite R3; exact HPl]).
  - inversion H; subst; clear H. split; [sees_tac|exact HPl].
  - inversion H; subst; clear H. split; [sees_tac|exact HP1].
Qed.

Lemma enter_stage_P (P : rvars -> Prop) hooks orc d s s' t errs c :
  enter_stage hooks orc d s = (s', t, errs, c) -> P (e_rv s) -> sees P t /\ P (e_rv s').
Proof.
  unfold enter_stage, bstep, estep. intros H HP.
  destruct (run_pass hooks orc (MEnter d) wneg s) as [[s1 t1] p1] eqn:E1.
  destruct (run_pass_sees _ _ _ _ _ _ _ _ P E1 HP) as (V1 & R1 & _).
  assert (HP1 : P (e_rv s1)) by (rewrite R1; exact HP).
  destruct (is_crash p1); [inversion H; subst; split; [sees_tac|exact HP1]|].
  destruct (run_pass hooks orc (MEnter d) wnonneg s1) as [[s2 t2] p2] eqn:E2.
  destruct (run_pass_sees _ _ _ _ _ _ _ _ P E2 HP1) as (V2 & R2 & _).
  destruct (is_crash p2); inversion H; subst; clear H; (split; [sees_tac|rewrite R2; exact HP1]).
Qed.

(* after_event: every call sees P; the state handed back satisfies P unless the run number was
   dropped at the very end (STOP_ACTIVITY) *)
Lemma after_stage_P P hooks orc e err0 s s' t errs c :
  after_stage hooks orc e err0 s = (s', t, errs, c) -> stable P -> P (e_rv s) ->
  sees P t /\ (e <> STOP_ACTIVITY -> P (e_rv s')).
Proof.
  unfold after_stage, bstep, estep. intros H St HP.
  destruct (run_pass hooks orc (MAfter e) wneg s) as [[s1 t1] p1] eqn:E1.
  destruct (run_pass_sees _ _ _ _ _ _ _ _ P E1 HP) as (V1 & R1 & _).
  assert (HP1 : P (e_rv s1)) by (rewrite R1; exact HP).
  destruct (is_crash p1); [inversion H; subst; split; [sees_tac|intros _; exact HP1]|].
  pose proof (builtin_after_P P e (err0 || nonnil (perrs (MAfter e) p1)) s1 St HP1) as HPa.
  destruct (builtin_after e (err0 || nonnil (perrs (MAfter e) p1)) s1) as [s2 ta] eqn:Ea.
  pose proof (builtin_after_runs _ _ _ _ _ Ea) as Va. cbn [fst] in HPa.
  destruct (run_pass hooks orc (MAfter e) wnonneg s2) as [[s3 t3] p3] eqn:E3.
  destruct (run_pass_sees _ _ _ _ _ _ _ _ P E3 HPa) as (V3 & R3 & _).
  destruct (is_crash p3); inversion H; subst; clear H.
  - split; [sees_tac|intros _; rewrite R3; exact HPa].
  - split; [sees_tac|]. intro He. destruct e; try contradiction; cbn; rewrite R3; exact HPa.
Qed.

Lemma before_stage_P P hooks orc e s s' t errs c :
  before_stage hooks orc e s = (s', t, errs, c) -> stable P -> e <> START_ACTIVITY -> P (e_rv s) ->
  sees P t /\ P (e_rv s').
Proof.
  unfold before_stage, bstep, estep. intros H St He HP.
  destruct (run_pass hooks orc (MBefore e) wneg s) as [[s1 t1] p1] eqn:E1.
  destruct (run_pass_sees _ _ _ _ _ _ _ _ P E1 HP) as (V1 & R1 & _).
  assert (HP1 : P (e_rv s1)) by (rewrite R1; exact HP).
  destruct p1.
  - pose proof (builtin_before_P P e s1 St He HP1) as HPb.
    destruct (builtin_before e s1) as [s2 tb] eqn:Eb.
    pose proof (builtin_before_runs _ _ _ _ Eb) as Vb. cbn [fst] in HPb.
    destruct (run_pass hooks orc (MBefore e) wnonneg s2) as [[s3 t3] p3] eqn:E3.
    destruct (run_pass_sees _ _ _ _ _ _ _ _ P E3 HPb) as (V3 & R3 & _).
    destruct p3; inversion H; subst; clear H; (split; [sees_tac|rewrite R3; exact HPb]).
  - inversion H; subst; clear H. split; [sees_tac|exact HP1].
  - inversion H; subst; clear H. split; [sees_tac|exact HP1].
Qed.

Lemma zero_rn_other e s : e <> START_ACTIVITY ->
  (match e with START_ACTIVITY => zero_rn s | _ => s end) = s.
Proof. destruct e; try reflexivity. contradiction. Qed.

(* C10, window, every transition but START_ACTIVITY: whatever holds of the run variables and
   cannot be broken by writing the three later stamps (in particular: "the run number is n and
   the start stamp is c") is seen by every call of the transition, at every moment and weight,
   and still holds afterwards — except that STOP_ACTIVITY drops the number after its last hook *)
Opaque body_trace.
Lemma transition_sees_other P hooks orc e b s s' t r :
  transition hooks orc e b s = (s', t, r) -> stable P -> e <> START_ACTIVITY -> P (e_rv s) ->
  sees P t /\ (e <> STOP_ACTIVITY -> P (e_rv s')).
Proof.
  unfold transition. intros H St He HP.
  destruct (dst_of e (e_st s)) as [d|]; [|inversion H; subst; split; [constructor|intros _; exact HP]].
  destruct (before_stage hooks orc e s) as [[[s1 tB] eB] cB] eqn:EB.
  destruct (before_stage_P P _ _ _ _ _ _ _ _ EB St He HP) as [VB PB].
  destruct cB; [inversion H; subst; split; [exact VB|intros _; exact PB]|].
  destruct eB as [|pe eB]; [|inversion H; subst; split; [exact VB|intros _; exact PB]].
  destruct (leave_stage hooks orc (e_st s) s1) as [[[s2 tL] eL] cL] eqn:EL.
  destruct (leave_stage_P P _ _ _ _ _ _ _ _ EL St PB) as [VL PL].
  destruct cL; [inversion H; subst; split; [sees_tac|intros _; exact PL]|].
  destruct eL as [|pe eL]; [|inversion H; subst; split; [sees_tac|intros _; exact PL]].
  destruct b.
  - destruct (enter_stage hooks orc d (set_st d s2)) as [[[s4 tE] eE] cE] eqn:EE.
    destruct (enter_stage_P P _ _ _ _ _ _ _ _ EE PL) as [VE PE_].
    destruct cE; [inversion H; subst; split; [pose proof (sees_body P e true); sees_tac|intros _; exact PE_]|].
    destruct (after_stage hooks orc e (nonnil eE) s4) as [[[s5 tA] eA] cA] eqn:EA.
    destruct (after_stage_P P _ _ _ _ _ _ _ _ _ EA St PE_) as [VA PA].
    destruct cA; inversion H; subst; (split; [pose proof (sees_body P e true); sees_tac|exact PA]).
  - inversion H; subst. split; [pose proof (sees_body P e false); sees_tac|intros _; exact PL].
  - inversion H; subst. rewrite (zero_rn_other e s2 He).
    split; [pose proof (sees_body P e false); sees_tac|intros _; exact PL].
Qed.
Transparent body_trace.

(* the run variables right after the built-in work of before_START_ACTIVITY *)
Definition fresh_run (s : est) : rvars :=
  mkRv (N.succ (e_ctr s)) (Some (N.succ (e_ctr s))) (SSet (e_clock s)) SEmpty SEmpty SEmpty.

Definition same_run (r0 r : rvars) : Prop :=
  rv_rn r = rv_rn r0 /\ rv_var r = rv_var r0 /\ rv_sosor r = rv_sosor r0.
Lemma same_run_stable r0 : stable (same_run r0).
Proof. intros r c H. unfold same_run in *. cbn. tauto. Qed.
Lemma same_run_refl r : same_run r r.
Proof. unfold same_run. tauto. Qed.

(* what a call of a START_ACTIVITY transition sees: negative weights of before_START_ACTIVITY see
   the variables as they were; everything else sees the new number and the new start stamp *)
Definition start_sees (s : est) (x : tev) : Prop :=
  match x with
  | TStart _ h sn =>
    if mname_eqb (fst (h_trig h)) (MBefore START_ACTIVITY) && wneg (snd (h_trig h))
    then sn = e_rv s
    else same_run (fresh_run s) sn
  | _ => True
  end.

Lemma pass_start_sees hooks orc m pred s s' t p s0 :
  run_pass hooks orc m pred s = (s', t, p) ->
  (if mname_eqb m (MBefore START_ACTIVITY) then forall w, pred w = true -> wneg w = true else False) ->
  e_rv s = e_rv s0 -> Forall (start_sees s0) t.
Proof.
  intros H Hm Hr. pose proof (run_pass_events _ _ _ _ _ _ _ _ H) as V.
  eapply Forall_impl; [|exact V]. intros x Hx. destruct x; cbn in *; try exact I.
  destruct Hx as (_ & _ & Hfm & Hw & _ & ->). rewrite Hfm.
  destruct (mname_eqb m (MBefore START_ACTIVITY)); [|contradiction].
  apply pass_weights_in in Hw. destruct Hw as [Hw _]. rewrite (Hm _ Hw). cbn. exact Hr.
Qed.

Lemma sees_start_sees s0 t :
  sees (same_run (fresh_run s0)) t ->
  Forall (fun x => match x with TStart _ h _ =>
            mname_eqb (fst (h_trig h)) (MBefore START_ACTIVITY) && wneg (snd (h_trig h)) = false | _ => True end) t ->
  Forall (start_sees s0) t.
Proof.
  intros A B. unfold sees in A. rewrite Forall_forall in *. intros x Hx. specialize (A x Hx). specialize (B x Hx).
  destruct x; cbn in *; try exact I. rewrite B. exact A.
Qed.

Lemma stage_not_negbefore m t :
  Forall (stage_ev m) t -> m <> MBefore START_ACTIVITY ->
  Forall (fun x => match x with TStart _ h _ =>
            mname_eqb (fst (h_trig h)) (MBefore START_ACTIVITY) && wneg (snd (h_trig h)) = false | _ => True end) t.
Proof.
  intros H Hm. eapply Forall_impl; [|exact H]. intros x Hx. destruct x; cbn in *; try exact I.
  rewrite Hx. rewrite (mname_eqb_neq _ _ Hm). reflexivity.
Qed.

Lemma pass_nonneg_not_negbefore hooks orc m s s' t p :
  run_pass hooks orc m wnonneg s = (s', t, p) ->
  Forall (fun x => match x with TStart _ h _ =>
            mname_eqb (fst (h_trig h)) (MBefore START_ACTIVITY) && wneg (snd (h_trig h)) = false | _ => True end) t.
Proof.
  intro H. pose proof (run_pass_events _ _ _ _ _ _ _ _ H) as V.
  eapply Forall_impl; [|exact V]. intros x Hx. destruct x; cbn in *; try exact I.
  destruct Hx as (_ & _ & _ & Hw & _). apply pass_weights_in in Hw. destruct Hw as [Hw _].
  rewrite wneg_wnonneg in Hw. apply negb_true_iff in Hw. rewrite Hw. apply andb_false_r.
Qed.

Lemma builtin_before_start s1 s0 :
  e_rv s1 = e_rv s0 -> e_clock s1 = e_clock s0 -> e_ctr s1 = e_ctr s0 ->
  e_rv (fst (builtin_before START_ACTIVITY s1)) = fresh_run s0.
Proof. intros A B C. unfold fresh_run. cbn. rewrite B, C. reflexivity. Qed.

Lemma start_sees_steps s0 n b er : start_sees s0 (TStep n b er).
Proof. exact I. Qed.

Ltac fapp :=
  repeat first
    [ assumption
    | apply Forall_nil
    | match goal with Hb : forall ok, Forall _ (body_trace _ ok) |- _ => apply Hb end
    | apply Forall_app; split
    | apply Forall_cons; [exact I|] ].

(* C10, window, START_ACTIVITY *)
Opaque body_trace.
Lemma transition_sees_start hooks orc b s s' t r :
  transition hooks orc START_ACTIVITY b s = (s', t, r) -> Forall (start_sees s) t.
Proof.
  unfold transition. intros H.
  destruct (dst_of START_ACTIVITY (e_st s)) as [d|]; [|inversion H; constructor].
  unfold before_stage in H.
  destruct (run_pass hooks orc (MBefore START_ACTIVITY) wneg s) as [[s1 t1] p1] eqn:E1.
  assert (V1 : Forall (start_sees s) t1).
  { eapply pass_start_sees; [exact E1| |reflexivity]. cbn. intros w Hw. exact Hw. }
  pose proof (run_pass_frame _ _ _ _ _ _ _ _ E1) as (_ & R1 & C1 & K1).
  unfold bstep, estep in H.
  destruct p1.
  2:{ inversion H; subst. constructor; [exact I|]. apply Forall_app. split; [exact V1|repeat constructor]. }
  2:{ inversion H; subst. constructor; [exact I|exact V1]. }
  pose proof (builtin_before_start s1 s R1 C1 K1) as Hf.
  destruct (builtin_before START_ACTIVITY s1) as [s2 tb] eqn:Eb. cbn [fst] in Hf.
  pose proof (builtin_before_runs _ _ _ _ Eb) as Vb.
  assert (Vb' : Forall (start_sees s) tb).
  { eapply Forall_impl; [|exact Vb]. intros x Hx. destruct x; cbn in *; tauto. }
  destruct (run_pass hooks orc (MBefore START_ACTIVITY) wnonneg s2) as [[s3 t3] p3] eqn:E3.
  assert (P2 : same_run (fresh_run s) (e_rv s2)) by (rewrite Hf; apply same_run_refl).
  destruct (run_pass_sees _ _ _ _ _ _ _ _ _ E3 P2) as (V3 & R3 & _).
  pose proof (sees_start_sees s t3 V3 (pass_nonneg_not_negbefore _ _ _ _ _ _ _ E3)) as V3'.
  assert (P3 : same_run (fresh_run s) (e_rv s3)) by (rewrite R3; exact P2).
  assert (VB : forall x, Forall (start_sees s) x ->
               Forall (start_sees s) (TStep (SMoment (MBefore START_ACTIVITY)) true false :: t1 ++ tb ++ t3 ++ x)).
  { intros x Hx. constructor; [exact I|]. repeat (apply Forall_app; split; try assumption). }
  destruct p3.
  2:{ inversion H; subst. apply VB. repeat constructor. }
  2:{ inversion H; subst. rewrite <- (app_nil_r t3). apply VB. constructor. }
  pose proof (VB _ (Forall_cons _ (start_sees_steps s (SMoment (MBefore START_ACTIVITY)) false false) (Forall_nil _))) as VB'.
  clear VB.
  destruct (leave_stage hooks orc (e_st s) s3) as [[[s4 tL] eL] cL] eqn:EL.
  destruct (leave_stage_P _ _ _ _ _ _ _ _ _ EL (same_run_stable _) P3) as [VL PL].
  pose proof (leave_stage_spec _ _ _ _ _ _ _ _ EL) as (SL & _).
  pose proof (sees_start_sees s tL VL (stage_not_negbefore _ _ SL ltac:(discriminate))) as VL'.
  assert (Vbody : forall ok, Forall (start_sees s) (body_trace START_ACTIVITY ok)).
  { intro ok. Transparent body_trace. unfold body_trace. Opaque body_trace. repeat constructor. }
  destruct cL; [inversion H; subst; fapp|].
  destruct eL as [|pe eL]; [|inversion H; subst; fapp].
  destruct b.
  - destruct (enter_stage hooks orc d (set_st d s4)) as [[[s5 tE] eE] cE] eqn:EE.
    destruct (enter_stage_P _ _ _ _ _ _ _ _ _ EE PL) as [VE PE_].
    pose proof (enter_stage_spec _ _ _ _ _ _ _ _ EE) as (SE & _).
    pose proof (sees_start_sees s tE VE (stage_not_negbefore _ _ SE ltac:(discriminate))) as VE'.
    destruct cE; [inversion H; subst; fapp|].
    destruct (after_stage hooks orc START_ACTIVITY (nonnil eE) s5) as [[[s6 tA] eA] cA] eqn:EA.
    destruct (after_stage_P _ _ _ _ _ _ _ _ _ _ EA (same_run_stable _) PE_) as [VA _].
    pose proof (after_stage_spec _ _ _ _ _ _ _ _ _ EA) as (SA & _).
    pose proof (sees_start_sees s tA VA (stage_not_negbefore _ _ SA ltac:(discriminate))) as VA'.
    destruct cA; inversion H; subst; fapp.
  - inversion H; subst. fapp.
  - inversion H; subst. fapp.
Qed.
Transparent body_trace.

(* ------------------------------------------------------------------ the number is gone after STOP *)

Lemma after_stage_drop hooks orc e err0 s s' t errs :
  after_stage hooks orc e err0 s = (s', t, errs, false) -> exists s3, s' = drop_run_number e s3.
Proof.
  unfold after_stage.
  destruct (run_pass hooks orc (MAfter e) wneg s) as [[s1 t1] p1].
  destruct (is_crash p1); [intro H; inversion H|].
  destruct (builtin_after e _ s1) as [s2 ta].
  destruct (run_pass hooks orc (MAfter e) wnonneg s2) as [[s3 t3] p3].
  destruct (is_crash p3); intro H; inversion H. exists s3. reflexivity.
Qed.

Definition completed (r : result) : Prop := r <> RCrash.

(* a transition that changed the state went through all four callbacks *)
Lemma changed_is_done hooks orc e b s s' t r d :
  transition hooks orc e b s = (s', t, r) -> dst_of e (e_st s) = Some d -> r <> RCrash ->
  e_st s' <> e_st s ->
  exists s1 tB s2 tL s4 tE eE tA eA,
    before_stage hooks orc e s = (s1, tB, [], false) /\
    leave_stage hooks orc (e_st s) s1 = (s2, tL, [], false) /\
    enter_stage hooks orc d (set_st d s2) = (s4, tE, eE, false) /\
    after_stage hooks orc e (nonnil eE) s4 = (s', tA, eA, false).
Proof.
  intros H Hd Hr Hs. apply transition_outcome with (d := d) in H; [|exact Hd].
  inversion H as [| s1 tB pe t0 EB ET | s1 tB s2 tL pe t0 EB EL ET | s1 tB s2 tL s2' EB EL Hb Hs2 | s1 tB s2 tL s4 tE eE s5 tA eA EB EL Hb EE EA]; subst.
  - contradiction.
  - exfalso. apply Hs. apply (before_stage_spec _ _ _ _ _ _ _ _ EB).
  - exfalso. apply Hs. pose proof (before_stage_spec _ _ _ _ _ _ _ _ EB) as (_ & SB & _).
    pose proof (leave_stage_spec _ _ _ _ _ _ _ _ EL) as (_ & SL & _). congruence.
  - exfalso. apply Hs. pose proof (before_stage_spec _ _ _ _ _ _ _ _ EB) as (_ & SB & _).
    pose proof (leave_stage_spec _ _ _ _ _ _ _ _ EL) as (_ & SL & _). congruence.
  - do 9 eexists. repeat split; eassumption.
Qed.

(* C10: once STOP_ACTIVITY has brought the environment out of RUNNING the run number is gone,
   from the field and from the variables *)
Lemma stop_drops hooks orc b s s' t r d :
  transition hooks orc STOP_ACTIVITY b s = (s', t, r) -> dst_of STOP_ACTIVITY (e_st s) = Some d ->
  r <> RCrash -> e_st s' <> e_st s ->
  rv_rn (e_rv s') = 0 /\ rv_var (e_rv s') = None.
Proof.
  intros H Hd Hr Hs.
  destruct (changed_is_done _ _ _ _ _ _ _ _ _ H Hd Hr Hs) as (s1 & tB & s2 & tL & s4 & tE & eE & tA & eA & _ & _ & _ & EA).
  apply after_stage_drop in EA. destruct EA as [s3 ->]. cbn. split; reflexivity.
Qed.

(* ------------------------------------------------------------------ end stamps *)

Definition is_set (v : sv) : Prop := exists a, v = SSet a.

Lemma set_soeor_set s : rv_soeor (e_rv s) <> SAbsent ->
  is_set (rv_soeor (e_rv (fst (set_soeor_if_empty s)))) /\
  rv_eoeor (e_rv (fst (set_soeor_if_empty s))) = rv_eoeor (e_rv s).
Proof.
  intro H. unfold set_soeor_if_empty. destruct (rv_soeor (e_rv s)) as [| |a] eqn:E; cbn.
  - contradiction.
  - split; [eexists; reflexivity|reflexivity].
  - rewrite E. split; [eexists; reflexivity|reflexivity].
Qed.
Lemma set_eoeor_set s : rv_eoeor (e_rv s) <> SAbsent ->
  is_set (rv_eoeor (e_rv (fst (set_eoeor_if_empty s)))) /\
  rv_soeor (e_rv (fst (set_eoeor_if_empty s))) = rv_soeor (e_rv s).
Proof.
  intro H. unfold set_eoeor_if_empty. destruct (rv_eoeor (e_rv s)) as [| |a] eqn:E; cbn.
  - contradiction.
  - split; [eexists; reflexivity|reflexivity].
  - rewrite E. split; [eexists; reflexivity|reflexivity].
Qed.

Definition ending (e : evt) : Prop := e = STOP_ACTIVITY \/ e = GO_ERROR.

(* the end stamp is in place, the completion stamp can still be written *)
Definition end_begun (r : rvars) : Prop := is_set (rv_soeor r) /\ rv_eoeor r <> SAbsent.
Lemma end_begun_stable : stable end_begun.
Proof.
  intros r c [[a Ha] Hb]. unfold end_begun, is_set. cbn.
  repeat split; try (eexists; eassumption); try (eexists; reflexivity); try exact Hb; discriminate.
Qed.

Lemma before_stage_end hooks orc e s s' t :
  ending e -> before_stage hooks orc e s = (s', t, [], false) ->
  rv_soeor (e_rv s) <> SAbsent -> rv_eoeor (e_rv s) <> SAbsent -> end_begun (e_rv s').
Proof.
  intros He. unfold before_stage.
  destruct (run_pass hooks orc (MBefore e) wneg s) as [[s1 t1] p1] eqn:E1.
  pose proof (run_pass_frame _ _ _ _ _ _ _ _ E1) as (_ & R1 & _).
  destruct p1; [|intro H; inversion H|intro H; inversion H].
  destruct (builtin_before e s1) as [s2 tb] eqn:Eb.
  destruct (run_pass hooks orc (MBefore e) wnonneg s2) as [[s3 t3] p3] eqn:E3.
  pose proof (run_pass_frame _ _ _ _ _ _ _ _ E3) as (_ & R3 & _).
  destruct p3; intro H; inversion H; subst. intros Hs Hc. rewrite R3.
  assert (Q : e_rv s2 = e_rv (fst (set_soeor_if_empty s1))).
  { unfold builtin_before in Eb. destruct He as [-> | ->];
      destruct (set_soeor_if_empty s1) as [sx dn]; inversion Eb; reflexivity. }
  rewrite Q. rewrite <- R1 in Hs, Hc. destruct (set_soeor_set s1 Hs) as [A B].
  split; [exact A|rewrite B; exact Hc].
Qed.

Lemma after_stage_end hooks orc e err0 s s' t errs :
  ending e -> after_stage hooks orc e err0 s = (s', t, errs, false) -> end_begun (e_rv s) ->
  is_set (rv_soeor (e_rv s')) /\ is_set (rv_eoeor (e_rv s')).
Proof.
  intros He. unfold after_stage.
  destruct (run_pass hooks orc (MAfter e) wneg s) as [[s1 t1] p1] eqn:E1.
  pose proof (run_pass_frame _ _ _ _ _ _ _ _ E1) as (_ & R1 & _).
  destruct (is_crash p1); [intro H; inversion H|].
  destruct (builtin_after e (err0 || nonnil (perrs (MAfter e) p1)) s1) as [s2 ta] eqn:Ea.
  destruct (run_pass hooks orc (MAfter e) wnonneg s2) as [[s3 t3] p3] eqn:E3.
  pose proof (run_pass_frame _ _ _ _ _ _ _ _ E3) as (_ & R3 & _).
  destruct (is_crash p3); intro H; inversion H; subst. intros [Hs Hc].
  rewrite <- R1 in Hs, Hc.
  assert (Q : is_set (rv_soeor (e_rv s2)) /\ is_set (rv_eoeor (e_rv s2))).
  { unfold builtin_after in Ea. destruct He as [-> | ->].
    - inversion Ea; subst. cbn. split; [exact Hs|eexists; reflexivity].
    - destruct (set_eoeor_set s1 Hc) as [A B].
      destruct (set_eoeor_if_empty s1) as [sx dn]; inversion Ea; subst. cbn [fst] in *.
      split; [rewrite B; exact Hs|exact A]. }
  rewrite <- R3 in Q. destruct He as [-> | ->]; cbn; exact Q.
Qed.

(* C10 (end stamps, the part that holds): a run that is ended by a STOP_ACTIVITY or GO_ERROR
   transition which changes the state has both end stamps set afterwards *)
Lemma end_stamps_set hooks orc e b s s' t r d :
  ending e -> transition hooks orc e b s = (s', t, r) -> dst_of e (e_st s) = Some d ->
  r <> RCrash -> e_st s' <> e_st s ->
  rv_soeor (e_rv s) <> SAbsent -> rv_eoeor (e_rv s) <> SAbsent ->
  is_set (rv_soeor (e_rv s')) /\ is_set (rv_eoeor (e_rv s')).
Proof.
  intros He H Hd Hr Hs Ha Hb.
  destruct (changed_is_done _ _ _ _ _ _ _ _ _ H Hd Hr Hs) as (s1 & tB & s2 & tL & s4 & tE & eE & tA & eA & EB & EL & EE & EA).
  pose proof (before_stage_end _ _ _ _ _ _ He EB Ha Hb) as P1.
  destruct (leave_stage_P _ _ _ _ _ _ _ _ _ EL end_begun_stable P1) as [_ P2].
  destruct (enter_stage_P _ _ _ _ _ _ _ _ _ EE P2) as [_ P4].
  exact (after_stage_end _ _ _ _ _ _ _ _ He EA P4).
Qed.

(* ... and so has a run ended by tearing the environment down while RUNNING *)
Lemma teardown_end_stamps hooks i o s s' t r :
  o_kind o = OTeardown -> run_op hooks i o s = (s', t, r) -> r <> RCrash -> e_st s = RUNNING ->
  rv_soeor (e_rv s) <> SAbsent -> rv_eoeor (e_rv s) <> SAbsent ->
  is_set (rv_soeor (e_rv s')) /\ is_set (rv_eoeor (e_rv s')) /\ e_st s' = DONE.
Proof.
  intros Hk. unfold run_op. rewrite Hk. unfold leave_all.
  destruct (run_pass hooks (oracle_of i o) (MLeave (e_st s)) wall s) as [[s1 t1] p] eqn:E.
  pose proof (run_pass_frame _ _ _ _ _ _ _ _ E) as (S1 & R1 & _).
  destruct (is_crash p); [intros H Hr; inversion H; subst; contradiction|].
  destruct (teardown_stamps s1) as [s2 ts] eqn:Et.
  intros H _ Hst Ha Hb. inversion H; subst. cbn.
  unfold teardown_stamps in Et. rewrite S1, Hst in Et.
  rewrite <- R1 in Ha, Hb.
  destruct (set_soeor_set s1 Ha) as [A1 B1].
  destruct (set_soeor_if_empty s1) as [sa d1]. cbn [fst] in *.
  rewrite <- B1 in Hb. destruct (set_eoeor_set sa Hb) as [A2 B2].
  destruct (set_eoeor_if_empty sa) as [sb d2]. cbn [fst] in *.
  inversion Et; subst. split; [rewrite B2; exact A1|]. split; [exact A2|reflexivity].
Qed.

(* ------------------------------------------------------------------ refutation *)

(* "... and are gone afterwards": START_ACTIVITY that does not reach RUNNING *)
Definition failed_start_statement : Prop :=
  forall hooks orc b s s' t r,
    transition hooks orc START_ACTIVITY b s = (s', t, r) -> r <> RCrash -> e_st s' <> RUNNING ->
    rv_var (e_rv s) = None -> rv_var (e_rv s') = None.

(* C10-b: a critical hook of non-negative weight at before_START_ACTIVITY fails *)
Definition wit_fstart_hooks : list hook :=
  [mkHook 1 HCall (MBefore START_ACTIVITY, 0%Z) (MBefore START_ACTIVITY, 0%Z) true].

Lemma failed_start_refuted : ~ failed_start_statement.
Proof.
  intro H.
  specialize (H wit_fstart_hooks (mkOracle 0 [1] [] []) BOk (est0 CONFIGURED)).
  destruct (transition wit_fstart_hooks (mkOracle 0 [1] [] []) START_ACTIVITY BOk (est0 CONFIGURED)) as [[s' t] r] eqn:E.
  vm_compute in E. inversion E; subst. clear E.
  specialize (H _ _ _ eq_refl). cbn in H.
  assert (Q : Some 1 = None); [|discriminate].
  apply H; [discriminate|discriminate|reflexivity].
Qed.

(* ------------------------------------------------------------------ the window over a history *)

(* operations that neither start nor stop a run *)
Definition mid_run_op (o : op) : Prop :=
  match o_kind o with
  | OEvent e => e <> START_ACTIVITY /\ e <> STOP_ACTIVITY
  | OInvalid | OForceError => True
  | OLeaveCancel | OTeardown => False
  end.

Lemma force_error_P P s s2 tf : force_error s = (s2, tf) -> stable P -> P (e_rv s) -> sees P tf /\ P (e_rv s2).
Proof.
  unfold force_error. intros H St HP.
  destruct (e_st s); try (inversion H; subst; split; [constructor|exact HP]).
  pose proof (set_soeor_P P s St HP) as A. destruct (set_soeor_if_empty s) as [s1 d1]. cbn [fst] in A.
  pose proof (set_eoeor_P P s1 St A) as B. destruct (set_eoeor_if_empty s1) as [s3 d2]. cbn [fst] in B.
  inversion H; subst. split; [|exact B]. destruct d1, d2; repeat constructor.
Qed.

Lemma run_op_sees P hooks i o s s' t r :
  run_op hooks i o s = (s', t, r) -> stable P -> mid_run_op o -> P (e_rv s) -> sees P t /\ P (e_rv s').
Proof.
  unfold run_op, mid_run_op. intros H St Hm HP. destruct (o_kind o) as [e| | | |].
  - destruct Hm as [H1 H2]. destruct (transition_sees_other P _ _ _ _ _ _ _ _ H St H1 HP) as [A B]. auto.
  - inversion H; subst. split; [constructor|exact HP].
  - destruct (transition hooks (oracle_of i o) GO_ERROR (o_body o) s) as [[s1 t1] r1] eqn:E.
    destruct (transition_sees_other P _ _ _ _ _ _ _ _ E St ltac:(discriminate) HP) as [A B].
    specialize (B ltac:(discriminate)).
    destruct (force_error s1) as [s2 tf] eqn:Ef. destruct (force_error_P P _ _ _ Ef St B) as [A2 B2].
    destruct r1; inversion H; subst; try (split; [exact A|exact B]);
      (split; [apply sees_app; assumption|exact B2]).
  - contradiction.
  - contradiction.
Qed.

(* C10, window over a history: through any sequence of operations that neither start nor stop a
   run (failing or not, GO_ERROR and the forced ERROR included) every call sees what held of the
   run variables at the beginning, as far as it is independent of the three later stamps — in
   particular the same run number and start stamp *)
Lemma run_ops_sees P hooks : stable P -> forall ops i s s' l,
  run_ops hooks i ops s = (s', l) -> Forall mid_run_op ops -> P (e_rv s) ->
  sees P (full_trace l) /\ P (e_rv s').
Proof.
  intro St. induction ops as [|o ops IH]; intros i s s' l; cbn.
  - intros H _ HP. inversion H; subst. split; [constructor|exact HP].
  - destruct (run_op hooks i o s) as [[s1 t] res] eqn:E. intros H Hall HP.
    inversion Hall as [|? ? Ho Hrest]; subst.
    destruct (run_op_sees P _ _ _ _ _ _ _ E St Ho HP) as [A B].
    assert (One : sees P (full_trace [(t, res, s1)])).
    { unfold full_trace. cbn. rewrite app_nil_r. exact A. }
    destruct res; try (inversion H; subst; split; [exact One|exact B]);
      (destruct (run_ops hooks (N.succ i) ops s1) as [s2 l2] eqn:E2;
       destruct (IH _ _ _ _ E2 Hrest B) as [A2 B2];
       inversion H; subst; split; [unfold full_trace in *; cbn [flat_map fst]; apply sees_app; assumption|exact B2]).
Qed.

(* ------------------------------------------------------------------ order and at-most-once of the stamps *)
(* The run variables evolve only through the built-in work of the callbacks; a handleHooks pass
   never touches them.  [proj] is what the built-in work reads and writes. *)

Definition rvc := (rvars * N * N)%type.          (* run variables, logical clock, run counter *)
Definition proj (s : est) : rvc := (e_rv s, e_clock s, e_ctr s).

Definition soe (x : rvc) : rvc :=
  let '(r, c, k) := x in if is_empty (rv_soeor r) then (upd_soeor (SSet c) r, N.succ c, k) else x.
Definition eoe (x : rvc) : rvc :=
  let '(r, c, k) := x in if is_empty (rv_eoeor r) then (upd_eoeor (SSet c) r, N.succ c, k) else x.
Definition bbp (e : evt) (x : rvc) : rvc :=
  match e with
  | START_ACTIVITY =>
    let '(r, c, k) := x in
    (mkRv (N.succ k) (Some (N.succ k)) (SSet c) SEmpty SEmpty SEmpty, N.succ c, N.succ k)
  | STOP_ACTIVITY | GO_ERROR => soe x
  | _ => x
  end.
Definition blp (src : st) (x : rvc) : rvc := match src with RUNNING => soe x | _ => x end.
Definition bap (e : evt) (x : rvc) : rvc :=
  match e with
  | START_ACTIVITY => let '(r, c, k) := x in (upd_eosor (SSet c) r, N.succ c, k)
  | STOP_ACTIVITY => let '(r, c, k) := x in (upd_eoeor (SSet c) r, N.succ c, k)
  | GO_ERROR => eoe x
  | _ => x
  end.
Definition drp (e : evt) (x : rvc) : rvc :=
  match e with
  | STOP_ACTIVITY => let '(r, c, k) := x in (mkRv 0 None (rv_sosor r) (rv_eosor r) (rv_soeor r) (rv_eoeor r), c, k)
  | _ => x
  end.
Definition zrp (x : rvc) : rvc :=
  let '(r, c, k) := x in (mkRv 0 (rv_var r) (rv_sosor r) (rv_eosor r) (rv_soeor r) (rv_eoeor r), c, k).

Lemma soe_proj s : proj (fst (set_soeor_if_empty s)) = soe (proj s).
Proof. destruct s as [a p r c k sl]. unfold proj, soe, set_soeor_if_empty. cbn. destruct (is_empty (rv_soeor r)); reflexivity. Qed.
Lemma eoe_proj s : proj (fst (set_eoeor_if_empty s)) = eoe (proj s).
Proof. destruct s as [a p r c k sl]. unfold proj, eoe, set_eoeor_if_empty. cbn. destruct (is_empty (rv_eoeor r)); reflexivity. Qed.

Lemma bb_proj e s : proj (fst (builtin_before e s)) = bbp e (proj s).
Proof.
  unfold builtin_before, bbp. destruct e; try reflexivity;
    pose proof (soe_proj s) as P; destruct (set_soeor_if_empty s); exact P.
Qed.
Lemma bl_proj src s : proj (builtin_leave src s) = blp src (proj s).
Proof. unfold builtin_leave, blp. destruct src; try reflexivity. apply soe_proj. Qed.
Lemma ba_proj e err s : proj (fst (builtin_after e err s)) = bap e (proj s).
Proof.
  unfold builtin_after, bap. destruct e; try reflexivity.
  pose proof (eoe_proj s) as P; destruct (set_eoeor_if_empty s); exact P.
Qed.
Lemma dr_proj e s : proj (drop_run_number e s) = drp e (proj s).
Proof. destruct e; reflexivity. Qed.
Lemma zr_proj s : proj (zero_rn s) = zrp (proj s).
Proof. reflexivity. Qed.

Lemma run_pass_proj hooks orc m pred s s' t p :
  run_pass hooks orc m pred s = (s', t, p) -> proj s' = proj s /\ e_st s' = e_st s.
Proof. intro H. apply run_pass_frame in H. destruct H as (A & B & C & D). unfold proj. rewrite B, C, D. auto. Qed.

(* what one transition can do to the run variables (no outcome crashes: C09_no_crash) *)
Inductive tr_post (e : evt) (src d : st) (x : rvc) : rvc -> st -> Prop :=
| TPsame : tr_post e src d x x src
| TPbefore : tr_post e src d x (bbp e x) src
| TPleave : tr_post e src d x (blp src (bbp e x)) src
| TPzero : e = START_ACTIVITY -> tr_post e src d x (zrp (blp src (bbp e x))) src
| TPdone : tr_post e src d x (drp e (bap e (blp src (bbp e x)))) d.

Lemma transition_post hooks orc e b s s' t r d :
  transition hooks orc e b s = (s', t, r) -> dst_of e (e_st s) = Some d ->
  tr_post e (e_st s) d (proj s) (proj s') (e_st s').
Proof.
  intros H Hd. pose proof (transition_nocrash _ _ _ _ _ _ _ _ H) as Hr.
  unfold transition in H. rewrite Hd in H.
  unfold before_stage, leave_stage, enter_stage, after_stage in H.
  destruct (run_pass hooks orc (MBefore e) wneg s) as [[s1 t1] p1] eqn:E1.
  destruct (run_pass_proj _ _ _ _ _ _ _ _ E1) as [R1 S1].
  destruct p1; [|inversion H; subst; rewrite R1, S1; constructor|inversion H; subst; contradiction].
  pose proof (bb_proj e s1) as Rb. pose proof (builtin_before_st e s1) as Sb.
  destruct (builtin_before e s1) as [s2 tb]. cbn [fst] in Rb, Sb.
  destruct (run_pass hooks orc (MBefore e) wnonneg s2) as [[s3 t3] p3] eqn:E3.
  destruct (run_pass_proj _ _ _ _ _ _ _ _ E3) as [R3 S3].
  assert (P3 : proj s3 = bbp e (proj s) /\ e_st s3 = e_st s) by (rewrite R3, Rb, R1, S3, Sb, S1; auto).
  destruct P3 as [P3 Q3].
  destruct p3; [|inversion H; subst; rewrite P3, Q3; constructor|inversion H; subst; contradiction].
  destruct (run_pass hooks orc (MLeave (e_st s)) wneg s3) as [[s4 t4] p4] eqn:E4.
  destruct (run_pass_proj _ _ _ _ _ _ _ _ E4) as [R4 S4].
  assert (P4 : proj (builtin_leave (e_st s) s4) = blp (e_st s) (bbp e (proj s)) /\ e_st (builtin_leave (e_st s) s4) = e_st s).
  { rewrite bl_proj, builtin_leave_st, R4, P3, S4, Q3. auto. }
  destruct P4 as [P4 Q4].
  destruct p4; [|inversion H; subst; rewrite P4, Q4; constructor|inversion H; subst; contradiction].
  destruct (run_pass hooks orc (MLeave (e_st s)) wnonneg (builtin_leave (e_st s) s4)) as [[s5 t5] p5] eqn:E5.
  destruct (run_pass_proj _ _ _ _ _ _ _ _ E5) as [R5 S5].
  assert (P5 : proj s5 = blp (e_st s) (bbp e (proj s)) /\ e_st s5 = e_st s) by (rewrite R5, S5, P4, Q4; auto).
  destruct P5 as [P5 Q5].
  destruct p5; [|inversion H; subst; rewrite P5, Q5; constructor|inversion H; subst; contradiction].
  destruct b.
  - destruct (run_pass hooks orc (MEnter d) wneg (set_st d s5)) as [[s6 t6] p6] eqn:E6.
    destruct (run_pass_proj _ _ _ _ _ _ _ _ E6) as [R6 S6].
    destruct (is_crash p6); [inversion H; subst; contradiction|].
    destruct (run_pass hooks orc (MEnter d) wnonneg s6) as [[s7 t7] p7] eqn:E7.
    destruct (run_pass_proj _ _ _ _ _ _ _ _ E7) as [R7 S7].
    destruct (is_crash p7); [inversion H; subst; contradiction|].
    destruct (run_pass hooks orc (MAfter e) wneg s7) as [[s8 t8] p8] eqn:E8.
    destruct (run_pass_proj _ _ _ _ _ _ _ _ E8) as [R8 S8].
    destruct (is_crash p8); [inversion H; subst; contradiction|].
    match type of H with context [builtin_after e ?er s8] =>
      pose proof (ba_proj e er s8) as Ra; pose proof (builtin_after_st e er s8) as Sa;
      destruct (builtin_after e er s8) as [s9 ta] end.
    cbn [fst] in Ra, Sa.
    destruct (run_pass hooks orc (MAfter e) wnonneg s9) as [[s10 t10] p10] eqn:E10.
    destruct (run_pass_proj _ _ _ _ _ _ _ _ E10) as [R10 S10].
    destruct (is_crash p10); [inversion H; subst; contradiction|].
    inversion H; subst.
    assert (Px : proj (drop_run_number e s10) = drp e (bap e (blp (e_st s) (bbp e (proj s))))).
    { rewrite dr_proj, R10, Ra, R8, R7, R6. unfold proj at 1. cbn [set_st e_rv e_clock e_ctr].
      change (e_rv s5, e_clock s5, e_ctr s5) with (proj s5). rewrite P5. reflexivity. }
    assert (Qx : e_st (drop_run_number e s10) = d).
    { rewrite drop_run_number_st, S10, Sa, S8, S7, S6. reflexivity. }
    rewrite Px, Qx. constructor.
  - inversion H; subst. rewrite P5, Q5. constructor.
  - inversion H; subst. destruct e; try (rewrite P5, Q5; constructor).
    rewrite zr_proj, P5. change (e_st (zero_rn s5)) with (e_st s5). rewrite Q5. apply TPzero. reflexivity.
Qed.

(* ---- the invariant *)
Definition lt_c (v : sv) (c : N) : Prop := match v with SSet a => a < c | _ => True end.
Definition le_sv (u v : sv) : Prop := match u, v with SSet a, SSet b => a <= b | _, _ => True end.

(* the four stamps, where set, are ordered start <= start-completion <= end <= end-completion *)
Definition ordered (r : rvars) : Prop :=
  le_sv (rv_sosor r) (rv_eosor r) /\ le_sv (rv_sosor r) (rv_soeor r) /\ le_sv (rv_sosor r) (rv_eoeor r) /\
  le_sv (rv_eosor r) (rv_soeor r) /\ le_sv (rv_eosor r) (rv_eoeor r) /\ le_sv (rv_soeor r) (rv_eoeor r).

Definition inv (x : rvc) : Prop :=
  let '(r, c, _) := x in
  lt_c (rv_sosor r) c /\ lt_c (rv_eosor r) c /\ lt_c (rv_soeor r) c /\ lt_c (rv_eoeor r) c /\
  ordered r /\ (is_set (rv_eoeor r) -> rv_soeor r <> SEmpty).

Definition fresh_end (x : rvc) : Prop := let '(r, _, _) := x in rv_soeor r = SEmpty /\ rv_eoeor r = SEmpty.
Definition end_begun_x (x : rvc) : Prop := let '(r, _, _) := x in rv_soeor r <> SEmpty.
Definition eoeor_unset (x : rvc) : Prop := let '(r, _, _) := x in ~ is_set (rv_eoeor r).

(* a stamp that is set keeps its value *)
Definition keep_sv (u v : sv) : Prop := match u with SSet a => v = SSet a | _ => True end.
Definition keep (x y : rvc) : Prop :=
  let '(r, _, _) := x in let '(r', _, _) := y in
  keep_sv (rv_sosor r) (rv_sosor r') /\ keep_sv (rv_eosor r) (rv_eosor r') /\
  keep_sv (rv_soeor r) (rv_soeor r') /\ keep_sv (rv_eoeor r) (rv_eoeor r').

Lemma keep_refl x : keep x x.
Proof. destruct x as [[r c] k]. unfold keep, keep_sv. repeat split; destruct (_ r); reflexivity. Qed.
Lemma keep_trans x y z : keep x y -> keep y z -> keep x z.
Proof.
  destruct x as [[r c] k], y as [[r1 c1] k1], z as [[r2 c2] k2]. unfold keep, keep_sv.
  intros (A1 & A2 & A3 & A4) (B1 & B2 & B3 & B4).
  repeat split.
  - destruct (rv_sosor r); auto. rewrite A1 in B1. exact B1.
  - destruct (rv_eosor r); auto. rewrite A2 in B2. exact B2.
  - destruct (rv_soeor r); auto. rewrite A3 in B3. exact B3.
  - destruct (rv_eoeor r); auto. rewrite A4 in B4. exact B4.
Qed.

Ltac sv_crush :=
  unfold inv, ordered, lt_c, le_sv, is_set, fresh_end, end_begun_x, eoeor_unset, keep, keep_sv,
         soe, eoe, upd_soeor, upd_eoeor, upd_eosor, is_empty in *;
  cbn [rv_rn rv_var rv_sosor rv_eosor rv_soeor rv_eoeor] in *.

Lemma soe_inv x : inv x -> inv (soe x) /\ end_begun_x (soe x) /\ keep x (soe x) /\
  (eoeor_unset x -> eoeor_unset (soe x)).
Proof.
  destruct x as [[r c] k]. destruct r as [rn var a b s1 s2]. sv_crush.
  intros (L1 & L2 & L3 & L4 & (O1 & O2 & O3 & O4 & O5 & O6) & J).
  destruct s1 as [| |q]; cbn.
  - repeat split; auto; try discriminate; destruct a, b, s2; auto.
  - assert (Hn : forall z, s2 <> SSet z) by (intros z Hz; apply J; [exists z; exact Hz|reflexivity]).
    repeat split; auto; try discriminate;
      destruct a, b, s2; cbn in *; auto; try lia; try (exfalso; eapply Hn; reflexivity);
      try (intros [z Hz]; discriminate).
  - repeat split; auto; try discriminate; destruct a, b, s2; auto.
Qed.

Lemma eoe_inv x : inv x -> end_begun_x x -> inv (eoe x) /\ keep x (eoe x) /\ end_begun_x (eoe x).
Proof.
  destruct x as [[r c] k]. destruct r as [rn var a b s1 s2]. sv_crush.
  intros (L1 & L2 & L3 & L4 & (O1 & O2 & O3 & O4 & O5 & O6) & J) G.
  destruct s2 as [| |q]; cbn.
  - repeat split; auto; destruct a, b, s1; auto.
  - repeat split; auto; destruct a, b, s1; cbn in *; auto; try lia.
  - repeat split; auto; destruct a, b, s1; auto.
Qed.

Lemma bbp_start_inv x : inv x -> inv (bbp START_ACTIVITY x) /\ fresh_end (bbp START_ACTIVITY x).
Proof.
  destruct x as [[r c] k]. cbn. sv_crush. intros _. repeat split; auto; try lia.
  intros [z Hz]. discriminate.
Qed.

Lemma bap_start_inv x : inv x -> fresh_end x -> inv (bap START_ACTIVITY x) /\
  keep_sv (rv_sosor (fst (fst x))) (rv_sosor (fst (fst (bap START_ACTIVITY x)))) /\
  fresh_end (bap START_ACTIVITY x).
Proof.
  destruct x as [[r c] k]. destruct r as [rn var a b s1 s2]. cbn. sv_crush.
  intros (L1 & L2 & L3 & L4 & (O1 & O2 & O3 & O4 & O5 & O6) & J) [-> ->].
  repeat split; auto; try lia; try (destruct a; auto; lia); try (intros [z Hz]; discriminate).
Qed.

Lemma bap_stop_inv x : inv x -> end_begun_x x -> inv (bap STOP_ACTIVITY x).
Proof.
  destruct x as [[r c] k]. destruct r as [rn var a b s1 s2]. cbn. sv_crush.
  intros (L1 & L2 & L3 & L4 & (O1 & O2 & O3 & O4 & O5 & O6) & J) G.
  repeat split; auto; try lia; destruct a, b, s1; cbn in *; auto; lia.
Qed.

Lemma drp_inv e x : inv x -> inv (drp e x).
Proof. destruct x as [[r c] k]. destruct e; cbn; auto. Qed.
Lemma zrp_inv x : inv x -> inv (zrp x).
Proof. destruct x as [[r c] k]. cbn. auto. Qed.
Lemma drp_keep e x : keep x (drp e x).
Proof. destruct x as [[r c] k]. destruct e; try apply keep_refl. unfold keep, keep_sv; cbn. repeat split; destruct (_ r); reflexivity. Qed.
Lemma zrp_keep x : keep x (zrp x).
Proof. destruct x as [[r c] k]. unfold keep, keep_sv; cbn. repeat split; destruct (_ r); reflexivity. Qed.
Lemma drp_fresh e x : fresh_end x -> fresh_end (drp e x).
Proof. destruct x as [[r c] k]. destruct e; cbn; auto. Qed.
Lemma drp_unset e x : eoeor_unset x -> eoeor_unset (drp e x).
Proof. destruct x as [[r c] k]. destruct e; cbn; auto. Qed.
Lemma zrp_unset x : eoeor_unset x -> eoeor_unset (zrp x).
Proof. destruct x as [[r c] k]. cbn. auto. Qed.
Lemma fresh_unset x : fresh_end x -> eoeor_unset x.
Proof. destruct x as [[r c] k]. cbn. intros [_ H] [z Hz]. rewrite H in Hz. discriminate. Qed.

(* the state-dependent part: while RUNNING the end-completion stamp is not set *)
Definition invS (x : rvc) (a : st) : Prop := inv x /\ (a = RUNNING -> eoeor_unset x).

(* new run drawn: the counter moved *)
Definition ctr_of (x : rvc) : N := snd x.

Lemma tr_post_inv e src d x y a :
  dst_of e src = Some d -> tr_post e src d x y a -> invS x src ->
  invS y a /\ (keep x y \/ (e = START_ACTIVITY /\ ctr_of y = N.succ (ctr_of x))).
Proof.
  intros Hd Hp [Hi Hq].
  assert (Hsoe : forall z, inv z -> inv (soe z) /\ end_begun_x (soe z) /\ keep z (soe z) /\ (eoeor_unset z -> eoeor_unset (soe z)))
    by (intros z Hz; apply soe_inv; exact Hz).
  destruct e; destruct src; try discriminate; inversion Hd; subst d; clear Hd.
  (* quiet events: nothing is written *)
  all: try (inversion Hp; subst; cbn [bbp blp bap drp]; try discriminate;
            (split; [split; [exact Hi|intro; try discriminate; auto]|left; apply keep_refl])).
  (* START_ACTIVITY from CONFIGURED *)
  1:{ destruct (bbp_start_inv x Hi) as [I1 F1].
    assert (C1 : ctr_of (bbp START_ACTIVITY x) = N.succ (ctr_of x)) by (destruct x as [[r c] k]; reflexivity).
    inversion Hp; subst; cbn [blp].
    + split; [split; [exact Hi|discriminate]|left; apply keep_refl].
    + split; [split; [exact I1|discriminate]|right; auto].
    + split; [split; [exact I1|discriminate]|right; auto].
    + split; [split; [apply zrp_inv; exact I1|discriminate]|right; split; [reflexivity|]].
      destruct x as [[r c] k]; reflexivity.
    + destruct (bap_start_inv _ I1 F1) as (I2 & _ & F2).
      split; [split; [apply drp_inv; exact I2|intros _; apply drp_unset, fresh_unset; exact F2]|].
      right. split; [reflexivity|]. destruct x as [[r c] k]; reflexivity. }
  (* STOP_ACTIVITY from RUNNING *)
  1:{ specialize (Hq eq_refl).
    destruct (Hsoe x Hi) as (I1 & G1 & K1 & U1). specialize (U1 Hq).
    destruct (Hsoe _ I1) as (I2 & G2 & K2 & U2). specialize (U2 U1).
    cbn [bbp blp] in *.
    inversion Hp; subst; cbn [bbp blp].
    + split; [split; [exact Hi|intros _; exact Hq]|left; apply keep_refl].
    + split; [split; [exact I1|intros _; exact U1]|left; exact K1].
    + split; [split; [exact I2|intros _; exact U2]|left; eapply keep_trans; eassumption].
    + discriminate.
    + split; [split; [apply drp_inv, bap_stop_inv; assumption|discriminate]|left].
      eapply keep_trans; [eapply keep_trans; eassumption|].
      eapply keep_trans; [|apply drp_keep].
      clear - U2. destruct (soe (soe x)) as [[r c] k]. destruct r as [rn var a b s1 s2].
      unfold eoeor_unset, keep, keep_sv, is_set in *. cbn in *.
      repeat split; try (destruct a; reflexivity); try (destruct b; reflexivity); try (destruct s1; reflexivity).
      destruct s2; auto. exfalso. apply U2. eexists; reflexivity. }
  (* GO_ERROR from STANDBY, DEPLOYED, CONFIGURED, RUNNING *)
  all: destruct (Hsoe x Hi) as (I1 & G1 & K1 & U1);
       destruct (Hsoe _ I1) as (I2 & G2 & K2 & U2);
       cbn [bbp blp bap drp] in *;
       inversion Hp; subst; cbn [bbp blp bap drp]; try discriminate;
       first
        [ split; [split; [exact Hi|exact Hq]|left; apply keep_refl]
        | split; [split; [exact I1|intro Hr; first [discriminate|auto]]|left; exact K1]
        | split; [split; [exact I2|intro Hr; first [discriminate|auto]]|left; eapply keep_trans; eassumption]
        | destruct (eoe_inv _ I1 G1) as (I3 & K3 & _);
          split; [split; [exact I3|discriminate]|left; eapply keep_trans; eassumption]
        | destruct (eoe_inv _ I2 G2) as (I3 & K3 & _);
          split; [split; [exact I3|discriminate]|left; eapply keep_trans; [eapply keep_trans; eassumption|exact K3]] ].
Qed.

Definition invE (s : est) : Prop := invS (proj s) (e_st s).

Lemma invE_est0 init : invE (est0 init).
Proof.
  unfold invE, invS, proj, est0, inv, ordered, eoeor_unset, is_set, rv0. cbn.
  repeat split; auto. - intros [z Hz]; discriminate. - intros _ [z Hz]; discriminate.
Qed.

Definition new_run (o : op) (s s' : est) : Prop :=
  o_kind o = OEvent START_ACTIVITY /\ e_ctr s' = N.succ (e_ctr s).

Lemma run_op_inv hooks i o s s' t r :
  invE s -> run_op hooks i o s = (s', t, r) ->
  invE s' /\ (keep (proj s) (proj s') \/ new_run o s s').
Proof.
  unfold invE, run_op, new_run. intros Hi.
  destruct (o_kind o) as [e| | | |] eqn:Ek.
  - destruct (dst_of e (e_st s)) as [d|] eqn:Hd.
    + intro H. pose proof (transition_post _ _ _ _ _ _ _ _ _ H Hd) as Hp.
      destruct (tr_post_inv _ _ _ _ _ _ Hd Hp Hi) as [A [B|[B1 B2]]]; split; auto.
      right. subst e. split; [reflexivity|]. unfold ctr_of, proj in B2. exact B2.
    + unfold transition. rewrite Hd. intro H; inversion H; subst. split; [exact Hi|left; apply keep_refl].
  - intro H; inversion H; subst. split; [exact Hi|left; apply keep_refl].
  - destruct (transition hooks (oracle_of i o) GO_ERROR (o_body o) s) as [[s1 t1] r1] eqn:E.
    assert (P : invS (proj s1) (e_st s1) /\ keep (proj s) (proj s1)).
    { destruct (dst_of GO_ERROR (e_st s)) as [d|] eqn:Hd.
      - pose proof (transition_post _ _ _ _ _ _ _ _ _ E Hd) as Hp.
        destruct (tr_post_inv _ _ _ _ _ _ Hd Hp Hi) as [A [B|[B1 _]]]; [auto|discriminate].
      - unfold transition in E. rewrite Hd in E. inversion E; subst. split; [exact Hi|apply keep_refl]. }
    destruct P as [[P1 P2] P3].
    destruct (force_error s1) as [s2 tf] eqn:Ef.
    assert (F : invS (proj s2) (e_st s2) /\ keep (proj s1) (proj s2)).
    { unfold force_error in Ef. destruct (e_st s1) eqn:Es;
        try (inversion Ef; subst; cbn [set_st e_st]; change (proj (set_st ERROR s1)) with (proj s1);
             split; [split; [exact P1|intro; discriminate]|apply keep_refl]).
      - pose proof (soe_proj s1) as A. destruct (set_soeor_if_empty s1) as [sa d1]. cbn [fst] in A.
        pose proof (eoe_proj sa) as B. destruct (set_eoeor_if_empty sa) as [sb d2]. cbn [fst] in B.
        inversion Ef; subst. cbn [set_st e_st]. change (proj (set_st ERROR sb)) with (proj sb). rewrite B, A.
        destruct (soe_inv _ P1) as (I1 & G1 & K1 & _). destruct (eoe_inv _ I1 G1) as (I2 & K2 & _).
        split; [split; [exact I2|intro; discriminate]|eapply keep_trans; eassumption].
      - inversion Ef; subst. split; [split; [exact P1|rewrite Es; intro; discriminate]|apply keep_refl]. }
    destruct F as [F1 F2].
    destruct r1; intro H; inversion H; subst; try (split; [split; assumption|left; exact P3]);
      (split; [exact F1|left; eapply keep_trans; eassumption]).
  - unfold leave_all. destruct (run_pass hooks (oracle_of i o) (MLeave (e_st s)) wall s) as [[s1 t1] p] eqn:E.
    destruct (run_pass_proj _ _ _ _ _ _ _ _ E) as [R1 S1].
    destruct p; intro H; inversion H; subst; rewrite R1, S1; (split; [exact Hi|left; apply keep_refl]).
  - unfold leave_all. destruct (run_pass hooks (oracle_of i o) (MLeave (e_st s)) wall s) as [[s1 t1] p] eqn:E.
    destruct (run_pass_proj _ _ _ _ _ _ _ _ E) as [R1 S1].
    destruct (is_crash p); [intro H; inversion H; subst; rewrite R1, S1; split; [exact Hi|left; apply keep_refl]|].
    destruct (teardown_stamps s1) as [s2 ts] eqn:Et. intro H; inversion H; subst.
    cbn [set_st e_st]. change (proj (set_st DONE s2)) with (proj s2).
    destruct Hi as [Hi Hq]. rewrite <- R1 in Hi |- *.
    assert (P : inv (proj s2) /\ keep (proj s1) (proj s2)).
    { unfold teardown_stamps in Et. destruct (e_st s1).
      1,2,3,5,6: inversion Et; subst; split; [exact Hi|apply keep_refl].
      pose proof (soe_proj s1) as A. destruct (set_soeor_if_empty s1) as [sa d1]. cbn [fst] in A.
      pose proof (eoe_proj sa) as B. destruct (set_eoeor_if_empty sa) as [sb d2]. cbn [fst] in B.
      inversion Et; subst. rewrite B, A.
      destruct (soe_inv _ Hi) as (I1 & G1 & K1 & _). destruct (eoe_inv _ I1 G1) as (I2 & K2 & _).
      split; [exact I2|eapply keep_trans; eassumption]. }
    destruct P as [P1 P2]. split; [split; [exact P1|discriminate]|left; exact P2].
Qed.

Lemma run_ops_inv hooks : forall ops i s s' l,
  invE s -> run_ops hooks i ops s = (s', l) -> invE s' /\ Forall (fun x => invE (snd x)) l.
Proof.
  induction ops as [|o ops IH]; intros i s s' l Hi; cbn.
  - intro H; inversion H; subst. split; [exact Hi|constructor].
  - destruct (run_op hooks i o s) as [[s1 t] res] eqn:E.
    destruct (run_op_inv _ _ _ _ _ _ _ Hi E) as [H1 _].
    destruct res; try (intro H; inversion H; subst; split; [exact H1|apply Forall_cons; [exact H1|apply Forall_nil]]);
      (destruct (run_ops hooks (N.succ i) ops s1) as [s2 l2] eqn:E2;
       destruct (IH _ _ _ _ H1 E2) as [A B]; intro H; inversion H; subst;
       split; [exact A|constructor; [exact H1|exact B]]).
Qed.

Lemma invE_ordered s : invE s -> ordered (e_rv s) /\ lt_c (rv_eoeor (e_rv s)) (e_clock s).
Proof. unfold invE, invS, proj, inv. intros [(A & B & C & D & E & F) _]. auto. Qed.

(* C10: over every history the four stamps, where set, are ordered start <= start-completion <=
   end <= end-completion, in every state the history goes through *)
Lemma stamps_ordered hooks ops init s l :
  run_ops hooks 0 ops (est0 init) = (s, l) ->
  ordered (e_rv s) /\ Forall (fun x => ordered (e_rv (snd x))) l.
Proof.
  intro H. destruct (run_ops_inv hooks _ _ _ _ _ (invE_est0 init) H) as [A B].
  split; [apply invE_ordered; exact A|].
  eapply Forall_impl; [|exact B]. intros x Hx. apply invE_ordered; exact Hx.
Qed.

(* C10: each stamp is written at most once per run: in every state a history can reach, every
   operation leaves every stamp that is set exactly as it is, unless it is a START_ACTIVITY that
   draws a new run number (which begins a new run and clears the three later stamps) *)
Lemma stamps_once hooks ops init s l i o s' t r :
  run_ops hooks 0 ops (est0 init) = (s, l) -> run_op hooks i o s = (s', t, r) ->
  keep (proj s) (proj s') \/ new_run o s s'.
Proof.
  intros H Hop. destruct (run_ops_inv hooks _ _ _ _ _ (invE_est0 init) H) as [A _].
  exact (proj2 (run_op_inv _ _ _ _ _ _ _ A Hop)).
Qed.

(* ------------------------------------------------------------------ however the run ends *)

Definition not_absent (r : rvars) : Prop := rv_soeor r <> SAbsent /\ rv_eoeor r <> SAbsent.
Lemma not_absent_stable : stable not_absent.
Proof. intros r c [A B]. unfold not_absent. cbn. repeat split; auto; discriminate. Qed.

Lemma force_error_end_stamps s s2 tf : force_error s = (s2, tf) -> e_st s = RUNNING -> not_absent (e_rv s) ->
  is_set (rv_soeor (e_rv s2)) /\ is_set (rv_eoeor (e_rv s2)).
Proof.
  unfold force_error. intros H Hs [Ha Hb]. rewrite Hs in H.
  destruct (set_soeor_set s Ha) as [A1 B1]. destruct (set_soeor_if_empty s) as [sa d1]. cbn [fst] in *.
  rewrite <- B1 in Hb. destruct (set_eoeor_set sa Hb) as [A2 B2]. destruct (set_eoeor_if_empty sa) as [sb d2]. cbn [fst] in *.
  inversion H; subst. cbn. split; [rewrite B2; exact A1|exact A2].
Qed.

(* the former witness of finding C10-a, kept as a regression example *)
Definition wit_forced_hooks : list hook :=
  [mkHook 1 HCall (MBefore GO_ERROR, (-1)%Z) (MBefore GO_ERROR, (-1)%Z) true].
Definition wit_forced_ops : list op :=
  [mkOp (OEvent START_ACTIVITY) BOk [] [] []; mkOp OForceError BOk [1] [] []].
Lemma wit_forced_closed :
  let s := fst (run_ops wit_forced_hooks 0 wit_forced_ops (est0 CONFIGURED)) in
  e_st s = ERROR /\ rv_soeor (e_rv s) = SSet 3 /\ rv_eoeor (e_rv s) = SSet 4.
Proof. vm_compute. auto. Qed.

(* C10, "the end ones being set however the run ends": any operation that takes the environment
   out of RUNNING - STOP_ACTIVITY, GO_ERROR, the forced ERROR after a failed GO_ERROR, teardown -
   leaves both end stamps set *)
Lemma end_stamps_however hooks i o s s' t r :
  run_op hooks i o s = (s', t, r) -> r <> RCrash -> e_st s = RUNNING -> e_st s' <> RUNNING ->
  rv_soeor (e_rv s) <> SAbsent -> rv_eoeor (e_rv s) <> SAbsent ->
  is_set (rv_soeor (e_rv s')) /\ is_set (rv_eoeor (e_rv s')).
Proof.
  intros H Hr Hs Hs' Ha Hb. pose proof H as H0. unfold run_op in H.
  destruct (o_kind o) as [e| | | |] eqn:Ek.
  - destruct (dst_of e (e_st s)) as [d|] eqn:Hd.
    + assert (He : ending e).
      { rewrite Hs in Hd. destruct e; try discriminate; [left|right]; reflexivity. }
      eapply end_stamps_set; eauto. rewrite Hs. exact Hs'.
    + unfold transition in H. rewrite Hd in H. inversion H; subst. contradiction.
  - inversion H; subst. contradiction.
  - destruct (transition hooks (oracle_of i o) GO_ERROR (o_body o) s) as [[s1 t1] r1] eqn:E.
    assert (Hd : dst_of GO_ERROR (e_st s) = Some ERROR) by (rewrite Hs; reflexivity).
    assert (Hr1 : r1 <> RCrash) by (eapply transition_nocrash; exact E).
    destruct (st_eqb (e_st s1) RUNNING) eqn:Es1.
    + (* GO_ERROR did not change the state: forced *)
      apply st_eqb_spec in Es1.
      destruct (transition_sees_other not_absent _ _ _ _ _ _ _ _ E not_absent_stable ltac:(discriminate) (conj Ha Hb)) as [_ Pn].
      specialize (Pn ltac:(discriminate)).
      destruct (force_error s1) as [s2 tf] eqn:Ef.
      pose proof (force_error_end_stamps _ _ _ Ef Es1 Pn) as Q.
      destruct r1; inversion H; subst; try exact Q; try contradiction.
    + (* GO_ERROR completed *)
      assert (Hne : e_st s1 <> e_st s).
      { rewrite Hs. intro Hx. rewrite Hx in Es1. discriminate. }
      pose proof (end_stamps_set _ _ _ _ _ _ _ _ _ (or_intror eq_refl) E Hd Hr1 Hne Ha Hb) as Q.
      assert (Hst : e_st s1 = ERROR).
      { pose proof (transition_post _ _ _ _ _ _ _ _ _ E Hd) as Hp. inversion Hp; try (exfalso; apply Hne; congruence). congruence. }
      destruct (force_error s1) as [s2 tf] eqn:Ef.
      assert (Hf : e_rv s2 = e_rv s1) by (unfold force_error in Ef; rewrite Hst in Ef; inversion Ef; reflexivity).
      destruct r1; inversion H; subst; try exact Q; try contradiction; rewrite Hf; exact Q.
  - unfold leave_all in H. destruct (run_pass hooks (oracle_of i o) (MLeave (e_st s)) wall s) as [[s1 t1] p] eqn:E.
    destruct (run_pass_proj _ _ _ _ _ _ _ _ E) as [_ S1].
    destruct p; inversion H; subst; try contradiction; rewrite S1 in Hs'; contradiction.
  - destruct (teardown_end_stamps _ _ _ _ _ _ _ Ek H0 Hr Hs Ha Hb) as (A & B & _). auto.
Qed.


(* ------------------------------------------------------------------ what the tasks are told *)
(* C10: the argument map pushed to the tasks by a START_ACTIVITY that reaches RUNNING carries the
   new run number, the new start stamp and the CLEARED end stamp (present, empty) - whatever the
   variables held before; no completion stamp is pushed.  The key list is read from the source
   (Gen_StartArgs): dropping run_end_time_ms from it breaks this lemma. *)
Lemma start_push_fresh hooks orc b s s' t r d :
  transition hooks orc START_ACTIVITY b s = (s', t, r) -> dst_of START_ACTIVITY (e_st s) = Some d ->
  e_st s' <> e_st s ->
  push_of START_ACTIVITY (e_rv s') =
  Some (mkPush (Some (Some (N.succ (e_ctr s)))) (Some (SSet (e_clock s))) None (Some SEmpty) None).
Proof.
  intros H Hd Hs. pose proof (transition_post _ _ _ _ _ _ _ _ _ H Hd) as Hp.
  assert (Hsrc : e_st s = CONFIGURED) by (destruct (e_st s); try discriminate; reflexivity).
  inversion Hp as [E1 E2|E1 E2|E1 E2|Hz E1 E2|E1 E2]; try (exfalso; apply Hs; congruence).
  rewrite Hsrc in E1. unfold proj in E1. cbn in E1.
  destruct (e_rv s') as [rn var a b0 c0 d0]. inversion E1; subst. reflexivity.
Qed.

(* ... and a STOP_ACTIVITY that reaches CONFIGURED has pushed the end stamp of this run *)
Lemma stop_push_end hooks orc b s s' t r d :
  transition hooks orc STOP_ACTIVITY b s = (s', t, r) -> dst_of STOP_ACTIVITY (e_st s) = Some d ->
  e_st s' <> e_st s -> rv_soeor (e_rv s) <> SAbsent ->
  exists a, push_of STOP_ACTIVITY (e_rv s') = Some (mkPush None None None (Some (SSet a)) None).
Proof.
  intros H Hd Hs Ha. pose proof (transition_post _ _ _ _ _ _ _ _ _ H Hd) as Hp.
  assert (Hsrc : e_st s = RUNNING) by (destruct (e_st s); try discriminate; reflexivity).
  inversion Hp as [E1 E2|E1 E2|E1 E2|Hz E1 E2|E1 E2]; try (exfalso; apply Hs; congruence).
  rewrite Hsrc in E1. unfold proj in E1. destruct (e_rv s) as [rn var a b0 c0 d0] eqn:Er. cbn in E1, Ha.
  destruct c0 as [| |q]; [contradiction| |]; cbn in E1;
    destruct (e_rv s') as [rn' var' a' b' c' d']; inversion E1; subst; eexists; reflexivity.
Qed.
