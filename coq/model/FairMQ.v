(* C16 — model of executor/executorcmd/transitioner (FairMQ.Commit, doConfigure, doReset, Direct)
   and of the reply acceptance rule of executor/executorcmd/client.go:doTransition, run against a
   simulated OCC device.  Definitions only (no proofs): the model must stay runnable when a proof
   breaks.

   Code side.  [commit_fmq] / [commit_direct] are written as resumptions ([prog]): a request
   to the device together with the continuation that receives what DoTransition returned
   (new state, error?).  They are transcriptions of the Go functions as REPAIRED (fix C16-b: after a
   roll-back in doConfigure the state the roll-back reached is reported unless it is the state the
   failed step was heading for; EXIT from CONFIGURED asks doReset for STANDBY and sends END from the
   state the reset phase reached; fix C16-c: RECOVER / GO_ERROR return an error).  The FairMQ state and
   transition names, the O2<->FairMQ state map and the trigger enum come from gen/Gen_FairMQ.v,
   which the translator rewrites from the source on every run.

   Device side (the oracle).  The device is the FairMQ state graph (or the OCC "direct" graph); for
   every request that is actually issued an [outcome] says what happens: the device performs it,
   refuses it in place, goes to ERROR, the request is lost, or it is performed and the reply is
   lost.  A request for an event the graph does not allow in the current state is refused in
   place whatever the outcome says.  A [strict] device first compares the request's source state
   with its own state and answers with an RPC error on a mismatch — this is what
   occ/plugin/OccFMQCommon.cxx and occ/occlib/OccServer.cxx do; a lenient device ignores the
   source state.  The device uses its own literals (D_...), not the constants of the code. *)
From Coq Require Import Strings.String Strings.Ascii.
From Verif Require Import Common Gen_FairMQ.
Open Scope N_scope.

Definition lit (x : String.string) : str :=
  map (fun a => Ascii.N_of_ascii a) (String.list_ascii_of_string x).
Arguments lit x%string_scope.

(* ---------- names ---------- *)
(* O2 task states and events as the core sends them *)
Definition O2_STANDBY    : str := Eval vm_compute in lit "STANDBY".
Definition O2_CONFIGURED : str := Eval vm_compute in lit "CONFIGURED".
Definition O2_RUNNING    : str := Eval vm_compute in lit "RUNNING".
Definition O2_ERROR      : str := Eval vm_compute in lit "ERROR".
Definition O2_DONE       : str := Eval vm_compute in lit "DONE".
Definition E_START     : str := Eval vm_compute in lit "START".
Definition E_STOP      : str := Eval vm_compute in lit "STOP".
Definition E_CONFIGURE : str := Eval vm_compute in lit "CONFIGURE".
Definition E_RESET     : str := Eval vm_compute in lit "RESET".
Definition E_EXIT      : str := Eval vm_compute in lit "EXIT".
Definition E_RECOVER   : str := Eval vm_compute in lit "RECOVER".
Definition E_GO_ERROR  : str := Eval vm_compute in lit "GO_ERROR".
Definition E_BOGUS     : str := Eval vm_compute in lit "BOGUS".      (* an event that does not exist *)

(* what the device itself calls its states and transitions *)
Definition D_IDLE         : str := Eval vm_compute in lit "IDLE".
Definition D_INITIALIZING : str := Eval vm_compute in lit "INITIALIZING DEVICE".
Definition D_INITIALIZED  : str := Eval vm_compute in lit "INITIALIZED".
Definition D_BOUND        : str := Eval vm_compute in lit "BOUND".
Definition D_DEVICE_READY : str := Eval vm_compute in lit "DEVICE READY".
Definition D_READY        : str := Eval vm_compute in lit "READY".
Definition D_RUNNING      : str := Eval vm_compute in lit "RUNNING".
Definition D_ERROR        : str := Eval vm_compute in lit "ERROR".
Definition D_EXITING      : str := Eval vm_compute in lit "EXITING".
Definition T_INIT_DEVICE   : str := Eval vm_compute in lit "INIT DEVICE".
Definition T_COMPLETE_INIT : str := Eval vm_compute in lit "COMPLETE INIT".
Definition T_BIND          : str := Eval vm_compute in lit "BIND".
Definition T_CONNECT       : str := Eval vm_compute in lit "CONNECT".
Definition T_INIT_TASK     : str := Eval vm_compute in lit "INIT TASK".
Definition T_RUN           : str := Eval vm_compute in lit "RUN".
Definition T_STOP          : str := Eval vm_compute in lit "STOP".
Definition T_RESET_TASK    : str := Eval vm_compute in lit "RESET TASK".
Definition T_RESET_DEVICE  : str := Eval vm_compute in lit "RESET DEVICE".
Definition T_END           : str := Eval vm_compute in lit "END".
Definition T_ERROR_FOUND   : str := Eval vm_compute in lit "ERROR FOUND".
Definition D_PAUSED        : str := Eval vm_compute in lit "PAUSED".
Definition T_PAUSE         : str := Eval vm_compute in lit "PAUSE".
Definition T_RESUME        : str := Eval vm_compute in lit "RESUME".

(* ---------- requests, replies, the acceptance rule of client.go:doTransition ---------- *)
Record einfo := EI { ei_evt : str; ei_src : str; ei_dst : str; ei_nargs : N }.

Inductive reply :=
| RpcErr                                                   (* r.Transition returned an error *)
| Reply (trigger : N) (state : str) (evt : str) (ok : bool).

Definition is_rpcerr (r : reply) : bool := match r with RpcErr => true | _ => false end.

(* (newState, err <> nil) *)
Definition do_transition (ei : einfo) (r : reply) : str * bool :=
  match r with
  | RpcErr => ([], true)
  | Reply trg st ev ok =>
    if ok && N.eqb trg trigger_EXECUTOR && str_eqb ev (ei_evt ei) && str_eqb st (ei_dst ei)
    then (st, false) else (st, true)
  end.

(* ---------- the transitioners ---------- *)
Inductive prog :=
| Ret (final : str) (err : bool)
| Req (ei : einfo) (k : str -> bool -> prog).

Fixpoint bind (p : prog) (f : str -> bool -> prog) : prog :=
  match p with
  | Ret s e => f s e
  | Req ei k => Req ei (fun s e => bind (k s e) f)
  end.

Fixpoint rassoc (v : str) (l : list (str * str)) : option str :=
  match l with
  | [] => None
  | (k, v') :: r => if str_eqb v v' then Some k else rassoc v r
  end.

Definition fmq_state_for_state (st : str) : str :=
  match assoc st state_map with Some v => v | None => [] end.
Definition state_for_fmq_state (f : str) : str :=
  match rassoc f state_map with Some k => k | None => [] end.

Definition ne (a b : str) : bool := negb (str_eqb a b).

Definition do_configure (src dst : str) (nargs : N) : prog :=
  let fsrc := fmq_state_for_state src in
  let fdst := fmq_state_for_state dst in
  let sf := state_for_fmq_state in
  let init_task : prog :=
    Req (EI evt_INIT_TASK fmq_DEVICE_READY fdst 0) (fun st e =>
      if str_eqb st fmq_DEVICE_READY
      then Req (EI evt_RESET_DEVICE fmq_DEVICE_READY fsrc 0) (fun st' _ => Ret (sf st') e)
      else Ret (sf st) e) in
  let connect : prog :=
    Req (EI evt_CONNECT fmq_BOUND fmq_DEVICE_READY 0) (fun st e =>
      if str_eqb st fmq_BOUND
      then Req (EI evt_RESET_DEVICE fmq_BOUND fsrc 0) (fun st' _ =>
             if ne st' fmq_DEVICE_READY then Ret (sf st') e else init_task)   (* rolled back: stop *)
      else if ne st fmq_DEVICE_READY then Ret (sf st) e
      else init_task) in
  Req (EI evt_INIT_DEVICE fsrc fmq_INITIALIZING_DEVICE nargs) (fun st e =>
    if ne st fmq_INITIALIZING_DEVICE then Ret (sf st) e else
    Req (EI evt_COMPLETE_INIT fmq_INITIALIZING_DEVICE fmq_INITIALIZED 0) (fun st e =>
      if ne st fmq_INITIALIZED then Ret (sf st) e else
      Req (EI evt_BIND fmq_INITIALIZED fmq_BOUND 0) (fun st e =>
        if str_eqb st fmq_INITIALIZED
        then Req (EI evt_RESET_DEVICE fmq_INITIALIZED fsrc 0) (fun st' _ =>
               if ne st' fmq_BOUND then Ret (sf st') e else connect)           (* rolled back: stop *)
        else if ne st fmq_BOUND then Ret (sf st) e
        else connect))).

Definition do_reset (src dst : str) (nargs : N) : prog :=
  let fsrc := fmq_state_for_state src in
  let fdst := fmq_state_for_state dst in
  let sf := state_for_fmq_state in
  Req (EI evt_RESET_TASK fsrc fmq_DEVICE_READY 0) (fun st e =>
    if ne st fmq_DEVICE_READY then Ret (sf st) e else
    Req (EI evt_RESET_DEVICE fmq_DEVICE_READY fdst nargs) (fun st e =>
      if str_eqb st fmq_DEVICE_READY
      then Req (EI evt_INIT_TASK fmq_DEVICE_READY fsrc 0) (fun st' _ => Ret (sf st') e)
      else Ret (sf st) e)).

Definition commit_fmq (evt src dst : str) (nargs : N) : prog :=
  let fdst := fmq_state_for_state dst in
  let sf := state_for_fmq_state in
  let single_from (s : str) (e : str) :=
    Req (EI e (fmq_state_for_state s) fdst nargs) (fun st er => Ret (sf st) er) in
  let single := single_from src in
  if str_eqb evt E_START then single evt_RUN
  else if str_eqb evt E_STOP then single evt_STOP
  else if str_eqb evt E_RECOVER || str_eqb evt E_GO_ERROR then Ret src true   (* "not implemented" *)
  else if str_eqb evt E_CONFIGURE then do_configure src dst nargs
  else if str_eqb evt E_RESET then do_reset src dst nargs
  else if str_eqb evt E_EXIT then
    if str_eqb src O2_CONFIGURED
    then bind (do_reset src O2_STANDBY nargs)
              (fun state er => if ne state O2_STANDBY then Ret state er
                               else single_from state evt_END)           (* src = state *)
    else single evt_END
  else Ret [] false.                                                          (* "transition impossible" *)

Definition commit_direct (evt src dst : str) (nargs : N) : prog :=
  Req (EI evt src dst nargs) (fun st er => Ret st er).

(* ---------- the device ---------- *)
Inductive outcome := Done | Refused | ErrState | TLost | TAfter.
Definition all_outcomes : list outcome := [Done; Refused; ErrState; TLost; TAfter].

Definition is_transport (o : outcome) : bool :=
  match o with TLost | TAfter => true | _ => false end.

Record devspec := DevSpec { d_graph : list (str * str * str); d_expected : list (str * str) }.

(* FairMQ StateMachine transition table; the intermediate auto-states (BINDING, ...) are collapsed
   as the OCC plugin does.  ERROR FOUND is the device's own move (outcome ErrState). *)
Definition fmq_graph : list (str * str * str) :=
  [ (D_IDLE, T_INIT_DEVICE, D_INITIALIZING); (D_IDLE, T_END, D_EXITING);
    (D_INITIALIZING, T_COMPLETE_INIT, D_INITIALIZED);
    (D_INITIALIZED, T_BIND, D_BOUND); (D_INITIALIZED, T_RESET_DEVICE, D_IDLE);
    (D_BOUND, T_CONNECT, D_DEVICE_READY); (D_BOUND, T_RESET_DEVICE, D_IDLE);
    (D_DEVICE_READY, T_INIT_TASK, D_READY); (D_DEVICE_READY, T_RESET_DEVICE, D_IDLE);
    (D_READY, T_RUN, D_RUNNING); (D_READY, T_RESET_TASK, D_DEVICE_READY);
    (D_RUNNING, T_STOP, D_READY) ].

(* occ/plugin/OccFMQCommon.h EXPECTED_FINAL_STATE *)
Definition fmq_expected : list (str * str) :=
  [ (T_INIT_DEVICE, D_INITIALIZING); (T_COMPLETE_INIT, D_INITIALIZED); (T_BIND, D_BOUND);
    (T_CONNECT, D_DEVICE_READY); (T_INIT_TASK, D_READY); (T_RUN, D_RUNNING); (T_STOP, D_READY);
    (T_RESET_TASK, D_DEVICE_READY); (T_RESET_DEVICE, D_IDLE); (T_END, D_EXITING);
    (T_ERROR_FOUND, D_ERROR) ].

(* occ/occlib/OccServer.cxx processStateTransition, OccServer.h EXPECTED_FINAL_STATE *)
Definition direct_graph : list (str * str * str) :=
  [ (O2_STANDBY, E_CONFIGURE, O2_CONFIGURED); (O2_STANDBY, E_EXIT, O2_DONE);
    (O2_CONFIGURED, E_START, O2_RUNNING); (O2_CONFIGURED, E_RESET, O2_STANDBY);
    (O2_CONFIGURED, E_EXIT, O2_DONE);
    (O2_RUNNING, E_STOP, O2_CONFIGURED); (O2_RUNNING, T_PAUSE, D_PAUSED);
    (D_PAUSED, T_RESUME, O2_RUNNING); (D_PAUSED, E_STOP, O2_CONFIGURED);
    (O2_ERROR, E_RECOVER, O2_STANDBY); (O2_ERROR, E_EXIT, O2_DONE) ].
Definition direct_expected : list (str * str) :=
  [ (E_CONFIGURE, O2_CONFIGURED); (E_RESET, O2_STANDBY); (E_START, O2_RUNNING);
    (E_STOP, O2_CONFIGURED); (E_EXIT, O2_DONE); (E_GO_ERROR, O2_ERROR); (E_RECOVER, O2_STANDBY) ].

Definition fmq_spec := DevSpec fmq_graph fmq_expected.
Definition direct_spec := DevSpec direct_graph direct_expected.

Fixpoint dev_target (g : list (str * str * str)) (cur evt : str) : option str :=
  match g with
  | [] => None
  | (f, e, t) :: r => if str_eqb f cur && str_eqb e evt then Some t else dev_target r cur evt
  end.

(* the reply the OCC builds for the state reached *)
Definition mk_reply (sp : devspec) (st evt : str) : reply :=
  let ok := match assoc evt (d_expected sp) with Some x => str_eqb st x | None => false end in
  Reply (if str_eqb st D_ERROR then trigger_DEVICE_ERROR
         else if ok then trigger_EXECUTOR else trigger_DEVICE_INTENTIONAL) st evt ok.

(* (device state afterwards, what the client gets) *)
Definition dev_step (sp : devspec) (strict : bool) (cur : str) (o : outcome) (ei : einfo)
  : str * reply :=
  match o with
  | TLost => (cur, RpcErr)
  | _ =>
    if strict && ne (ei_src ei) cur then (cur, RpcErr)        (* source state check *)
    else match dev_target (d_graph sp) cur (ei_evt ei) with
         | None => (cur, mk_reply sp cur (ei_evt ei))         (* not allowed here: in place *)
         | Some tgt =>
           match o with
           | Done => (tgt, mk_reply sp tgt (ei_evt ei))
           | TAfter => (tgt, RpcErr)
           | Refused => (cur, mk_reply sp cur (ei_evt ei))
           | ErrState => (D_ERROR, mk_reply sp D_ERROR (ei_evt ei))
           | TLost => (cur, RpcErr)
           end
         end
  end.

(* ---------- running a transitioner against the device ---------- *)
Record step := St { s_ei : einfo; s_before : str; s_outcome : outcome; s_after : str; s_rpcerr : bool }.
Record obs := Obs { o_final : str; o_err : bool; o_dev : str; o_log : list step }.

(* one outcome is consumed per request issued; an exhausted script means Done *)
Fixpoint run (sp : devspec) (strict : bool) (p : prog) (dev : str) (sc : list outcome)
         (log : list step) : obs :=
  match p with
  | Ret f e => Obs f e dev (rev log)
  | Req ei k =>
    let o := hd Done sc in
    let dr := dev_step sp strict dev o ei in
    let se := do_transition ei (snd dr) in
    run sp strict (k (fst se) (snd se)) (fst dr) (tl sc)
        (St ei dev o (fst dr) (is_rpcerr (snd dr)) :: log)
  end.

(* every complete execution: one branch per outcome at every request issued *)
Fixpoint leaves (sp : devspec) (strict : bool) (p : prog) (dev : str) (log : list step)
  : list obs :=
  match p with
  | Ret f e => [Obs f e dev (rev log)]
  | Req ei k =>
    flat_map (fun o =>
      let dr := dev_step sp strict dev o ei in
      let se := do_transition ei (snd dr) in
      leaves sp strict (k (fst se) (snd se)) (fst dr)
             (St ei dev o (fst dr) (is_rpcerr (snd dr)) :: log)) all_outcomes
  end.

(* the same executions as a prefix tree, in the shape `h16 -gen` writes them *)
Inductive otree :=
| Leaf (final : str) (err : bool) (dev : str)
| Node (ei : einfo) (before : str) (c : list (str * bool * otree)).

Fixpoint tree_of (sp : devspec) (strict : bool) (p : prog) (dev : str) : otree :=
  match p with
  | Ret f e => Leaf f e dev
  | Req ei k =>
    Node ei dev
      (map (fun o =>
         let dr := dev_step sp strict dev o ei in
         let se := do_transition ei (snd dr) in
         (fst dr, is_rpcerr (snd dr), tree_of sp strict (k (fst se) (snd se)) (fst dr)))
         all_outcomes)
  end.

(* following one script through such a tree (how a table written by the harness is read) *)
Definition oidx (o : outcome) : nat :=
  match o with Done => 0 | Refused => 1 | ErrState => 2 | TLost => 3 | TAfter => 4 end%nat.

Fixpoint walk (t : otree) (sc : list outcome) (log : list step) : obs :=
  match t with
  | Leaf f e d => Obs f e d (rev log)
  | Node ei before c =>
    let o := hd Done sc in
    (fix pick (l : list (str * bool * otree)) (n : nat) : obs :=
       match l with
       | [] => Obs [] true [] (rev log)
       | (af, re, t') :: l' =>
         match n with
         | O => walk t' (tl sc) (St ei before o af re :: log)
         | S n' => pick l' n'
         end
       end) c (oidx o)
  end.

(* ---------- the domain ---------- *)
Definition MODE_DIRECT : N := 0.
Definition MODE_FAIRMQ : N := 1.

Record root := Root { r_mode : N; r_strict : bool; r_evt : str; r_src : str; r_dst : str;
                      r_nargs : N; r_dev0 : str }.

Definition spec_of (mode : N) : devspec := if N.eqb mode MODE_FAIRMQ then fmq_spec else direct_spec.
Definition prog_of (r : root) : prog :=
  if N.eqb (r_mode r) MODE_FAIRMQ then commit_fmq (r_evt r) (r_src r) (r_dst r) (r_nargs r)
  else commit_direct (r_evt r) (r_src r) (r_dst r) (r_nargs r).
Definition run_root (r : root) (sc : list outcome) : obs :=
  run (spec_of (r_mode r)) (r_strict r) (prog_of r) (r_dev0 r) sc [].
Definition leaves_root (r : root) : list obs :=
  leaves (spec_of (r_mode r)) (r_strict r) (prog_of r) (r_dev0 r) [].
Definition tree_root (r : root) : otree :=
  tree_of (spec_of (r_mode r)) (r_strict r) (prog_of r) (r_dev0 r).

(* The documented correspondence of the property statement: STANDBY=IDLE, CONFIGURED=READY,
   RUNNING, ERROR, DONE=EXITING; every other FairMQ state has no image (the empty string). A
   directly controlled task speaks O2 states itself.  This is the specification side; the code's
   map is Gen_FairMQ.state_map. *)
Definition spec_image_table : list (str * str) :=
  [ (D_IDLE, O2_STANDBY); (D_READY, O2_CONFIGURED); (D_RUNNING, O2_RUNNING);
    (D_ERROR, O2_ERROR); (D_EXITING, O2_DONE) ].
Definition image (mode : N) (dev : str) : str :=
  if N.eqb mode MODE_FAIRMQ
  then match assoc dev spec_image_table with Some x => x | None => [] end
  else dev.
Definition dev_of (mode : N) (o2 : str) : str :=
  if N.eqb mode MODE_FAIRMQ
  then match rassoc o2 spec_image_table with Some d => d | None => [] end
  else o2.

Definition modes : list N := [MODE_FAIRMQ; MODE_DIRECT].
Definition o2_states : list str := [O2_STANDBY; O2_CONFIGURED; O2_RUNNING; O2_ERROR; O2_DONE].
(* (event, its destination in the task state machine) *)
Definition implemented_events : list (str * str) :=
  [ (E_START, O2_RUNNING); (E_STOP, O2_CONFIGURED); (E_CONFIGURE, O2_CONFIGURED);
    (E_RESET, O2_STANDBY); (E_EXIT, O2_DONE) ].
Definition task_events : list (str * str) :=
  implemented_events ++ [ (E_RECOVER, O2_STANDBY); (E_GO_ERROR, O2_ERROR) ].
Definition table_events : list (str * str) := task_events ++ [ (E_BOGUS, O2_STANDBY) ].

(* the device starts where the executor believes it is *)
Definition mk_root (mode : N) (strict : bool) (evt dst src : str) (nargs : N) : root :=
  Root mode strict evt src dst nargs (dev_of mode src).

Definition roots (evs : list (str * str)) (nargs : N) : list root :=
  flat_map (fun mode =>
    flat_map (fun ed =>
      flat_map (fun src =>
        map (fun strict => mk_root mode strict (fst ed) (snd ed) src nargs) [false; true])
        o2_states) evs) modes.

(* the enumeration order of `h16 -gen` *)
Definition table_domain : list root := roots table_events 1.

(* ---------- the property, evaluated on an observation ---------- *)
(* Everything below looks only at what was observed (requests seen by the device, the device's
   state before/after each of them, whether the RPC failed, the final report) and at the
   specification tables above; it does not call commit_fmq / do_transition. *)

Definition no_transport (ob : obs) : bool :=
  forallb (fun st => negb (is_transport (s_outcome st))) (o_log ob).
Definition some_rpcerr (ob : obs) : bool := existsb s_rpcerr (o_log ob).
Definition some_transport_err (ob : obs) : bool :=
  existsb (fun st => s_rpcerr st && is_transport (s_outcome st)) (o_log ob).

(* clause 1: the reported state is the image of the state the device is really in *)
Definition image_ok (r : root) (ob : obs) : bool :=
  str_eqb (o_final ob) (image (r_mode r) (o_dev ob)).

(* clause 3: success is reported only if the device reached the destination *)
Definition success_ok (r : root) (ob : obs) : bool :=
  o_err ob || (str_eqb (o_dev ob) (dev_of (r_mode r) (r_dst r)) && str_eqb (o_final ob) (r_dst r)).

(* clause 2: roll-back.  A request answered in place leaves the device stuck where it was.  If the
   first such request leaves it in an intermediate state (neither source nor destination) from
   which the device graph has an edge back to the source state, then the next request must be
   such an edge, and if the device performs it the device must end in the source state. *)
Definition in_place (st : step) : bool :=
  negb (s_rpcerr st) && str_eqb (s_before st) (s_after st).
Definition has_edge (g : list (str * str * str)) (from to : str) : bool :=
  existsb (fun e => str_eqb (fst (fst e)) from && str_eqb (snd e) to) g.
Definition is_edge (g : list (str * str * str)) (from evt to : str) : bool :=
  existsb (fun e => str_eqb (fst (fst e)) from && str_eqb (snd (fst e)) evt && str_eqb (snd e) to) g.
Definition performed (st : step) : bool :=
  negb (s_rpcerr st) && negb (str_eqb (s_before st) (s_after st)).
Definition reached (st : step) (tgt : str) : bool :=
  negb (s_rpcerr st) && str_eqb (s_after st) tgt.

Fixpoint rollback_from (g : list (str * str * str)) (srcd dstd final_dev : str) (log : list step)
  : bool :=
  match log with
  | [] => true
  | st :: rest =>
    if in_place st then
      let s := s_after st in
      if ne s srcd && ne s dstd && has_edge g s srcd then
        match rest with
        | [] => false                                          (* no roll-back attempted *)
        | rb :: _ =>
          is_edge g s (ei_evt (s_ei rb)) srcd
          && (negb (reached rb srcd) || str_eqb final_dev srcd) (* accepted => ends in source *)
        end
      else true
    else rollback_from g srcd dstd final_dev rest
  end.
Definition rollback_ok (r : root) (ob : obs) : bool :=
  rollback_from (d_graph (spec_of (r_mode r))) (dev_of (r_mode r) (r_src r))
                (dev_of (r_mode r) (r_dst r)) (o_dev ob) (o_log ob).

(* ---------- cases written by the harness ---------- *)
Inductive c16_case :=
| CRun (r : root) (script : list outcome) (observed : obs)
| CReply (ei : einfo) (rep : reply) (final : str) (err : bool).   (* Direct.Commit on a raw reply *)

Definition einfo_eqb (a b : einfo) : bool :=
  str_eqb (ei_evt a) (ei_evt b) && str_eqb (ei_src a) (ei_src b) &&
  str_eqb (ei_dst a) (ei_dst b) && N.eqb (ei_nargs a) (ei_nargs b).
Definition outcome_eqb (a b : outcome) : bool :=
  match a, b with
  | Done, Done | Refused, Refused | ErrState, ErrState | TLost, TLost | TAfter, TAfter => true
  | _, _ => false
  end.
Definition step_eqb (a b : step) : bool :=
  einfo_eqb (s_ei a) (s_ei b) && str_eqb (s_before a) (s_before b) &&
  outcome_eqb (s_outcome a) (s_outcome b) && str_eqb (s_after a) (s_after b) &&
  Bool.eqb (s_rpcerr a) (s_rpcerr b).
Definition obs_eqb (a b : obs) : bool :=
  str_eqb (o_final a) (o_final b) && Bool.eqb (o_err a) (o_err b) &&
  str_eqb (o_dev a) (o_dev b) && list_eqb step_eqb (o_log a) (o_log b).

Definition corr16 (c : c16_case) : bool :=
  match c with
  | CRun r sc ob => obs_eqb (run_root r sc) ob
  | CReply ei rep f e =>
    let se := do_transition ei rep in str_eqb (fst se) f && Bool.eqb (snd se) e
  end.

(* the property's own domain: a transition of the task state machine, requested in one of the
   five task states, the device being where the executor believes it is *)
Definition in_domainb (r : root) : bool :=
  memN (r_mode r) modes &&
  existsb (fun ed => str_eqb (r_evt r) (fst ed) && str_eqb (r_dst r) (snd ed)) task_events &&
  mem_str (r_src r) o2_states &&
  str_eqb (r_dev0 r) (dev_of (r_mode r) (r_src r)).

Definition unimplemented (r : root) : bool :=
  N.eqb (r_mode r) MODE_FAIRMQ && (str_eqb (r_evt r) E_RECOVER || str_eqb (r_evt r) E_GO_ERROR).

(* 0 holds
   4 success reported although the device is not in the destination
   5 no roll-back after a refusal in an intermediate state / accepted roll-back does not stick
   3 reported state is not the image of the device state (other than 1, 2)
   1 empty state reported after a transport error although the device state is known to differ
   2 empty state reported, no transport error: a request was rejected for its stale source state
   6 RECOVER / GO_ERROR on a FairMQ task: success reported, nothing requested from the device
   7 (raw reply) accepted although not ok / not executor-triggered / other event / other state
   8 (raw reply) the state passed on is not the state of the reply *)
Definition SPEC_TRIGGER_EXECUTOR : N := 0.                     (* occ.proto: EXECUTOR = 0 *)
Definition mon16 (c : c16_case) : N :=
  match c with
  | CReply _ RpcErr _ _ => 0
  | CReply ei (Reply trg st ev ok) f e =>
    let acceptable := ok && N.eqb trg SPEC_TRIGGER_EXECUTOR && str_eqb ev (ei_evt ei)
                      && str_eqb st (ei_dst ei) in
    if negb e && negb acceptable then 7
    else if negb (str_eqb f st) then 8
    else 0
  | CRun r _ ob =>
    if negb (in_domainb r) then 0
    else if negb (success_ok r ob) then (if unimplemented r then 6 else 4)
    else if negb (rollback_ok r ob) then 5
    else if image_ok r ob then 0
    else if str_eqb (o_final ob) [] && some_transport_err ob then 1
    else if str_eqb (o_final ob) [] && some_rpcerr ob then 2
    else 3
  end.

Fixpoint index_of (x : str) (l : list (str * str)) (i : N) : N :=
  match l with
  | [] => i
  | (k, _) :: r => if str_eqb x k then i else index_of x r (N.succ i)
  end.

(* which kind of path the case took:
   0 nothing requested, 1 every request performed, 2 transport error, 3 request rejected for its
   source state, 4 device went to ERROR, 5 roll-back performed, 6 roll-back attempted but not
   performed, 7 refused in place without roll-back *)
Definition path_class (r : root) (ob : obs) : N :=
  let log := o_log ob in
  let g := d_graph (spec_of (r_mode r)) in
  let srcd := dev_of (r_mode r) (r_src r) in
  match log with
  | [] => 0
  | _ =>
    if some_transport_err ob then 2
    else if some_rpcerr ob then 3
    else if existsb (fun st => str_eqb (s_after st) D_ERROR && ne (s_before st) D_ERROR) log then 4
    else if forallb performed log then 1
    else
      (fix go (l : list step) : N :=
         match l with
         | st :: ((rb :: _) as rest) =>
           if in_place st && is_edge g (s_after st) (ei_evt (s_ei rb)) srcd
           then (if reached rb srcd then 5 else 6) else go rest
         | _ => 7
         end) log
  end.

Definition tag16 (c : c16_case) : N :=
  match c with
  | CReply ei rep _ _ => 900 + (if snd (do_transition ei rep) then 0 else 1)
  | CRun r _ ob =>
    if negb (in_domainb r) then 800 + path_class r ob
    else (if N.eqb (r_mode r) MODE_FAIRMQ then 100 else 0)
         + 10 * index_of (r_evt r) task_events 0 + path_class r ob
  end.

Definition report16 := report corr16 mon16 tag16.
