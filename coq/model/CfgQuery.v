(* Model of configuration/componentcfg/query.go (NewQuery, Raw, NewQueryParameters),
   apricot/local/serviceutil.go (resolveComponentQuery) and the binding construction of
   apricot/local/service.go:GetAndProcessComponentConfiguration.   Definitions only. *)
From Verif Require Export Common Gen_RunTypes Gen_TplCache Gen_CfgBackends.
Open Scope N_scope.

(* ---------- character classes (ASCII codes) ---------- *)
Definition is_space (c : N) : bool := (c =? 32) || ((9 <=? c) && (c <=? 13)).
Definition is_upper (c : N) : bool := (65 <=? c) && (c <=? 90).
Definition is_lower (c : N) : bool := (97 <=? c) && (c <=? 122).
Definition is_digit (c : N) : bool := (48 <=? c) && (c <=? 57).
Definition is_dash_us (c : N) : bool := (c =? 45) || (c =? 95).
(* [a-zA-Z0-9-_] *)
Definition is_comp_char (c : N) : bool := is_lower c || is_upper c || is_digit c || is_dash_us c.
(* [A-Z0-9-_] *)
Definition is_rt_char (c : N) : bool := is_upper c || is_digit c || is_dash_us c.
(* [a-z-A-Z0-9-_/] *)
Definition is_entry_char (c : N) : bool := is_comp_char c || (c =? 47).
(* [a-zA-Z0-9-_,dquote\[\]] *)
Definition is_val_char (c : N) : bool :=
  is_comp_char c || (c =? 44) || (c =? 34) || (c =? 91) || (c =? 93).

Definition slash : N := 47.

(* ---------- strings.TrimSpace on ASCII ---------- *)
Fixpoint trim_left (l : str) : str :=
  match l with
  | c :: r => if is_space c then trim_left r else l
  | [] => []
  end.
Definition trim (l : str) : str := rev (trim_left (rev (trim_left l))).

(* ---------- splitting ---------- *)
(* [split_at sep l] = (prefix before the first [sep], Some rest-after-sep) or (l, None) *)
Fixpoint split_at (sep : N) (l : str) : str * option str :=
  match l with
  | [] => ([], None)
  | c :: r => if c =? sep then ([], Some r)
              else let '(a, b) := split_at sep r in (c :: a, b)
  end.

Definition nonempty {A} (l : list A) : bool := match l with [] => false | _ => true end.

(* ---------- run types (table regenerated from apricot.pb.go) ---------- *)
Fixpoint rt_of_name (tbl : list (N * str)) (n : str) : option N :=
  match tbl with
  | [] => None
  | (i, s) :: r => if str_eqb n s then Some i else rt_of_name r n
  end.
Fixpoint rt_name (tbl : list (N * str)) (i : N) : option str :=
  match tbl with
  | [] => None
  | (j, s) :: r => if i =? j then Some s else rt_name r i
  end.
Definition runtype_of_name := rt_of_name runtype_table.
(* Go: RunType_name[int32(rt)] gives "" for an unknown number *)
Definition runtype_name (i : N) : str := match rt_name runtype_table i with Some s => s | None => [] end.

Definition RT_ANY : N := runtype_any.
Definition ROLE_ANY : str := [97; 110; 121].   (* any *)

(* ---------- queries ---------- *)
Record query := mkQuery { q_comp : str; q_rt : N; q_role : str; q_entry : str }.

Definition query_eqb (a b : query) : bool :=
  str_eqb (q_comp a) (q_comp b) && (q_rt a =? q_rt b) &&
  str_eqb (q_role a) (q_role b) && str_eqb (q_entry a) (q_entry b).

Definition seg_ok (p : N -> bool) (s : str) : bool := nonempty s && forallb p s.

(* NewQuery = parse_core after strings.TrimSpace *)
Definition parse_core (s : str) : option query :=
  match split_at slash s with
  | (comp, Some r1) =>
    match split_at slash r1 with
    | (rt, Some r2) =>
      match split_at slash r2 with
      | (role, Some entry) =>
        if seg_ok is_comp_char comp && seg_ok is_rt_char rt &&
           seg_ok is_comp_char role && seg_ok is_entry_char entry
        then match runtype_of_name rt with
             | Some t => Some (mkQuery comp t role entry)
             | None => None
             end
        else None
      | _ => None
      end
    | _ => None
    end
  | _ => None
  end.
Definition parse_query (s0 : str) : option query := parse_core (trim s0).

(* Raw / Path *)
Definition print_query (q : query) : str :=
  q_comp q ++ slash :: runtype_name (q_rt q) ++ slash :: q_role q ++ slash :: q_entry q.

(* the queries NewQuery can produce *)
Definition wf_query (q : query) : bool :=
  seg_ok is_comp_char (q_comp q) && seg_ok is_comp_char (q_role q) &&
  seg_ok is_entry_char (q_entry q) &&
  match rt_name runtype_table (q_rt q) with Some _ => true | None => false end.

(* ---------- fallback resolution ---------- *)
Definition with_any_rt (q : query) := mkQuery (q_comp q) RT_ANY (q_role q) (q_entry q).
Definition with_any_role (q : query) := mkQuery (q_comp q) (q_rt q) ROLE_ANY (q_entry q).

(* resolveComponentQuery, with the backend's Exists as an oracle on printed paths *)
Definition resolve (ex : str -> bool) (q : query) : option query :=
  if ex (print_query q) then Some q
  else let q1 := with_any_rt q in
       if ex (print_query q1) then Some q1
       else let q2 := with_any_role q in
            if ex (print_query q2) then Some q2
            else let q3 := with_any_rt q2 in
                 if ex (print_query q3) then Some q3 else None.

Definition candidates (q : query) : list query :=
  [q; with_any_rt q; with_any_role q; with_any_rt (with_any_role q)].

(* ---------- the backends' Exists over a store that holds exactly the entries [existing] ----------
   (paths component/RUNTYPE/role/entry; Gen_CfgBackends says how ConsulSource.Exists asks Consul) *)
Fixpoint is_prefix (a b : str) : bool :=
  match a, b with
  | [], _ => true
  | x :: a', y :: b' => (x =? y) && is_prefix a' b'
  | _ :: _, [] => false
  end.
Definition is_entry (existing : list str) (p : str) : bool := mem_str p existing.
Definition is_folder (existing : list str) (p : str) : bool := existsb (is_prefix (p ++ [slash])) existing.
(* ConsulSource.Exists: a GET of the key (the key is stored), or - the other way of asking Consul -
   a key LISTING, which Consul answers by string prefix *)
Definition consul_exists (by_get : bool) (existing : list str) (p : str) : bool :=
  if by_get then is_entry existing p else existsb (is_prefix p) existing.
(* YamlSource.Exists walks the tree: any node, entry or folder *)
Definition file_exists (existing : list str) (p : str) : bool := is_entry existing p || is_folder existing p.

(* ---------- query parameters ---------- *)
Definition amp : N := 38.
Definition eqc : N := 61.

Fixpoint split_all_fuel (fuel : nat) (sep : N) (l : str) : list str :=
  match fuel with
  | O => [l]
  | S f => match split_at sep l with
           | (a, Some r) => a :: split_all_fuel f sep r
           | (a, None) => [a]
           end
  end.
Definition split_all (sep : N) (l : str) : list str := split_all_fuel (length l) sep l.

(* one k=v item of the regular expression *)
Definition parse_kv (s : str) : option (str * str) :=
  match split_at eqc s with
  | (k, Some v) => if seg_ok is_comp_char k && seg_ok is_val_char v then Some (k, v) else None
  | _ => None
  end.

Fixpoint parse_kvs (l : list str) : option (list (str * str)) :=
  match l with
  | [] => Some []
  | s :: r => match parse_kv s, parse_kvs r with
              | Some kv, Some rest => Some (kv :: rest)
              | _, _ => None
              end
  end.

(* strconv.ParseBool *)
Definition s_of (l : list N) : str := l.
Definition parse_bool (v : str) : option bool :=
  if mem_str v [[49]; [116]; [84]; [84;82;85;69]; [116;114;117;101]; [84;114;117;101]] then Some true
  else if mem_str v [[48]; [102]; [70]; [70;65;76;83;69]; [102;97;108;115;101]; [70;97;108;115;101]] then Some false
  else None.

Definition k_process : str := [112;114;111;99;101;115;115].

Record qparams := mkParams { p_process : bool; p_vars : list (str * str) }.

Definition keys_nodup (l : list (str * str)) : bool := nodupb str_eqb (map fst l).

(* NewQueryParameters: None = rejected.  The variable map is returned as the list of
   (key,value) pairs in order of appearance ("process" removed); the harness sorts. *)
Definition parse_params (s0 : str) : option qparams :=
  let s := trim s0 in
  match parse_kvs (split_all amp s) with
  | None => None
  | Some kvs =>
    if keys_nodup kvs then
      match assoc k_process kvs with
      | Some v => match parse_bool v with
                  | Some b => Some (mkParams b (filter (fun kv => negb (str_eqb (fst kv) k_process)) kvs))
                  | None => None
                  end
      | None => Some (mkParams true (filter (fun kv => negb (str_eqb (fst kv) k_process)) kvs))
      end
    else None
  end.

(* ---------- printing query parameters (specification side of the round trip) ---------- *)
Definition print_kv (kv : str * str) : str := fst kv ++ eqc :: snd kv.
Fixpoint join_amp (l : list str) : str :=
  match l with
  | [] => []
  | [x] => x
  | x :: r => x ++ amp :: join_amp r
  end.
Definition print_kvs (kvs : list (str * str)) : str := join_amp (map print_kv kvs).
Definition wf_kv (kv : str * str) : bool := seg_ok is_comp_char (fst kv) && seg_ok is_val_char (snd kv).
(* the parameter lists NewQueryParameters accepts *)
Definition wf_kvs (kvs : list (str * str)) : bool :=
  nonempty kvs && forallb wf_kv kvs && keys_nodup kvs &&
  match assoc k_process kvs with Some v => match parse_bool v with Some _ => true | None => false end | None => true end.
Definition params_of (kvs : list (str * str)) : qparams :=
  mkParams (match assoc k_process kvs with
            | Some v => match parse_bool v with Some b => b | None => true end
            | None => true end)
           (filter (fun kv => negb (str_eqb (fst kv) k_process)) kvs).

(* ---------- payload templating ----------
   fragment: literal text, {{ name }} and {{ expression }} where an expression is a string
   literal, a name, a call of util.PrefixedOverride (legacy spelling: PrefixedOverride) - the one
   utility function of configuration/template/stack.go:MakeUtilFuncMap that reads the variable
   stack - or of one of the pure string functions strings.ToUpper / ToLower / TrimSpace /
   TrimQuotes (legacy spelling: without the "strings." prefix). *)
Inductive sfun := FUpper | FLower | FTrimSpace | FTrimQuotes.
Inductive texpr :=
| ELit (s : str)                                   (* "text" *)
| EVar (name : str)                                (* context lookup; missing = nil *)
| EPO (legacy : bool) (varname prefix : texpr)     (* util.PrefixedOverride(varname, prefix) *)
| EFun (legacy : bool) (f : sfun) (arg : texpr).   (* strings.F(arg) *)
Inductive tpiece := TLit (s : str) | TVar (name : str) | TExp (e : texpr).

(* bindings as built by GetAndProcessComponentConfiguration: keys trimmed; later pairs
   of the (sorted) supplied list do not matter because supplied keys are distinct after
   trimming in the cases the harness generates; lookup = first hit *)
Definition bindings (vars : list (str * str)) : list (str * str) :=
  map (fun kv => (trim (fst kv), snd kv)) vars.

(* pongo2 refuses an execution context with a key outside [a-zA-Z0-9_]+ *)
Definition is_ident_char (c : N) : bool := is_lower c || is_upper c || is_digit c || (c =? 95).
Definition keys_ok (b : list (str * str)) : bool := forallb (fun kv => seg_ok is_ident_char (fst kv)) b.

(* pongo2's default autoescape: & < > dquote squote are HTML-escaped in variable output
   (the set is created with pongo2.NewSet and autoescape is never switched off) *)
Definition escape_char (c : N) : str :=
  if c =? 38 then [38;97;109;112;59]            (* &amp; *)
  else if c =? 60 then [38;108;116;59]          (* &lt; *)
  else if c =? 62 then [38;103;116;59]          (* &gt; *)
  else if c =? 34 then [38;113;117;111;116;59]  (* &quot; *)
  else if c =? 39 then [38;35;51;57;59]         (* &#39; *)
  else [c].
Definition escape_html (s : str) : str := flat_map escape_char s.

(* util.PrefixedOverride: the value of <prefix>_<varname>, else that of <varname>, else "";
   "none" and blank values count as absent.  It reads the variable stack AS SUPPLIED (keys not
   trimmed) - [raw] below. *)
Definition s_none : str := [110;111;110;101].
Definition nullish (v : str) : bool := str_eqb v s_none || negb (nonempty (trim v)).
Definition live (o : option str) : option str :=
  match o with Some v => if nullish v then None else Some v | None => None end.
Definition prefixed_override (raw : list (str * str)) (varname prefix : str) : str :=
  match live (assoc (prefix ++ 95 :: varname) raw) with
  | Some v => v
  | None => match live (assoc varname raw) with Some v => v | None => [] end
  end.

Fixpoint trim_left_q (l : str) : str :=
  match l with
  | c :: r => if c =? 34 then trim_left_q r else l
  | [] => []
  end.
Definition apply_sfun (f : sfun) (s : str) : str :=
  match f with
  | FUpper => map (fun c => if is_lower c then c - 32 else c) s
  | FLower => map (fun c => if is_upper c then c + 32 else c) s
  | FTrimSpace => trim s
  | FTrimQuotes => rev (trim_left_q (rev (trim_left_q s)))
  end.

(* value of an expression: error (a nil argument handed to a function), nil, or a string *)
Inductive tval := VErr | VNil | VStr (s : str).

(* [raw]: the variable stack the utility functions were built over;
   [b]: the execution context (trimmed keys) *)
Fixpoint eval (raw b : list (str * str)) (e : texpr) : tval :=
  match e with
  | ELit s => VStr s
  | EVar n => match assoc n b with Some v => VStr v | None => VNil end
  | EPO _ a p =>
    match eval raw b a, eval raw b p with
    | VStr x, VStr y => VStr (prefixed_override raw x y)
    | _, _ => VErr
    end
  | EFun _ f a => match eval raw b a with VStr x => VStr (apply_sfun f x) | _ => VErr end
  end.

Definition render_piece (raw b : list (str * str)) (p : tpiece) : option str :=
  match p with
  | TLit s => Some s
  | TVar n => Some (match assoc n b with Some v => escape_html v | None => [] end)
  | TExp e => match eval raw b e with
              | VStr s => Some (escape_html s)
              | VNil => Some []
              | VErr => None
              end
  end.

Fixpoint render_pieces (raw b : list (str * str)) (t : list tpiece) : option str :=
  match t with
  | [] => Some []
  | p :: r => match render_piece raw b p, render_pieces raw b r with
              | Some x, Some y => Some (x ++ y)
              | _, _ => None
              end
  end.

(* [fm]: the variables the function map is a closure over; [vars]: the variables of the request.
   None = the request fails. *)
Definition render_g (fm vars : list (str * str)) (t : list tpiece) : option str :=
  if keys_ok (bindings vars) then render_pieces fm (bindings vars) t else None.

(* the pure per-request result: everything is built from the variables of the request *)
Definition render (vars : list (str * str)) (t : list tpiece) : option str := render_g vars vars t.

(* ---------- the service across requests ----------
   GetAndProcessComponentConfiguration keeps one pongo2 template set per directory
   (component/RUNTYPE/role[/...]) whose cache holds the compiled templates;
   InvalidateComponentTemplateCache drops all sets.  [s_backend] is the configuration tree
   (newest first), [s_cache] the compiled templates, [s_fm] the variables a function map
   registered with a template set was built over - only used when the switch [shared] is on,
   which is NOT what the source does (Gen_TplCache: no data of a request reaches the state of the
   Service; the function map is built from the variables of the request). *)
Inductive sop :=
| OReq (path : str) (vars : list (str * str))
| OInv
| OPut (path : str) (content : list tpiece).

Record svc := mkSvc { s_backend : list (str * list tpiece);
                      s_cache : list (str * list tpiece);
                      s_fm : list (str * list (str * str)) }.

(* directory of a path: everything before the last slash *)
Definition dir_of (p : str) : str :=
  match split_at slash (rev p) with
  | (_, Some r) => rev r
  | (_, None) => []
  end.

(* one operation; the output is the payload of a request (None: failed / not a request) *)
Definition step_g (shared : bool) (st : svc) (op : sop) : svc * option str :=
  match op with
  | OInv => (mkSvc (s_backend st) [] [], None)
  | OPut p c => (mkSvc ((p, c) :: s_backend st) (s_cache st) (s_fm st), None)
  | OReq p vars =>
    let d := dir_of p in
    let fms := if shared then match assoc d (s_fm st) with Some _ => s_fm st | None => (d, vars) :: s_fm st end
               else s_fm st in
    let fm := if shared then match assoc d fms with Some v => v | None => vars end else vars in
    match assoc p (s_cache st) with
    | Some t => (mkSvc (s_backend st) (s_cache st) fms, render_g fm vars t)
    | None =>
      match assoc p (s_backend st) with
      | Some t => (mkSvc (s_backend st) ((p, t) :: s_cache st) fms, render_g fm vars t)
      | None => (mkSvc (s_backend st) (s_cache st) fms, None)
      end
    end
  end.

Fixpoint run_g (shared : bool) (st : svc) (ops : list sop) : svc * list (option str) :=
  match ops with
  | [] => (st, [])
  | op :: r => let '(st1, o) := step_g shared st op in
               let '(st2, os) := run_g shared st1 r in (st2, o :: os)
  end.

(* the switch as set by the source: on if data of a request reaches the state of the Service, or if
   the function map handed to the template is not built from the variables of the request *)
Definition fm_shared : bool := tplcache_request_data_cached || negb tplcache_funcmap_from_request.
Definition step := step_g fm_shared.
Definition run := run_g fm_shared.
Definition fresh (backend : list (str * list tpiece)) : svc := mkSvc backend [] [].

(* ---------- vocabulary of the templating theorems ---------- *)
(* names an expression / a template looks up in the execution context *)
Fixpoint expr_names (e : texpr) : list str :=
  match e with
  | ELit _ => []
  | EVar n => [n]
  | EPO _ a p => expr_names a ++ expr_names p
  | EFun _ _ a => expr_names a
  end.
Definition piece_names (p : tpiece) : list str :=
  match p with TLit _ => [] | TVar n => [n] | TExp e => expr_names e end.
Definition tpl_names (t : list tpiece) : list str := flat_map piece_names t.
(* does it call PrefixedOverride (which looks up computed keys in the supplied variables) *)
Fixpoint expr_overrides (e : texpr) : bool :=
  match e with
  | EPO _ _ _ => true
  | EFun _ _ a => expr_overrides a
  | _ => false
  end.
Definition tpl_overrides (t : list tpiece) : bool :=
  existsb (fun p => match p with TExp e => expr_overrides e | _ => false end) t.

(* two operations that differ at most in the variables of a request *)
Definition op_shape (a b : sop) : Prop :=
  match a, b with
  | OReq p _, OReq p' _ => p = p'
  | OInv, OInv => True
  | OPut p c, OPut p' c' => p = p' /\ c = c'
  | _, _ => False
  end.
Definition no_put (h : list sop) : bool :=
  forallb (fun op => match op with OPut _ _ => false | _ => true end) h.
(* a history that never rewrites an entry whose template is compiled (such an entry is served
   from the old template until the cache is invalidated - by design); creating entries, asking
   for missing ones and invalidating are all allowed *)
Fixpoint safe_hist (st : svc) (h : list sop) : bool :=
  match h with
  | [] => true
  | op :: r =>
    (match op with
     | OPut p _ => match assoc p (s_cache st) with Some _ => false | None => true end
     | _ => true
     end) && safe_hist (fst (step st op)) r
  end.
(* the store after a history: only the rewrites / creations matter *)
Definition store_after (be : list (str * list tpiece)) (h : list sop) : list (str * list tpiece) :=
  fold_left (fun b op => match op with OPut p c => (p, c) :: b | _ => b end) h be.
(* the template a request for [p] is rendered from *)
Definition in_effect (st : svc) (p : str) : option (list tpiece) :=
  match assoc p (s_cache st) with Some t => Some t | None => assoc p (s_backend st) end.

(* ---------- correspondence cases ---------- *)
Inductive c20_case :=
| CParse (input : str) (observed : option query)             (* NewQuery *)
| CPrint (q : query) (observed : str)                        (* Raw on a constructed query *)
| CParams (input : str) (observed : option (bool * list (str * str))) (* sorted by key *)
| CResolve (q : query) (existing : list str) (observed : option query)
           (get_ok : bool)                                   (* ResolveComponentQuery + Get on result *)
| CRender (vars : list (str * str)) (t : list tpiece) (observed : option str)
(* the same entries in the file backend and in Consul (real ConsulSource over a stand-in for the KV
   HTTP API): resolution of [q] on both, whether the resolved entry could be fetched (unprocessed and
   processed) with its content, and what Source.Exists of both says about probe paths
   (1 yes / 0 no / 2 error; file first) *)
| CBackends (q : query) (existing : list str) (file consul : option query) (get_file get_consul : bool)
            (probes : list (str * (N * N)))
(* a sequence of operations on ONE Service over a backend that starts as [backend]:
   [observed] = what each operation returned (None: failed / not a request),
   [cold] = what the same request returned alone on a fresh Service over the backend as it
   was at that moment,
   [raw] = whether the UNPROCESSED lookup (GetComponentConfiguration) of the request's path
   succeeded on the same Service just before the request (false for the other operations) *)
| CSeq (backend : list (str * list tpiece)) (ops : list sop) (observed cold : list (option str))
       (raw : list bool).

(* insertion sort of pairs by key, to compare with Go's sorted map dump *)
Fixpoint str_leb (a b : str) : bool :=
  match a, b with
  | [], _ => true
  | _ :: _, [] => false
  | x :: a', y :: b' => if x <? y then true else if y <? x then false else str_leb a' b'
  end.
Fixpoint ins_kv (kv : str * str) (l : list (str * str)) :=
  match l with
  | [] => [kv]
  | h :: r => if str_leb (fst kv) (fst h) then kv :: l else h :: ins_kv kv r
  end.
Definition sort_kv (l : list (str * str)) := fold_right ins_kv [] l.

Definition kv_eqb := pair_eqb str_eqb str_eqb.

(* the pure per-request results along a sequence: each request alone, on the backend of the moment *)
Fixpoint pure_outs (be : list (str * list tpiece)) (ops : list sop) : list (option str) :=
  match ops with
  | [] => []
  | OReq p vars :: r =>
    (match assoc p be with Some t => render vars t | None => None end) :: pure_outs be r
  | OInv :: r => None :: pure_outs be r
  | OPut p c :: r => None :: pure_outs ((p, c) :: be) r
  end.

(* does the path of each request have an entry at that moment *)
Fixpoint exist_outs (be : list (str * list tpiece)) (ops : list sop) : list bool :=
  match ops with
  | [] => []
  | OReq p _ :: r => (match assoc p be with Some _ => true | None => false end) :: exist_outs be r
  | OInv :: r => false :: exist_outs be r
  | OPut p c :: r => false :: exist_outs ((p, c) :: be) r
  end.

Definition corr20 (c : c20_case) : bool :=
  match c with
  | CParse s o => option_eqb query_eqb (parse_query s) o
  | CPrint q o => str_eqb (print_query q) o
  | CParams s o =>
    option_eqb (pair_eqb Bool.eqb (list_eqb kv_eqb))
               (match parse_params s with
                | Some p => Some (p_process p, sort_kv (p_vars p))
                | None => None end) o
  | CResolve q ex o _ => option_eqb query_eqb (resolve (fun p => mem_str p ex) q) o
  | CRender vars t o => option_eqb str_eqb (render vars t) o
  | CBackends q exl f c gf gc probes =>
    let fr := resolve (fun p => file_exists exl p) q in
    let cr := resolve (fun p => consul_exists consul_exists_by_get exl p) q in
    let fetched o := match o with Some r => is_entry exl (print_query r) | None => true end in
    option_eqb query_eqb fr f && option_eqb query_eqb cr c &&
    Bool.eqb (fetched fr) gf && Bool.eqb (fetched cr) gc &&
    forallb (fun pr => let '(p, (a, b)) := pr in
                       (a =? (if file_exists exl p then 1 else 0)) &&
                       (b =? (if consul_exists consul_exists_by_get exl p then 1 else 0))) probes
  | CSeq be ops o cold raw =>
    list_eqb (option_eqb str_eqb) (snd (run (fresh be) ops)) o &&
    list_eqb (option_eqb str_eqb) (pure_outs be ops) cold &&
    list_eqb Bool.eqb (exist_outs be ops) raw
  end.

(* monitor: the property evaluated on what the implementation did (no model function of
   the decision involved).  Codes: 0 ok; 1 parsed value does not print back to the
   trimmed input; 2 parsed query not well-formed; 3 resolve returned a non-existing path
   or not the first existing candidate; 4 resolve failed although a candidate exists;
   5 resolved entry could not be fetched; 6 accepted query parameters do not spell the input;
   7 the payload of a request on a warm Service differs from the payload of the same request
   alone on a fresh Service although the entry did not change since its template was compiled
   (something cached across requests reached the payload);
   8 a processed lookup succeeded although the unprocessed lookup of the same path fails (there
   is no entry: nothing to template);
   9 as 7, for an entry that was created after a processed lookup of its path had been made
   while it was missing (the outcome of the earlier lookup was remembered);
   3/4/5 also for the resolution over the Consul backend and over the file backend of a CBackends
   case, judged against the SET OF ENTRIES; 12 the file backend resolved to a folder (a path with
   entries below it and no content); 10 a backend's Exists says yes for a path that is no entry
   (folders of the file backend aside) or no for one that is. *)
Fixpoint first_existing (ex : str -> bool) (l : list query) : option query :=
  match l with
  | [] => None
  | q :: r => if ex (print_query q) then Some q else first_existing ex r
  end.

(* bookkeeping of the template cache discipline only (no rendering): [cached] = entries asked
   for - while they existed - since the last invalidation, [stale] = those of them that were
   rewritten afterwards and are served from the old template by design, [missed] = paths asked for
   while they had no entry.  First failing request decides the code. *)
Fixpoint seq_mon (cached stale missed : list str) (ops : list sop) (o cold : list (option str))
         (raw : list bool) : N :=
  match ops, o, cold, raw with
  | OReq p _ :: r, w :: o', c :: cold', ex :: raw' =>
    if negb ex && (match w with Some _ => true | None => false end) then 8
    else if negb (mem_str p stale) && negb (option_eqb str_eqb w c)
         then (if mem_str p missed then 9 else 7)
    else seq_mon (if ex then p :: cached else cached) stale (if ex then missed else p :: missed) r o' cold' raw'
  | OInv :: r, _ :: o', _ :: cold', _ :: raw' => seq_mon [] [] [] r o' cold' raw'
  | OPut p _ :: r, _ :: o', _ :: cold', _ :: raw' =>
    seq_mon cached (if mem_str p cached then p :: stale else stale) missed r o' cold' raw'
  | _, _, _, _ => 0
  end.

(* an entry is asked for while missing, then created, then asked for again *)
Fixpoint late_pattern (missed created : list str) (ops : list sop) (raw : list bool) : bool :=
  match ops, raw with
  | OReq p _ :: r, ex :: raw' =>
    mem_str p created || late_pattern (if ex then missed else p :: missed) created r raw'
  | OInv :: r, _ :: raw' => late_pattern [] [] r raw'
  | OPut p _ :: r, _ :: raw' => late_pattern missed (if mem_str p missed then p :: created else created) r raw'
  | _, _ => false
  end.

Definition mon20 (c : c20_case) : N :=
  match c with
  | CParse s (Some q) =>
    if negb (wf_query q) then 2
    else if str_eqb (print_query q) (trim s) then 0 else 1
  | CResolve q exl o get_ok =>
    let ex := fun p => mem_str p exl in
    match o, first_existing ex (candidates q) with
    | Some r, Some f => if query_eqb r f then (if get_ok then 0 else 5) else 3
    | Some r, None => 3
    | None, Some _ => 4
    | None, None => 0
    end
  | CParams s (Some (_, vars)) =>
    (* accepted parameters spell exactly the non-"process" items of the input: code 6 *)
    let items := split_all amp (trim s) in
    let printed := map print_kv vars in
    let is_process (it : str) := match split_at eqc it with (k, _) => str_eqb k k_process end in
    if existsb (fun kv => str_eqb (fst kv) k_process) vars then 6
    else if negb (forallb (fun p => mem_str p items) printed) then 6
    else if negb (forallb (fun it => is_process it || mem_str it printed) items) then 6
    else 0
  | CSeq _ ops o cold raw => seq_mon [] [] [] ops o cold raw
  | CBackends q exl f c gf gc probes =>
    let ex := is_entry exl in
    let judge (o : option query) (get_ok folder_code : bool) : N :=
      match o, first_existing ex (candidates q) with
      | Some r, Some fe =>
        if query_eqb r fe then (if get_ok then 0 else 5)
        else if folder_code && is_folder exl (print_query r) then 12 else 3
      | Some r, None => if folder_code && is_folder exl (print_query r) then 12 else 3
      | None, Some _ => 4
      | None, None => 0
      end in
    let cc := judge c gc false in
    if negb (cc =? 0) then cc else
    let fc := judge f gf true in
    if negb (fc =? 0) then fc else
    if forallb (fun pr => let '(p, (a, b)) := pr in
                          (b =? (if ex p then 1 else 0)) &&
                          (is_folder exl p || (a =? (if ex p then 1 else 0)))) probes
    then 0 else 10
  | _ => 0
  end.

Definition tag20 (c : c20_case) : N :=
  match c with
  | CParse _ (Some _) => 1
  | CParse _ None => 2
  | CPrint _ _ => 3
  | CParams _ (Some _) => 4
  | CParams _ None => 5
  | CResolve q exl _ _ =>
    let ex := fun p => mem_str p exl in
    10 + (if ex (print_query q) then 1 else 0)
       + (if ex (print_query (with_any_rt q)) then 2 else 0)
       + (if ex (print_query (with_any_role q)) then 4 else 0)
       + (if ex (print_query (with_any_rt (with_any_role q))) then 8 else 0)
  | CBackends q exl _ _ _ _ _ =>
    (* 40 + which candidates are entries; +16 if a candidate that is no entry is a string prefix
       of some entry (sibling or folder) *)
    let ex := is_entry exl in
    40 + (if ex (print_query q) then 1 else 0)
       + (if ex (print_query (with_any_rt q)) then 2 else 0)
       + (if ex (print_query (with_any_role q)) then 4 else 0)
       + (if ex (print_query (with_any_rt (with_any_role q))) then 8 else 0)
       + (if existsb (fun c => negb (ex (print_query c)) && existsb (is_prefix (print_query c)) exl) (candidates q)
          then 16 else 0)
  | CRender _ t _ => if existsb (fun p => match p with TExp _ => true | _ => false end) t then 35 else 30
  | CSeq _ ops _ _ raw =>
    if late_pattern [] [] ops raw then 36 else
    31 + (if existsb (fun op => match op with OInv => true | _ => false end) ops then 1 else 0)
       + (if existsb (fun op => match op with OPut _ _ => true | _ => false end) ops then 2 else 0)
  end.

Definition report20 := report corr20 mon20 tag20.

