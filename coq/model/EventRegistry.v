(* EventRegistry — model of the per-topic event-writer registry core/the/eventwriter.go
   (property C19): EventWriter / EventWriterWithTopic -> createOrGetWriter, ClearEventWriters.

   Any number of goroutines, each executing one call: [RGet t] (createOrGetWriter of topic t) or
   [RClear] (ClearEventWriters).  A schedule is a list of goroutine numbers; the goroutine named
   makes one step, a goroutine that cannot move (the lock is taken) stutters.  Steps of a Get:
     RStart     the fast path, when the code has one (a lookup outside the exclusive section):
                a writer found is returned at once
     RWantLock  mu.Lock()
     RLocked    the lookup inside the exclusive section, when the code has it: a writer found is
                the one returned; without it the goroutine goes on to create
     RCreate    a new writer is built and stored under the topic
     RHave w    mu.Unlock(), w is returned
   Steps of a Clear: RWantLock, RLocked (Close of every registered writer, the map is emptied),
   RCleared (Unlock).
   Whether the code has the fast path and the check under the lock, and the rest of the lock
   discipline, is read from the source on every run (gen/Gen_EventRegistry.v).
   Definitions only; proofs are in proofs/EventRegistry_proofs.v. *)
From Verif Require Import Common Gen_EventRegistry.
Open Scope N_scope.

Inductive rop := RGet (t : N) | RClear.

Inductive rpc :=
| RStart
| RWantLock
| RLocked
| RCreate
| RHave (w : N)
| RCleared
| RDone (w : option N).

Record rst := mkR {
  r_reg : list (N * N);        (* the map writers: topic -> writer *)
  r_next : N;                  (* next writer identity *)
  r_lock : option nat;         (* goroutine that holds mu exclusively *)
  r_created : list (N * N);    (* ghost: every writer ever built, with its topic *)
  r_closed : list N;           (* ghost: writers on which Close was called *)
  r_pc : nat -> rpc
}.

Definition rinit : rst := mkR [] 0 None [] [] (fun _ => RStart).

(* the lock discipline of createOrGetWriter as read from the source: exclusive lock kept until
   after the last store, the topic looked up again inside it before anything is stored, every
   store inside it, the writer returned is the one found or stored, the entry points call it
   synchronously *)
Definition reg_sync : bool :=
  er_lock_exclusive && er_check_under_lock && er_write_under_lock && er_returns_stored && er_entry_sync.
(* ClearEventWriters: under the lock, Close of every registered writer, map emptied *)
Definition reg_clear_all : bool := er_clear_locked && er_clear_closes_each && er_clear_empties.

Definition upd (f : nat -> rpc) (g : nat) (v : rpc) : nat -> rpc :=
  fun x => if Nat.eqb x g then v else f x.

Definition lock_free (s : rst) : bool := match r_lock s with None => true | Some _ => false end.

Definition rstep (ops : nat -> rop) (g : nat) (s : rst) : rst :=
  let '(mkR reg nx lk cr cl pc) := s in
  match ops g, pc g with
  | RGet t, RStart =>
    if er_fast_lookup then
      (* a read outside the exclusive section (RLock): waits while somebody holds the lock *)
      if lock_free s then
        match assocN t reg with
        | Some w => mkR reg nx lk cr cl (upd pc g (RDone (Some w)))
        | None => mkR reg nx lk cr cl (upd pc g RWantLock)
        end
      else s
    else mkR reg nx lk cr cl (upd pc g RWantLock)
  | RClear, RStart => mkR reg nx lk cr cl (upd pc g RWantLock)
  | _, RWantLock =>
    if lock_free s then mkR reg nx (Some g) cr cl (upd pc g RLocked) else s
  | RGet t, RLocked =>
    if reg_sync then
      match assocN t reg with
      | Some w => mkR reg nx lk cr cl (upd pc g (RHave w))
      | None => mkR reg nx lk cr cl (upd pc g RCreate)
      end
    else mkR reg nx lk cr cl (upd pc g RCreate)
  | RGet t, RCreate =>
    (* writers[topic] = NewWriterWithTopic(topic): a store replaces what was there *)
    mkR ((t, nx) :: filter (fun e => negb (fst e =? t)) reg) (nx + 1) lk ((t, nx) :: cr) cl
        (upd pc g (RHave nx))
  | RGet _, RHave w => mkR reg nx None cr cl (upd pc g (RDone (Some w)))
  | RClear, RLocked =>
    if reg_clear_all then mkR [] nx lk cr (map snd reg ++ cl) (upd pc g RCleared)
    else mkR [] nx lk cr cl (upd pc g RCleared)
  | RClear, RCleared => mkR reg nx None cr cl (upd pc g (RDone None))
  | _, _ => s
  end.

Definition rrun (ops : nat -> rop) (sched : list nat) (s : rst) : rst :=
  fold_left (fun s g => rstep ops g s) sched s.

Definition holds (p : rpc) : bool :=
  match p with RLocked | RCreate | RHave _ | RCleared => true | _ => false end.

(* writers that were built and not closed *)
Definition live (s : rst) (t w : N) : Prop := In (t, w) (r_created s) /\ ~ In w (r_closed s).

(* ---------- what the harness runs ---------- *)
(* operations in the order the harness lists them; operation i is goroutine i; the canonical
   schedule lets each run to completion in turn (six steps are enough for any call) *)
Definition ops_of (l : list rop) : nat -> rop := fun g => nth g l RClear.
Definition seq_sched (n : nat) : list nat := flat_map (fun g => repeat g 6) (seq 0 n).
Definition reg_end (l : list rop) : rst := rrun (ops_of l) (seq_sched (length l)) rinit.
(* per operation: the writer returned (identity + 1), 0 for a Clear or a call that did not end *)
Definition reg_results (l : list rop) : list N :=
  let s := reg_end l in
  map (fun g => match r_pc s g with RDone (Some w) => w + 1 | _ => 0 end) (seq 0 (length l)).

(* identities renamed by order of first occurrence (0 stays 0) *)
Fixpoint find_index (x : N) (l : list N) (i : N) : option N :=
  match l with
  | [] => None
  | y :: r => if x =? y then Some i else find_index x r (i + 1)
  end.

Fixpoint canon_from (seen : list N) (l : list N) : list N :=
  match l with
  | [] => []
  | x :: r =>
    if x =? 0 then 0 :: canon_from seen r
    else match find_index x seen 0 with
         | Some i => (i + 1) :: canon_from seen r
         | None => (Nlen seen + 1) :: canon_from (seen ++ [x]) r
         end
  end.
Definition canon (l : list N) : list N := canon_from [] l.
