(* CacheProxy.v — the configuration glue the detector clause of C04 depends on: the core asks the cache
   proxy (apricot/cacheproxy) for the detectors of an environment's hosts; the proxy answers from a snapshot
   of the inventory taken when the core started and must give the answer of the backend for every host
   list, every snapshot and every later growth of the inventory.  What the proxy does on a cache miss is
   read off the source (gen/Gen_ProxyMiss.v, proxy_miss):
     0 hands the whole host list to the backend   1 asks the backend for that host and uses the answer
     2 asks the backend for that host but the answer does not reach the result (the empty name does) *)
From Coq Require Import List NArith Bool.
From Verif Require Import Common Gen_ProxyMiss.
Import ListNotations.
Open Scope N_scope.

Definition inventory := list (N * N).          (* host, detector; a host appears at most once *)

Fixpoint inv_find (h : N) (i : inventory) : option N :=
  match i with
  | [] => None
  | (h', d) :: r => if N.eqb h h' then Some d else inv_find h r
  end.

(* the backend: the detector of every host; an unknown host is an error.  Detector names are numbers,
   0 stands for the empty name *)
Fixpoint backend (i : inventory) (hosts : list N) : option (list N) :=
  match hosts with
  | [] => Some []
  | h :: r => match inv_find h i, backend i r with
              | Some d, Some l => Some (d :: l)
              | _, _ => None
              end
  end.

Fixpoint proxy_walk (mode : nat) (cache i : inventory) (all hosts : list N) : option (list N) :=
  match hosts with
  | [] => Some []
  | h :: r =>
      match inv_find h cache with
      | Some d => match proxy_walk mode cache i all r with Some l => Some (d :: l) | None => None end
      | None =>
          match mode with
          | O => None                                     (* handled by the caller: whole list to the backend *)
          | S O => match inv_find h i, proxy_walk mode cache i all r with
                   | Some d, Some l => Some (d :: l)
                   | _, _ => None
                   end
          | _ => match inv_find h i, proxy_walk mode cache i all r with
                 | Some _, Some l => Some (0 :: l)
                 | _, _ => None
                 end
          end
      end
  end.

Definition all_cached (cache : inventory) (hosts : list N) : bool :=
  forallb (fun h => match inv_find h cache with Some _ => true | None => false end) hosts.

Definition proxy_mode (mode : nat) (cache i : inventory) (hosts : list N) : option (list N) :=
  match mode with
  | O => if all_cached cache hosts then proxy_walk mode cache i hosts hosts else backend i hosts
  | _ => proxy_walk mode cache i hosts hosts
  end.

Definition proxy := proxy_mode proxy_miss.

(* the snapshot is a part of the inventory: hosts are added to the inventory, a host does not move *)
Definition snapshot_of (cache i : inventory) : Prop :=
  forall h d, inv_find h cache = Some d -> inv_find h i = Some d.
