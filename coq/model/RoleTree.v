(* RoleTree — executable model of role state/status aggregation (property C11).
   Code modelled (AliceO2Group/Control):
     core/task/sm/state.go        State.X
     core/task/status.go          Status.X = STATUS_PRODUCT[s][other]
     core/workflow/safestate.go   aggregateState, SafeState.merge
     core/workflow/safestatus.go  aggregateStatus, SafeStatus.merge
     core/workflow/taskrole.go, callrole.go, aggregatorrole.go   updateState / updateStatus
     core/workflow/aggregator.go  GetRoles (iterator roles are spliced into their parent)
     the lock discipline of SafeState / SafeStatus (merge, get), as counted from the source by the
     translator mergeatomic (gen/Gen_MergeAtomic.v): section 7b
   Definitions only; lemmas live in proofs/RoleTree_proofs.v. *)
From Verif Require Import Common Gen_StateX Gen_StatusX Gen_StatusProduct Gen_MergeAtomic.
Open Scope N_scope.

(* ------------------------------------------------------------------ *)
(* 1. The two finite value domains                                     *)
(* ------------------------------------------------------------------ *)

Inductive state := UNKNOWN | STANDBY | CONFIGURED | RUNNING | ERROR | DONE | MIXED | INVARIANT.
Inductive status := UNDEFINED | INACTIVE | PARTIAL | ACTIVE | UNDEPLOYABLE.

Scheme Equality for state.
Scheme Equality for status.

Definition all_states : list state :=
  [UNKNOWN; STANDBY; CONFIGURED; RUNNING; ERROR; DONE; MIXED; INVARIANT].
Definition all_statuses : list status :=
  [UNDEFINED; INACTIVE; PARTIAL; ACTIVE; UNDEPLOYABLE].

Definition N_of_state (s : state) : N :=
  match s with
  | UNKNOWN => 0 | STANDBY => 1 | CONFIGURED => 2 | RUNNING => 3
  | ERROR => 4 | DONE => 5 | MIXED => 6 | INVARIANT => 7
  end.
Definition N_of_status (s : status) : N :=
  match s with
  | UNDEFINED => 0 | INACTIVE => 1 | PARTIAL => 2 | ACTIVE => 3 | UNDEPLOYABLE => 4
  end.
(* Go: a missing map entry yields the zero value, UNDEFINED *)
Definition status_of_N (n : N) : status :=
  match n with
  | 1 => INACTIVE | 2 => PARTIAL | 3 => ACTIVE | 4 => UNDEPLOYABLE | _ => UNDEFINED
  end.

(* sm.State.X, written as the code is *)
Definition stateX (s other : state) : state :=
  if state_beq s other then s
  else if state_beq s ERROR || state_beq other ERROR then ERROR
  else if state_beq s INVARIANT then other
  else if state_beq other INVARIANT then s
  else MIXED.

(* task.Status.X: the double map lookup, on the table translated from the source *)
Definition statusX (s other : status) : status :=
  match assocN (N_of_status s) status_product_src with
  | Some row => match assocN (N_of_status other) row with
                | Some v => status_of_N v
                | None => UNDEFINED
                end
  | None => UNDEFINED
  end.

(* lookup in the tables enumerated from the running code *)
Fixpoint enum_lookup (a b : N) (l : list (N * N * N)) : option N :=
  match l with
  | [] => None
  | (x, y, z) :: r => if N.eqb a x && N.eqb b y then Some z else enum_lookup a b r
  end.

(* ------------------------------------------------------------------ *)
(* 2. Role trees                                                       *)
(* ------------------------------------------------------------------ *)

(* A leaf is a task role or a call role (identical update code); an Agg is an aggregator or
   include role.  Iterator roles do not appear: aggregator.GetRoles splices their expansion into
   the parent, and that flattened list is what merge/aggregate work on.  Every node carries its
   cached state and status (roleBase.state / roleBase.status). *)
Inductive rtree :=
| Leaf (crit : bool) (st : state) (stat : status)
| Agg (st : state) (stat : status) (cs : list rtree).

Definition st_of (t : rtree) : state :=
  match t with Leaf _ s _ => s | Agg s _ _ => s end.
Definition stat_of (t : rtree) : status :=
  match t with Leaf _ _ x => x | Agg _ x _ => x end.
Definition children (t : rtree) : list rtree :=
  match t with Leaf _ _ _ => [] | Agg _ _ cs => cs end.
Definition is_agg (t : rtree) : bool :=
  match t with Leaf _ _ _ => false | Agg _ _ _ => true end.

(* aggregateState skips task/call children that are not critical; aggregator children always count *)
Definition counted (c : rtree) : bool :=
  match c with Leaf crit _ _ => crit | Agg _ _ _ => true end.

(* aggregateState *)
Definition fold_state (cs : list rtree) : state :=
  fold_left (fun s c => if counted c then stateX s (st_of c) else s) cs INVARIANT.

(* aggregateStatus: first child, then the product, leaving the loop once UNDEFINED is reached *)
Fixpoint fold_status_from (s : status) (cs : list rtree) : status :=
  match cs with
  | [] => s
  | c :: r => if status_beq s UNDEFINED then s else fold_status_from (statusX s (stat_of c)) r
  end.
Definition fold_status (cs : list rtree) : status :=
  match cs with
  | [] => UNDEFINED
  | c :: r => fold_status_from (stat_of c) r
  end.

(* SafeState.merge on an aggregator (the leaf case simply overwrites) *)
Definition merge_state (cache s : state) (cs : list rtree) : state :=
  if state_beq cache s then cache
  else if state_beq s MIXED && negb (state_beq cache ERROR) then MIXED
  else if state_beq s ERROR then ERROR
  else fold_state cs.

(* SafeStatus.merge on an aggregator *)
Definition merge_status (cache s : status) (cs : list rtree) : status :=
  if status_beq cache s then cache
  else if status_beq s UNDEFINED then UNDEFINED
  else fold_status cs.

Fixpoint replace_nth {A} (i : nat) (x : A) (l : list A) : list A :=
  match i, l with
  | _, [] => []
  | O, _ :: r => x :: r
  | S i', a :: r => a :: replace_nth i' x r
  end.

(* ------------------------------------------------------------------ *)
(* 3. One update, run alone (sequential semantics)                     *)
(* ------------------------------------------------------------------ *)

(* leaf.UpdateState(v): the leaf overwrites its cache; a critical leaf hands the *incoming* value
   to its parent; every aggregator merges, then hands its (re-read) cache to its parent.
   Result: new tree and what is handed upwards out of this subtree.  A path that does not lead
   to a leaf changes nothing. *)
Fixpoint upd_state (p : list nat) (v : state) (t : rtree) {struct p} : rtree * option state :=
  match p, t with
  | [], Leaf c _ x => (Leaf c v x, if c then Some v else None)
  | i :: p', Agg s x cs =>
      match nth_error cs i with
      | Some c =>
          let (c', fwd) := upd_state p' v c in
          let cs' := replace_nth i c' cs in
          match fwd with
          | Some inc => let s' := merge_state s inc cs' in (Agg s' x cs', Some s')
          | None => (Agg s x cs', None)
          end
      | None => (t, None)
      end
  | _, _ => (t, None)
  end.

(* leaf.UpdateStatus(v): same walk, no criticality filter *)
Fixpoint upd_status (p : list nat) (v : status) (t : rtree) {struct p} : rtree * option status :=
  match p, t with
  | [], Leaf c s _ => (Leaf c s v, Some v)
  | i :: p', Agg s x cs =>
      match nth_error cs i with
      | Some c =>
          let (c', fwd) := upd_status p' v c in
          let cs' := replace_nth i c' cs in
          match fwd with
          | Some inc => let x' := merge_status x inc cs' in (Agg s x' cs', Some x')
          | None => (Agg s x cs', None)
          end
      | None => (t, None)
      end
  | _, _ => (t, None)
  end.

Inductive op :=
| OpState (p : list nat) (v : state)
| OpStatus (p : list nat) (v : status).

Definition apply_op (o : op) (t : rtree) : rtree :=
  match o with
  | OpState p v => fst (upd_state p v t)
  | OpStatus p v => fst (upd_status p v t)
  end.

Definition run_ops (ops : list op) (t : rtree) : rtree :=
  fold_left (fun t o => apply_op o t) ops t.

(* ------------------------------------------------------------------ *)
(* 4. Path access                                                      *)
(* ------------------------------------------------------------------ *)

Fixpoint get_sub (p : list nat) (t : rtree) : option rtree :=
  match p with
  | [] => Some t
  | i :: p' => match nth_error (children t) i with
               | Some c => get_sub p' c
               | None => None
               end
  end.

Fixpoint map_at (p : list nat) (f : rtree -> rtree) (t : rtree) : rtree :=
  match p with
  | [] => f t
  | i :: p' =>
      match t with
      | Agg s x cs => match nth_error cs i with
                      | Some c => Agg s x (replace_nth i (map_at p' f c) cs)
                      | None => t
                      end
      | Leaf _ _ _ => t
      end
  end.

Definition st_at (p : list nat) (t : rtree) : option state :=
  match get_sub p t with Some n => Some (st_of n) | None => None end.

Definition write_leaf_f (v : state) (t : rtree) : rtree :=
  match t with Leaf c _ x => Leaf c v x | Agg _ _ _ => t end.
Definition merge_f (s : state) (t : rtree) : rtree :=
  match t with Agg st x cs => Agg (merge_state st s cs) x cs | Leaf _ _ _ => t end.
Definition write_status_f (v : status) (t : rtree) : rtree :=
  match t with Leaf c s _ => Leaf c s v | Agg _ _ _ => t end.

(* pure leaf writes (no propagation), used to state "what the leaves were last told" *)
Definition write_op (o : op) (t : rtree) : rtree :=
  match o with
  | OpState p v => map_at p (write_leaf_f v) t
  | OpStatus p v => map_at p (write_status_f v) t
  end.
Definition write_ops (ops : list op) (t : rtree) : rtree :=
  fold_left (fun t o => write_op o t) ops t.

(* ------------------------------------------------------------------ *)
(* 5. The invariant, freshly loaded trees, canonical caches            *)
(* ------------------------------------------------------------------ *)

(* Every aggregator's cache is the fold of its children's caches.  With [w = true] (weak form)
   aggregators without a counted child (state) / without any child (status) are exempt: no
   update ever reaches their cache. *)
Fixpoint inv_b (w : bool) (t : rtree) : bool :=
  match t with
  | Leaf _ _ _ => true
  | Agg s x cs =>
      ((w && negb (existsb counted cs)) || state_beq s (fold_state cs)) &&
      ((w && match cs with [] => true | _ :: _ => false end) || status_beq x (fold_status cs)) &&
      forallb (inv_b w) cs
  end.
Definition Inv (w : bool) (t : rtree) : Prop := inv_b w t = true.

(* roleBase.UnmarshalYAML: every role starts STANDBY / INACTIVE *)
Fixpoint fresh (t : rtree) : rtree :=
  match t with
  | Leaf c _ _ => Leaf c STANDBY INACTIVE
  | Agg _ _ cs => Agg STANDBY INACTIVE (map fresh cs)
  end.

(* every aggregator has a child that counts for the state (hence a critical descendant) *)
Fixpoint all_counted (t : rtree) : bool :=
  match t with
  | Leaf _ _ _ => true
  | Agg _ _ cs => existsb counted cs && forallb all_counted cs
  end.

(* recompute every cache bottom-up from the leaves *)
Fixpoint canon (t : rtree) : rtree :=
  match t with
  | Leaf _ _ _ => t
  | Agg _ _ cs => let cs' := map canon cs in Agg (fold_state cs') (fold_status cs') cs'
  end.

(* ------------------------------------------------------------------ *)
(* 6. The property as the text states it (used by the monitor)         *)
(* ------------------------------------------------------------------ *)

(* states of the critical leaves below a node, statuses of all leaves below a node *)
Fixpoint crit_states (t : rtree) : list state :=
  match t with
  | Leaf c s _ => if c then [s] else []
  | Agg _ _ cs => flat_map crit_states cs
  end.
Fixpoint leaf_stats (t : rtree) : list status :=
  match t with
  | Leaf _ _ x => [x]
  | Agg _ _ [] => [UNDEFINED]            (* an aggregator without roles aggregates to UNDEFINED *)
  | Agg _ _ cs => flat_map leaf_stats cs
  end.

(* ERROR dominates; no opinion at all gives INVARIANT; one healthy opinion gives that state;
   differing ones give MIXED *)
Definition spec_state (l : list state) : state :=
  if existsb (state_beq ERROR) l then ERROR
  else match filter (fun s => negb (state_beq s INVARIANT)) l with
       | [] => INVARIANT
       | a :: r => if forallb (state_beq a) r then a else MIXED
       end.

(* an UNDEFINED makes it UNDEFINED, else an UNDEPLOYABLE makes it UNDEPLOYABLE, else all ACTIVE
   / all INACTIVE give that, anything else (something missing) PARTIAL *)
Definition spec_status (l : list status) : status :=
  match l with
  | [] => UNDEFINED
  | _ :: _ =>
      if existsb (status_beq UNDEFINED) l then UNDEFINED
      else if existsb (status_beq UNDEPLOYABLE) l then UNDEPLOYABLE
      else if forallb (status_beq ACTIVE) l then ACTIVE
      else if forallb (status_beq INACTIVE) l then INACTIVE
      else PARTIAL
  end.

Definition foldX (l : list state) : state := fold_left stateX l INVARIANT.
Definition foldS (l : list status) : status :=
  match l with [] => UNDEFINED | a :: r => fold_left statusX r a end.

(* ------------------------------------------------------------------ *)
(* 7. Concurrent semantics: tokens and schedules                       *)
(* ------------------------------------------------------------------ *)

(* One UpdateState call in flight.  [tk_path] is the node the token is at.
   PWrite : the leaf has not been written yet.
   PFwd   : [tk_val] is about to be merged into the parent of [tk_path] (for the root: handed to
            the ParentAdapter).  A leaf forwards the value it was called with, an aggregator the
            cache it read in PRead.
   PRead  : the aggregator at [tk_path] has merged and is about to re-read its cache.
   Every step is atomic (SafeState's mutex); between two steps of one token any number of steps
   of other tokens may happen: a schedule is the list of token indices that move. *)
Inductive phase := PWrite | PFwd | PRead | PDone.
Record token := mkTok { tk_path : list nat; tk_val : state; tk_ph : phase }.

Record cstate := mkC { c_tree : rtree; c_toks : list token; c_adapter : list state }.

Definition step_tok (t : rtree) (k : token) : rtree * token * option state :=
  match tk_ph k with
  | PWrite =>
      match get_sub (tk_path k) t with
      | Some (Leaf c _ _) =>
          (map_at (tk_path k) (write_leaf_f (tk_val k)) t,
           mkTok (tk_path k) (tk_val k) (if c then PFwd else PDone), None)
      | _ => (t, mkTok (tk_path k) (tk_val k) PDone, None)
      end
  | PFwd =>
      match tk_path k with
      | [] => (t, mkTok [] (tk_val k) PDone, Some (tk_val k))
      | _ :: _ =>
          let p' := removelast (tk_path k) in
          (map_at p' (merge_f (tk_val k)) t, mkTok p' (tk_val k) PRead, None)
      end
  | PRead =>
      match st_at (tk_path k) t with
      | Some s => (t, mkTok (tk_path k) s PFwd, None)
      | None => (t, mkTok (tk_path k) (tk_val k) PDone, None)
      end
  | PDone => (t, k, None)
  end.

Definition cstep (i : nat) (c : cstate) : cstate :=
  match nth_error (c_toks c) i with
  | Some k =>
      match step_tok (c_tree c) k with
      | (t', k', out) =>
          mkC t' (replace_nth i k' (c_toks c))
              (match out with Some s => c_adapter c ++ [s] | None => c_adapter c end)
      end
  | None => c
  end.

Definition run_sched (sched : list nat) (c : cstate) : cstate :=
  fold_left (fun c i => cstep i c) sched c.

Definition pending (ups : list (list nat * state)) : list token :=
  map (fun u => mkTok (fst u) (snd u) PWrite) ups.
Definition cinit (t : rtree) (ups : list (list nat * state)) : cstate := mkC t (pending ups) [].

Definition tok_done (k : token) : bool :=
  match tk_ph k with PDone => true | _ => false end.
Definition quiescent (c : cstate) : bool := forallb tok_done (c_toks c).

(* one token run alone to completion: at most 2*depth+2 steps *)
Definition alone_steps (p : list nat) : nat := 2 * length p + 2.
Definition run_alone (p : list nat) (v : state) (t : rtree) : cstate :=
  run_sched (repeat 0%nat (alone_steps p)) (cinit t [(p, v)]).

(* ------------------------------------------------------------------ *)
(* 7b. Is a merge one step?  The lock discipline read from the source,  *)
(*     and the semantics when it is not                                 *)
(* ------------------------------------------------------------------ *)

(* Section 7 makes every merge one atomic step.  That is true of the code only because
   SafeState.merge / SafeStatus.merge hold the role's write lock from their first statement to
   every way out, around the comparison with the cache, the re-aggregation of the children and
   the store.  Gen_MergeAtomic.v is what the translator counted in the method bodies; these
   predicates say which counts mean "one critical section around everything". *)
Definition section_ok (f : lock_facts) : bool :=
  negb (N.eqb (lf_entry f) 0) &&          (* the first statement takes the lock *)
  N.eqb (lf_locks f) 1 &&                 (* it is taken once: no Unlock ... Lock inside *)
  N.eqb (lf_leaks f) 0 &&                 (* released on every way out *)
  (if lf_deferred f then N.eqb (lf_unlocks f) 0 else true) &&
  N.eqb (lf_unlock_free f) 0 &&
  N.eqb (lf_agg_out f) 0 &&               (* children re-aggregated under the write lock *)
  N.eqb (lf_writes_out f) 0 &&            (* cache written under the write lock *)
  N.eqb (lf_reads_out f) 0 &&             (* cache read under a lock *)
  N.eqb (lf_spawns f) 0.                  (* nothing in another goroutine / closure *)

Definition merge_ok (f : lock_facts) : bool :=
  section_ok f && N.eqb (lf_entry f) 1 && N.leb 1 (lf_agg f) && N.leb 1 (lf_writes f).
Definition get_ok (f : lock_facts) : bool :=
  section_ok f && N.leb 1 (lf_reads f) && N.eqb (lf_writes f) 0.

Definition state_merge_atomic : bool :=
  merge_ok state_merge_facts && get_ok state_get_facts && forallb section_ok state_other_methods &&
  N.eqb direct_accesses_runtime 0.
Definition status_merge_atomic : bool :=
  merge_ok status_merge_facts && get_ok status_get_facts && forallb section_ok status_other_methods &&
  N.eqb direct_accesses_runtime 0.
Definition merge_is_atomic : bool := state_merge_atomic && status_merge_atomic.

(* The schedules of section 7 with a switch.  [atomic = true]: exactly [cstep].  [atomic = false]:
   a merge that takes the recompute branch (no shortcut applies) is two steps with the lock
   released in between, as in
       t.mu.Unlock(); aggregated := aggregateState(r.GetRoles()); t.mu.Lock(); t.state = aggregated
   - first the token moves to the aggregator and remembers the fold of the children as they are
     now ([g_pend] = Some aggregate, the cache is untouched),
   - later it stores what it remembered.
   Anything may happen in between.  The shortcut branches stay one step. *)
Definition merge_recomputes (cache s : state) : bool :=
  negb (state_beq cache s) &&
  negb (state_beq s MIXED && negb (state_beq cache ERROR)) &&
  negb (state_beq s ERROR).

Definition set_st_f (a : state) (t : rtree) : rtree :=
  match t with Agg _ x cs => Agg a x cs | Leaf _ _ _ => t end.

Record gstate := mkG { g_c : cstate; g_pend : list (option state) }.

Definition gstep_split (i : nat) (g : gstate) : gstate :=
  let c := g_c g in
  match nth_error (c_toks c) i with
  | None => g
  | Some k =>
      match nth i (g_pend g) None with
      | Some a =>
          mkG (mkC (map_at (tk_path k) (set_st_f a) (c_tree c)) (c_toks c) (c_adapter c))
              (replace_nth i None (g_pend g))
      | None =>
          match tk_ph k, tk_path k with
          | PFwd, _ :: _ =>
              let p' := removelast (tk_path k) in
              match get_sub p' (c_tree c) with
              | Some (Agg st _ cs) =>
                  if merge_recomputes st (tk_val k)
                  then mkG (mkC (c_tree c) (replace_nth i (mkTok p' (tk_val k) PRead) (c_toks c))
                                (c_adapter c))
                           (replace_nth i (Some (fold_state cs)) (g_pend g))
                  else mkG (cstep i c) (g_pend g)
              | _ => mkG (cstep i c) (g_pend g)
              end
          | _, _ => mkG (cstep i c) (g_pend g)
          end
      end
  end.

Definition gstep (atomic : bool) (i : nat) (g : gstate) : gstate :=
  if atomic then mkG (cstep i (g_c g)) (g_pend g) else gstep_split i g.

Definition run_sched_g (atomic : bool) (sched : list nat) (g : gstate) : gstate :=
  fold_left (fun g i => gstep atomic i g) sched g.

Definition ginit (t : rtree) (ups : list (list nat * state)) : gstate :=
  mkG (cinit t ups) (map (fun _ => None) ups).

Definition no_pend (o : option state) : bool := match o with None => true | Some _ => false end.
Definition gquiescent (g : gstate) : bool := quiescent (g_c g) && forallb no_pend (g_pend g).
Definition g_tree (g : gstate) : rtree := c_tree (g_c g).

(* ------------------------------------------------------------------ *)
(* 8. Decidable equalities for observations                            *)
(* ------------------------------------------------------------------ *)

Fixpoint rtree_eqb (a b : rtree) : bool :=
  match a, b with
  | Leaf c s x, Leaf c' s' x' => Bool.eqb c c' && state_beq s s' && status_beq x x'
  | Agg s x cs, Agg s' x' cs' =>
      state_beq s s' && status_beq x x' &&
      (fix go (l m : list rtree) : bool :=
         match l, m with
         | [], [] => true
         | a :: l', b :: m' => rtree_eqb a b && go l' m'
         | _, _ => false
         end) cs cs'
  | _, _ => false
  end.

Definition path_eqb (a b : list nat) : bool := list_eqb Nat.eqb a b.

(* ------------------------------------------------------------------ *)
(* 9. Cases written by the harness, correspondence, monitor, tags       *)
(* ------------------------------------------------------------------ *)

(* what the implementation showed after one update: every node's GetState/GetStatus (as a tree),
   the RoleEvents handed to ParentAdapter.SendEvents as (path of the role, value code) in order,
   and what the ParentAdapter's updateState/updateStatus received *)
Record step_obs := mkObs { o_tree : rtree; o_events : list (list nat * N); o_adapter : list N }.

(* permutation of the children lists of a tree: node = (new order, sub-permutations in old order) *)
Inductive ptree := P (perm : list nat) (sub : list ptree).

Fixpoint apply_perm (pt : ptree) (t : rtree) {struct pt} : rtree :=
  match pt, t with
  | P perm sub, Agg s x cs =>
      let cs' := (fix go (l : list ptree) (m : list rtree) : list rtree :=
                    match l, m with
                    | p :: l', c :: m' => apply_perm p c :: go l' m'
                    | _, _ => []
                    end) sub cs in
      Agg s x (map (fun i => nth i cs' (Leaf false UNKNOWN UNDEFINED)) perm)
  | _, _ => t
  end.

Inductive c11_case :=
(* sequential updates on a tree.  mode 0: the tree is as the loader left it; mode 1: leaf caches
   preset, aggregator caches computed by the implementation's aggregateState/aggregateStatus
   bottom-up; mode 2: all caches preset arbitrarily (correspondence only) *)
| CSeq (mode : N) (t0 : rtree) (ops : list op) (obs : list step_obs)
(* UpdateState calls interleaved by a forced schedule; per harness segment the model steps it
   stands for and a snapshot of the tree after it; then the final tree and everything the
   ParentAdapter received *)
| CConc (t0 : rtree) (ups : list (list nat * state)) (segs : list (list nat * rtree))
        (final : rtree) (adapter : list N)
(* the same updates on a tree and on the tree with permuted children lists *)
| CPerm (t0 : rtree) (ops : list op) (final : rtree)
        (pt : ptree) (t0' : rtree) (ops' : list op) (final' : rtree)
(* the same updates in two orders that keep the per-leaf order *)
| CComm (t0 : rtree) (ops1 : list op) (final1 : rtree) (ops2 : list op) (final2 : rtree)
(* two updates of different leaves below the aggregator at [pP], the first one (B) stopped INSIDE
   the re-aggregation of [pP] (a gate in front of one of its children, behind the branch of the
   second leaf) while the second one (A) is started.  mode as in CSeq (0 loaded / 1 consistent
   preset).  [parked]: B did reach the gate; [blocked]: A had not got past the merge of [pP] when
   the harness gave up waiting and let B go on.  Then: B up to its event at [pP], A up to its
   event at [pP], B to the end, A to the end; [final] tree and what the ParentAdapter received *)
| CGate (mode : N) (t0 : rtree) (pP : list nat) (oB oA : op) (parked blocked : bool)
        (final : rtree) (adapter : list N).

(* --- model side of a sequential step --- *)
(* RoleEvent carries State.String(), which prints INVARIANT (and anything above MIXED) as
   "UNKNOWN" *)
Definition state_string_code (s : state) : N :=
  match s with INVARIANT => 0 | _ => N_of_state s end.

Definition op_path (o : op) : list nat :=
  match o with OpState p _ => p | OpStatus p _ => p end.

Definition value_at (o : op) (p : list nat) (t : rtree) : N :=
  match get_sub p t with
  | Some n => match o with OpState _ _ => N_of_state (st_of n) | OpStatus _ _ => N_of_status (stat_of n) end
  | None => 999
  end.
Definition event_value_at (o : op) (p : list nat) (t : rtree) : N :=
  match get_sub p t with
  | Some n => match o with OpState _ _ => state_string_code (st_of n) | OpStatus _ _ => N_of_status (stat_of n) end
  | None => 999
  end.

Definition propagates (o : op) (t : rtree) : bool :=
  match get_sub (op_path o) t with
  | Some (Leaf c _ _) => match o with OpState _ _ => c | OpStatus _ _ => true end
  | _ => false
  end.
Definition hits_leaf (o : op) (t : rtree) : bool :=
  match get_sub (op_path o) t with Some (Leaf _ _ _) => true | _ => false end.

(* proper prefixes of p, longest first, down to [] *)
Fixpoint proper_prefixes_fuel (n : nat) (p : list nat) : list (list nat) :=
  match n with
  | O => []
  | S n' => match p with
            | [] => []
            | _ :: _ => removelast p :: proper_prefixes_fuel n' (removelast p)
            end
  end.

(* RoleEvents of one update: the leaf, then every aggregator that merged, bottom-up *)
Definition model_events (o : op) (t t' : rtree) : list (list nat * N) :=
  if hits_leaf o t then
    (op_path o, event_value_at o (op_path o) t') ::
    (if propagates o t
     then map (fun q => (q, event_value_at o q t')) (proper_prefixes_fuel (length (op_path o)) (op_path o))
     else [])
  else [].
Definition model_adapter (o : op) (t t' : rtree) : list N :=
  if propagates o t then [value_at o [] t'] else [].

Definition ev_eqb (a b : list nat * N) : bool := path_eqb (fst a) (fst b) && N.eqb (snd a) (snd b).

Fixpoint check_steps (t : rtree) (ops : list op) (obs : list step_obs) : bool :=
  match ops, obs with
  | [], [] => true
  | o :: ops', ob :: obs' =>
      let t' := apply_op o t in
      rtree_eqb t' (o_tree ob) &&
      list_eqb ev_eqb (model_events o t t') (o_events ob) &&
      list_eqb N.eqb (model_adapter o t t') (o_adapter ob) &&
      (* the token semantics run alone agrees with the recursive one *)
      match o with
      | OpState p v => let c := run_alone p v t in
                       rtree_eqb (c_tree c) t' && quiescent c &&
                       list_eqb N.eqb (map N_of_state (c_adapter c)) (o_adapter ob)
      | OpStatus _ _ => true
      end &&
      check_steps t' ops' obs'
  | _, _ => false
  end.

Fixpoint check_segs (c : cstate) (segs : list (list nat * rtree)) : option cstate :=
  match segs with
  | [] => Some c
  | (steps, snap) :: r =>
      let c' := run_sched steps c in
      if rtree_eqb (c_tree c') snap then check_segs c' r else None
  end.

(* --- model side of a gate case --- *)
Definition op_is_state (o : op) : bool := match o with OpState _ _ => true | OpStatus _ _ => false end.

(* the schedule the harness forces, in token steps (token 0 = B, token 1 = A): B writes its leaf
   and merges up to and including [pP] (2 * distance steps), the same for A, B to the end, A to
   the end.  Not parked: B to the end, then A *)
Definition gate_sched (pP : list nat) (pB pA : list nat) (parked : bool) : list nat :=
  (if parked
   then repeat 0%nat (2 * (length pB - length pP)) ++ repeat 1%nat (2 * (length pA - length pP))
   else []) ++ repeat 0%nat (alone_steps pB) ++ repeat 1%nat (alone_steps pA).

(* status updates have no token semantics; the same interleaving written out: what arrives at the
   node at [p] ([sub], and whether a value is handed upwards) is merged into every ancestor *)
Fixpoint prop_status (p : list nat) (sub : rtree) (fwd : option status) (t : rtree) {struct p}
  : rtree * option status :=
  match p, t with
  | [], _ => (sub, fwd)
  | i :: p', Agg s x cs =>
      match nth_error cs i with
      | Some c =>
          let (c', f) := prop_status p' sub fwd c in
          let cs' := replace_nth i c' cs in
          match f with
          | Some inc => let x' := merge_status x inc cs' in (Agg s x' cs', Some x')
          | None => (Agg s x cs', None)
          end
      | None => (t, None)
      end
  | _, _ => (t, None)
  end.

Definition reread (f : option status) (n : rtree) : option status :=
  match f with Some _ => Some (stat_of n) | None => None end.
Definition out_list (o : option status) : list N :=
  match o with Some v => [N_of_status v] | None => [] end.

Definition gate_status (pP rB : list nat) (vB : status) (rA : list nat) (vA : status) (t0 : rtree)
  : option (rtree * list N) :=
  match get_sub pP t0 with
  | Some sub0 =>
      let (sub1, fB) := upd_status rB vB sub0 in      (* B: leaf ... merge at pP *)
      let (sub2, fA) := upd_status rA vA sub1 in      (* A: leaf ... merge at pP *)
      let (t3, outB) := prop_status pP sub2 (reread fB sub2) t0 in   (* B re-reads pP, goes on *)
      match get_sub pP t3 with
      | Some sub3 =>
          let (t4, outA) := prop_status pP sub3 (reread fA sub3) t3 in
          Some (t4, out_list outB ++ out_list outA)
      | None => None
      end
  | None => None
  end.

Definition is_prefix (p q : list nat) : bool := path_eqb p (firstn (length p) q).

Definition gate_model_ok (pP : list nat) (oB oA : op) (parked : bool) (t0 final : rtree)
           (adapter : list N) : bool :=
  match oB, oA with
  | OpState pB vB, OpState pA vA =>
      let c := run_sched (gate_sched pP pB pA parked) (cinit t0 [(pB, vB); (pA, vA)]) in
      rtree_eqb (c_tree c) final && quiescent c &&
      list_eqb N.eqb (map N_of_state (c_adapter c)) adapter
  | OpStatus pB vB, OpStatus pA vA =>
      if parked then
        match gate_status pP (skipn (length pP) pB) vB (skipn (length pP) pA) vA t0 with
        | Some (t', ad) => rtree_eqb t' final && list_eqb N.eqb ad adapter
        | None => false
        end
      else
        let t1 := apply_op oB t0 in
        let t2 := apply_op oA t1 in
        rtree_eqb t2 final &&
        list_eqb N.eqb (model_adapter oB t0 t1 ++ model_adapter oA t1 t2) adapter
  | _, _ => false
  end.

Definition corr11 (c : c11_case) : bool :=
  match c with
  | CSeq mode t0 ops obs =>
      (if N.eqb mode 0 then rtree_eqb (fresh t0) t0
       else if N.eqb mode 1 then rtree_eqb (canon t0) t0 else true) &&
      check_steps t0 ops obs
  | CConc t0 ups segs final adapter =>
      rtree_eqb (fresh t0) t0 &&
      match check_segs (cinit t0 ups) segs with
      | Some c' => rtree_eqb (c_tree c') final && quiescent c' &&
                   list_eqb N.eqb (map N_of_state (c_adapter c')) adapter
      | None => false
      end
  | CPerm t0 ops final pt t0' ops' final' =>
      rtree_eqb (fresh t0) t0 && rtree_eqb (apply_perm pt t0) t0' &&
      rtree_eqb (run_ops ops t0) final && rtree_eqb (run_ops ops' t0') final'
  | CComm t0 ops1 final1 ops2 final2 =>
      rtree_eqb (fresh t0) t0 &&
      rtree_eqb (run_ops ops1 t0) final1 && rtree_eqb (run_ops ops2 t0) final2
  | CGate mode t0 pP oB oA parked blocked final adapter =>
      (if N.eqb mode 0 then rtree_eqb (fresh t0) t0 else rtree_eqb (canon t0) t0) &&
      is_prefix pP (op_path oB) && is_prefix pP (op_path oA) &&
      negb (path_eqb (op_path oB) (op_path oA)) &&
      (* every merge holds the aggregator's lock from the first to the last statement: A cannot
         get through the merge of pP while B is inside it *)
      (negb parked || blocked) &&
      gate_model_ok pP oB oA parked t0 final adapter
  end.

(* --- the monitor: the property evaluated on what the implementation showed --- *)

Definition has_crit (t : rtree) : bool :=
  match crit_states t with [] => false | _ :: _ => true end.

(* no aggregator without a critical descendant anywhere in the subtree *)
Fixpoint no_critless (t : rtree) : bool :=
  match t with
  | Leaf _ _ _ => true
  | Agg _ _ cs => has_crit t && forallb no_critless cs
  end.

(* some task or call below *)
Fixpoint has_leaf (t : rtree) : bool :=
  match t with
  | Leaf _ _ _ => true
  | Agg _ _ cs => existsb has_leaf cs
  end.
(* no aggregator without any task or call below, anywhere in the subtree *)
Fixpoint no_leafless (t : rtree) : bool :=
  match t with
  | Leaf _ _ _ => true
  | Agg _ _ cs => existsb has_leaf cs && forallb no_leafless cs
  end.

Definition sub_paths (i : nat) (l : list (list nat)) : list (list nat) :=
  flat_map (fun p => match p with j :: r => if Nat.eqb i j then [r] else [] | [] => [] end) l.

(* violation classes present in one snapshot.  [stale]: leaves (paths relative to the node) that
   were sent an ERROR update by an interleaved run and do not report ERROR any more.
   4  an ERROR of a critical task is not reflected by an ancestor (lost)
   5  an aggregator reports ERROR without a critical task in ERROR below (invented)
   7  the same, below a leaf of [stale] (recorded finding C11-b)
   1  state differs from the combination of the critical descendants, no crit-less aggregator below
   6  state differs from the combination of the counted children's reported states
   2  status differs from the combination of all descendants, no task-less aggregator below
   14 status differs from the combination of the children's reported statuses
   3  aggregator without critical descendant reports STANDBY instead of no opinion (C11-a)
   9  aggregator without critical descendant reports something else than INVARIANT / STANDBY
   10 an aggregator BELOW THE ROOT without any task below (iterators expanded to nothing) is in the
      tree and reports INACTIVE: its parent folds that in and cannot become ACTIVE.  The loader
      prunes such aggregators since 3e1e68b (was finding C11-c).  With [top = true] the node is
      the root of the workflow and is not judged on this: a workflow without any role has no task
      and nothing to fold, no update can ever arrive, the root says what the loader left
   15 aggregator without any task below reports something else than INACTIVE (as loaded) or
      UNDEFINED (what aggregateStatus makes of no roles) *)
Fixpoint snap_codes_r (top : bool) (stale : list (list nat)) (t : rtree) : list N :=
  match t with
  | Leaf _ _ _ => []
  | Agg s x cs =>
      let cst := crit_states t in
      let has_err := existsb (state_beq ERROR) cst in
      let invented := state_beq s ERROR && negb has_err in
      (if invented && match stale with [] => false | _ :: _ => true end then [7]
       else [ if has_err && negb (state_beq s ERROR) then 4 else 0;
              if invented then 5 else 0;
              if no_critless t && negb (state_beq s (spec_state cst)) then 1 else 0;
              if existsb counted cs &&
                 negb (state_beq s (spec_state (map st_of (filter counted cs)))) then 6 else 0 ])
      ++ [ if no_leafless t && negb (status_beq x (spec_status (leaf_stats t))) then 2 else 0;
           if match cs with [] => false | _ :: _ => true end &&
              negb (status_beq x (spec_status (map stat_of cs))) then 14 else 0;
           if negb (has_crit t) && negb (state_beq s INVARIANT)
           then (if state_beq s STANDBY then 3 else 9) else 0;
           if negb (has_leaf t)
           then (if status_beq x INACTIVE then (if top then 0 else 10)
                 else if status_beq x UNDEFINED then 0 else 15)
           else 0 ]
      ++ (fix go (i : nat) (l : list rtree) : list N :=
            match l with
            | [] => []
            | c :: r => snap_codes_r false (sub_paths i stale) c ++ go (S i) r
            end) O cs
  end.
(* every node judged alike / the node is the root of a workflow *)
Definition snap_codes := snap_codes_r false.
Definition snap_top := snap_codes_r true.

(* classes by priority: unrecorded classes first, so that a recorded finding never hides a
   different violation.  8 leaf does not report what it was last told / shape changed;
   13 ParentAdapter was not told the root's value; 11 result depends on the order of children;
   12 result depends on the order of updates to different tasks *)
Definition prio : list N := [8; 13; 4; 1; 6; 2; 14; 9; 15; 10; 5; 11; 12; 7; 3].
Definition pick_code (present : list N) : N :=
  match filter (fun c => memN c present) prio with [] => 0 | c :: _ => c end.

(* same shape, and every leaf changed only as [ok path old new] allows *)
Fixpoint leaves_ok (ok : list nat -> rtree -> rtree -> bool) (p : list nat) (a b : rtree)
         {struct a} : bool :=
  match a, b with
  | Leaf c _ _, Leaf c' _ _ => Bool.eqb c c' && ok (rev p) a b
  | Agg _ _ cs, Agg _ _ cs' =>
      (fix go (i : nat) (l m : list rtree) : bool :=
         match l, m with
         | [], [] => true
         | a' :: l', b' :: m' => leaves_ok ok (i :: p) a' b' && go (S i) l' m'
         | _, _ => false
         end) O cs cs'
  | _, _ => false
  end.

Definition leaf_same (a b : rtree) : bool :=
  state_beq (st_of a) (st_of b) && status_beq (stat_of a) (stat_of b).

Definition seq_leaf_ok (o : op) (p : list nat) (a b : rtree) : bool :=
  match o with
  | OpState q v => if path_eqb p q then state_beq (st_of b) v && status_beq (stat_of a) (stat_of b)
                   else leaf_same a b
  | OpStatus q v => if path_eqb p q then status_beq (stat_of b) v && state_beq (st_of a) (st_of b)
                    else leaf_same a b
  end.

(* interleaved state updates: a leaf ends with one of the values sent to it, or unchanged when
   nothing was sent to it *)
Definition conc_leaf_ok (ups : list (list nat * state)) (p : list nat) (a b : rtree) : bool :=
  status_beq (stat_of a) (stat_of b) &&
  match filter (fun u => path_eqb p (fst u)) ups with
  | [] => state_beq (st_of a) (st_of b)
  | mine => existsb (fun u => state_beq (snd u) (st_of b)) mine
  end.

(* two updates of different leaves: each of the two leaves ends with the value sent to it, every
   other leaf is unchanged *)
Definition gate_leaf_ok (oB oA : op) (p : list nat) (a b : rtree) : bool :=
  if path_eqb p (op_path oA) then seq_leaf_ok oA p a b
  else if path_eqb p (op_path oB) then seq_leaf_ok oB p a b
  else leaf_same a b.

Fixpoint mon_steps (t : rtree) (ops : list op) (obs : list step_obs) : list N :=
  match ops, obs with
  | o :: ops', ob :: obs' =>
      let t' := o_tree ob in
      (if leaves_ok (seq_leaf_ok o) [] t t' then 0 else 8) ::
      (if list_eqb N.eqb (o_adapter ob) (if propagates o t then [value_at o [] t'] else [])
       then 0 else 13) ::
      snap_top [] t' ++ mon_steps t' ops' obs'
  | _, _ => []
  end.

Definition stale_error_leaves (ups : list (list nat * state)) (final : rtree) : list (list nat) :=
  flat_map (fun u => if state_beq (snd u) ERROR &&
                        match st_at (fst u) final with
                        | Some s => negb (state_beq s ERROR)
                        | None => false
                        end then [fst u] else []) ups.

Definition mon11 (c : c11_case) : N :=
  match c with
  | CSeq mode t0 ops obs =>
      if N.eqb mode 2 then 0
      else pick_code (snap_top [] t0 ++ mon_steps t0 ops obs)
  | CConc t0 ups segs final adapter =>
      pick_code ((if leaves_ok (conc_leaf_ok ups) [] t0 final then 0 else 8) ::
                 snap_top (stale_error_leaves ups final) final)
  | CPerm t0 ops final pt t0' ops' final' =>
      if rtree_eqb (apply_perm pt final) final' then 0 else 11
  | CComm t0 ops1 final1 ops2 final2 =>
      if rtree_eqb final1 final2 then 0 else 12
  | CGate mode t0 pP oB oA parked blocked final adapter =>
      pick_code ((if leaves_ok (gate_leaf_ok oB oA) [] t0 final then 0 else 8) ::
                 snap_top [] final)
  end.

(* --- branch tags (measured input distribution) --- *)
(* bit set of the merge branches the updates of a case take:
   1 equal-keep, 2 MIXED shortcut, 4 ERROR shortcut, 8 recompute, 16 stopped at a non-critical
   leaf, 32 status equal-keep, 64 status UNDEFINED shortcut, 128 status recompute *)
Definition state_branch (cache s : state) : N :=
  if state_beq cache s then 1
  else if state_beq s MIXED && negb (state_beq cache ERROR) then 2
  else if state_beq s ERROR then 4 else 8.
Definition status_branch (cache s : status) : N :=
  if status_beq cache s then 32 else if status_beq s UNDEFINED then 64 else 128.

Fixpoint branches_state (p : list nat) (v : state) (t : rtree) {struct p} : N :=
  match p, t with
  | [], Leaf c _ _ => if c then 0 else 16
  | i :: p', Agg s _ cs =>
      match nth_error cs i with
      | Some c => N.lor (branches_state p' v c)
                        (match snd (upd_state p' v c) with
                         | Some inc => state_branch s inc
                         | None => 0 end)
      | None => 0
      end
  | _, _ => 0
  end.
Fixpoint branches_status (p : list nat) (v : status) (t : rtree) {struct p} : N :=
  match p, t with
  | i :: p', Agg _ x cs =>
      match nth_error cs i with
      | Some c => N.lor (branches_status p' v c)
                        (match snd (upd_status p' v c) with
                         | Some inc => status_branch x inc
                         | None => 0 end)
      | None => 0
      end
  | _, _ => 0
  end.
Fixpoint branches_ops (ops : list op) (t : rtree) : N :=
  match ops with
  | [] => 0
  | o :: r => N.lor (match o with
                     | OpState p v => branches_state p v t
                     | OpStatus p v => branches_status p v t end)
                    (branches_ops r (apply_op o t))
  end.

Definition tag11 (c : c11_case) : N :=
  match c with
  | CSeq mode t0 ops _ => 256 * mode + branches_ops ops t0
  | CConc t0 ups _ final _ =>
      1000 + (match stale_error_leaves ups final with [] => 0 | _ :: _ => 1 end)
           + (if no_critless t0 then 0 else 2)
  | CPerm _ _ _ _ _ _ _ => 2000
  | CComm _ _ _ _ _ => 3000
  | CGate _ _ _ oB _ parked _ _ _ =>
      4000 + (if parked then 1 else 0) + (if op_is_state oB then 0 else 2)
  end.

Definition report11 := report corr11 mon11 tag11.
