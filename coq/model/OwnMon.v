(* OwnMon.v — the properties C04 and C06 evaluated on what the implementation did: the monitors
   look only at the requests of a history and at the observations the harness recorded after each
   of them (never at the model's step function).  Also the branch tags and the two reports. *)
From Verif Require Import Common Ownership Teardown.
Open Scope N_scope.

Definition obs0 : obs := mkObs 0 [] [] [] [] [] [] [] 0 0 [] [].

Definition ob_find (o : obs) (id : tid) : option task := find_task id (ob_roster o).
Definition ob_env (o : obs) (e : N) : option envobs :=
  find (fun x => N.eqb (eo_id x) e) (ob_envs o).

(* the specification an environment was created from, looked up in the history *)
Fixpoint spec_of (e : N) (ops : list op) : option cspec :=
  match ops with
  | [] => None
  | OCreate e' c :: r => if N.eqb e e' then Some c else spec_of e r
  | OFinish e' c :: r => if N.eqb e e' then Some c else spec_of e r
  | _ :: r => spec_of e r
  end.

Definition role_of (ops : list op) (id : tid) : option role :=
  match spec_of (fst id) ops with
  | Some c => nth_error (c_roles c) (N.to_nat (snd id))
  | None => None
  end.

Definition is_hook_tid (ops : list op) (id : tid) : bool :=
  match role_of ops id with Some r => is_hook_task r | None => false end.

(* first non-zero code, the codes of [late] having the lowest priority (they are the classes of
   the defects the unchanged code is known to have: they must not hide anything else) *)
Definition first_code (late : list N) (codes : list N) : N :=
  match filter (fun c => negb (N.eqb c 0) && negb (memN c late)) codes with
  | c :: _ => c
  | [] => match filter (fun c => negb (N.eqb c 0)) codes with c :: _ => c | [] => 0 end
  end.

Definition share (a b : list N) : bool := existsb (fun d => memN d b) a.

(* pairs of listed environments that have a detector in common *)
Fixpoint overlapping (l : list envobs) : list (N * N) :=
  match l with
  | [] => []
  | x :: r => map (fun y => (eo_id x, eo_id y)) (filter (fun y => share (eo_dets x) (eo_dets y)) r)
              ++ overlapping r
  end.

Definition pair_mem (p : N * N) (l : list (N * N)) : bool :=
  existsb (fun q => N.eqb (fst p) (fst q) && N.eqb (snd p) (snd q)) l.

(* ================= C04 ================= *)
(* codes: 1 a detector in two listed environments, appearing at the end of an overlapped creation
          2 the same, appearing in any other step
          3 a task owned by another environment changed or left the roster
          4 KILL for a task owned by another environment
          5 transition command for a task not owned by the requesting environment
          9 the core process died inside the request
          6 an owned task lost its lock (parent kept, agent / executor id gone) without a failure of its executor / agent
          7 roster inconsistent (id twice / owner is not the environment the task was launched for)
          8 another environment's listing entry changed
          10 a listed environment does not hold exactly the detectors of its hosts *)
(* the environment that holds the lock on a task (parent role set and ids intact) *)
Definition lowner (t : task) : option N := if t_idok t then t_owner t else None.

Definition mon04_step (ops : list op) (prev : obs) (o : op) (cur : obs) : list N :=
  let me := op_env o in
  let mine (ow : option N) : bool :=
    match ow, me with Some a, Some b => N.eqb a b | _, _ => false end in
  let fresh_for_me (id : tid) : bool :=
    match ob_find prev id, me with None, Some e => N.eqb (fst id) e | _, _ => false end in
  let died (id : tid) : bool :=
    match o with ODies t => tid_eqb t id | OFail ids => mem_tid id ids | _ => false end in
  (* 7 *)
  let c7 := if nodupb tid_eqb (map t_id (ob_roster cur)) &&
               forallb (fun t => match t_owner t with Some e => N.eqb (fst (t_id t)) e | None => true end)
                       (ob_roster cur)
            then 0 else 7 in
  (* 3 *)
  let c3 := if forallb (fun t => match lowner t with
                                 | Some _ => mine (lowner t) || died (t_id t) ||
                                             match ob_find cur (t_id t) with
                                             | Some t' => task_eqb t t'
                                             | None => false
                                             end
                                 | None => true
                                 end) (ob_roster prev)
            then 0 else 3 in
  (* 6: a task that was locked keeps its parent but is not locked any more, although neither its
        executor / agent failed nor it died: something else wrote a field the lock predicate reads *)
  let c6 := if forallb (fun t => match lowner t with
                                 | Some _ => died (t_id t) ||
                                             match ob_find cur (t_id t) with
                                             | Some t' => negb (option_eqb N.eqb (t_owner t') (t_owner t)) || t_idok t'
                                             | None => true
                                             end
                                 | None => true
                                 end) (ob_roster prev)
            then 0 else 6 in
  (* 4 *)
  let c4 := if forallb (fun k => match ob_find prev k with
                                 | Some t => match lowner t with None => true | ow => mine ow end
                                 | None => fresh_for_me k
                                 end) (ob_kills cur)
            then 0 else 4 in
  (* 5 *)
  let c5 := if forallb (fun k => match ob_find prev k with
                                 | Some t => mine (lowner t)
                                 | None => fresh_for_me k
                                 end) (ob_cmds cur)
            then 0 else 5 in
  (* 8 *)
  let c8 := if forallb (fun x => match me with
                                 | Some e => N.eqb e (eo_id x)
                                 | None => false
                                 end ||
                                 match ob_env cur (eo_id x) with
                                 | Some y => eo_eqb x y
                                 | None => false
                                 end) (ob_envs prev)
            then 0 else 8 in
  (* 1 / 2 *)
  let newov := filter (fun p => negb (pair_mem p (overlapping (ob_envs prev)))) (overlapping (ob_envs cur)) in
  let c12 := match newov with
             | [] => 0
             | _ => match o with OFinish _ _ => 1 | _ => 2 end
             end in
  (* 9: the core process died inside the request (the harness reports status 99) *)
  let c9 := if N.eqb (ob_rc cur) 99 then 9 else 0 in
  (* 10: a listed environment does not hold exactly the detectors its hosts belong to (whatever the
         configuration glue between the core and the inventory answered) *)
  let c10 := if forallb (fun x => match spec_of (eo_id x) ops with
                                  | Some c => listN_eqb (eo_dets x) (dedupN (sortN (c_dets c)))
                                  | None => true
                                  end) (ob_envs cur)
             then 0 else 10 in
  [c9; c7; c6; c3; c4; c5; c8; c10; c12].

Fixpoint mon_walk (f : obs -> op -> obs -> list N) (prev : obs) (ops : list op) (l : list obs) : list N :=
  match ops, l with
  | o :: ops', cur :: l' => f prev o cur ++ mon_walk f cur ops' l'
  | _, _ => []
  end.

Definition mon04 (c : hcase) : N :=
  first_code [1]
    (mon_walk (mon04_step (h_ops c)) obs0 (h_ops c) (h_obs c) ++
     (if Nat.eqb (length (h_ops c)) (length (h_obs c)) then [] else [90])).   (* 90: the history did not complete *)

(* ================= C06 ================= *)
(* codes: 1 a DESTROY / after_DESTROY hook task is still owned by the environment that is gone
          2 any other task is still owned by it
          3 the environment is still listed although destroy returned success / creation returned an error
          4 a running task it owned was not asked to terminate (and the caller did not ask to keep tasks)
          5 a task it owned that was still staging was dropped from the roster without a KILL
          6 active detectors are not exactly those of the listed environments
          7 calls pending await were not cancelled
          8 a DESTROY hook started while a non-hook task was still owned by the environment
          9 a destroy request did not return (watchdog)
         10 / 11 a launched task leaked (see mon06_step) *)
Definition gone_checks (ops : list op) (e : N) (prev cur : obs) (keep : bool)
           (created : bool) : list N :=
  let c3 := match ob_env cur e with Some _ => 3 | None => 0 end in
  let mine := filter (fun t => owner_is e t) (ob_roster cur) in
  let c2 := if forallb (fun t => is_hook_tid ops (t_id t)) mine then 0 else 2 in
  let c1 := match filter (fun t => is_hook_tid ops (t_id t)) mine with [] => 0 | _ => 1 end in
  let still_mine (id : tid) : bool := existsb (fun t => tid_eqb (t_id t) id) mine in
  let killed (id : tid) : bool := mem_tid id (ob_kills cur) in
  (* tasks the environment owned before the request *)
  let c4a := if keep then 0
             else if forallb (fun t => negb (owner_is e t) || negb (t_active t) ||
                                       killed (t_id t) || still_mine (t_id t)) (ob_roster prev)
                  then 0 else 4 in
  (* tasks launched (hence owned) during a creation that failed: those reporting TASK_RUNNING
     must be KILLed (code 4), and so must those still staging at that moment (code 5) *)
  let launched := if created then filter (fun id => N.eqb (fst id) e) (ob_launch cur) else [] in
  let mode (id : tid) : N := match role_of ops id with Some r => r_launch r | None => 9 end in
  (* a launched task that never became owned may stay in the roster, unowned, for the next cleanup;
     the tasks of the non-final attempts of a retried deployment leak (code 10 of mon06_step, C06-d) *)
  let kept (id : tid) : bool :=
    existsb (fun t => tid_eqb (t_id t) id && negb (owner_is e t)) (ob_roster cur) ||
    match spec_of e ops with
    | Some c => N.eqb (c_fail c) 6 && N.ltb (snd id) (2 * Nlen (c_roles c)) && mem_tid id (ob_leak cur)
    | None => false
    end in
  let c4b := if forallb (fun id => negb (N.eqb (mode id) 0) || killed id || still_mine id || kept id) launched
             then 0 else 4 in
  let c5 := if forallb (fun id => negb (N.eqb (mode id) 2) || killed id || still_mine id || kept id) launched
            then 0 else 5 in
  let c7 := if N.eqb (ob_pend cur) 0 then 0 else 7 in
  [c3; c2; c4a; c4b; c7; c1; c5].

Definition mon06_step (ops : list op) (prev : obs) (o : op) (cur : obs) : list N :=
  let c6 := if listN_eqb (ob_adets cur) (dedupN (sortN (flat_map eo_dets (ob_envs cur)))) then 0 else 6 in
  let c8 := if N.eqb (ob_early cur) 0 then 0 else 8 in
  let specific :=
    match o with
    | ODestroy e _ _ keep _ =>
        (* only a request for an environment that was there, answered with success *)
        match ob_env prev e with
        | Some _ => if N.eqb (ob_rc cur) 0 then gone_checks ops e prev cur keep false else []
        | None => []
        end
    | OCreate e c => if N.eqb (ob_rc cur) 1 then gone_checks ops e prev cur false true else []
    | OFinish e c => if N.eqb (ob_rc cur) 1 then gone_checks ops e prev cur false true else []
    | _ => []
    end in
  (* 10 / 11: a task the core launched runs at the master, is in no roster and was never sent KILL.
     10: it was launched by a non-final attempt of a deployment that acquireTasks retried (repaired C06-d);
     11: any other *)
  let fresh := filter (fun id => negb (mem_tid id (ob_leak prev))) (ob_leak cur) in
  let early_attempt (id : tid) : bool :=
    match o with
    | OCreate e c | OFinish e c =>
        N.eqb (fst id) e && N.eqb (c_fail c) 6 && N.ltb (snd id) (2 * Nlen (c_roles c))
    | _ => false
    end in
  let c11 := if forallb early_attempt fresh then 0 else 11 in
  let c10 := match fresh with [] => 0 | _ => 10 end in
  c6 :: c8 :: c11 :: specific ++ [c10].

(* a history whose observations stop early: the request at that position did not return within the
   watchdog time.  For a destroy request that is the property itself (code 9: TeardownEnvironment or
   the task clean-up blocked); for anything else the run is just unusable (90; the harness re-runs
   such histories first). *)
Definition hang_code (c : hcase) : N :=
  match nth_error (h_ops c) (length (h_obs c)) with
  | Some (ODestroy _ _ _ _ _) => 9
  | _ => 90
  end.

Definition mon06 (c : hcase) : N :=
  first_code []
    (mon_walk (mon06_step (h_ops c)) obs0 (h_ops c) (h_obs c) ++
     (if Nat.ltb (length (h_obs c)) (length (h_ops c)) then [hang_code c]
      else if Nat.ltb (length (h_ops c)) (length (h_obs c)) then [90] else [])).

(* ================= branch tags (measured input distribution) ================= *)
(* bit 0 overlapped creation, 1 creation failed after insertion, 2 creation refused (detector / template),
   3 DESTROY hooks at two or more weights, 4 destroy forced / in a state that needs it, 5 keep-tasks,
   6 cleanup or kill while some environment owns tasks, 7 a task died, 8 destroy with DESTROY hooks,
   9 an executor / agent failed *)
Definition bit (b : bool) (k : N) : N := if b then N.shiftl 1 k else 0.

Definition weights_of (c : cspec) : list Z :=
  fold_right insZ []
    (flat_map (fun r => match r_kind r with RHookTask _ w => [w] | RHookCall _ w => [w] | _ => [] end)
              (c_roles c)).

Definition tag_step (ops : list op) (prev : obs) (o : op) (cur : obs) : list N :=
  [ match o with
    | OSnap _ _ => 1
    | OFinish e c | OCreate e c =>
        if N.eqb (ob_rc cur) 1
        then if existsb (fun r => N.eqb (r_launch r) 1 || r_cfgerr r) (c_roles c) || N.eqb (c_fail c) 4
             then 2 else 4
        else 0
    | ODestroy e force _ keep _ =>
        match ob_env prev e with
        | None => 0
        | Some x =>
            bit (force || negb (N.eqb (eo_state x) 2 || N.eqb (eo_state x) 1 || N.eqb (eo_state x) 0)) 4
            + bit keep 5
            + match spec_of e ops with
              | Some c => bit (Nat.leb 2 (length (weights_of c))) 3 + bit (Nat.leb 1 (length (weights_of c))) 8
              | None => 0
              end
        end
    | OCleanup | OKill _ => bit (existsb is_locked (ob_roster prev)) 6
    | ODies _ => 128
    | OFail _ => 512
    | ORecon => 1024
    | ORefuse _ => 2048
    | OCleanupStale _ => 4096
    | _ => 0
    end ].

Definition tag_h (c : hcase) : N :=
  fold_left N.lor (mon_walk (tag_step (h_ops c)) obs0 (h_ops c) (h_obs c)) 0.

Definition report04 := report corr_h mon04 tag_h.
Definition report06 := report corr_h mon06 tag_h.
