(* Model of the hook machinery of core/environment/environment.go:
     handleHooks (four phases per weight, callsPendingAwait), the four looplab/fsm callback
     moments with their built-in work and cancel rules, runTasksAsHooks (collector loop),
     the run number / run timestamps bookkeeping (before_event / leave_state / after_event,
     manager.go teardown), callable.ParseTriggerExpression and HooksMap.GetWeights.
   Serves C08 (order / await), C09 (failures), C10 (run number and timestamps).
   Definitions only: the executable model, the case type written by harness/cmd/h08, the
   correspondence check [corr08] and the monitors [mon08] [mon09] [mon10].               *)
From Verif Require Export Common.
From Verif Require Import Gen_HookFail Gen_StartArgs.
From Coq Require Import ZArith List Bool.
Import ListNotations.
Open Scope N_scope.

(* ------------------------------------------------------------------ states, events, moments *)

Inductive st := STANDBY | DEPLOYED | CONFIGURED | RUNNING | ERROR | DONE.
Inductive evt := DEPLOY | CONFIGURE | RESET | START_ACTIVITY | STOP_ACTIVITY | EXIT | GO_ERROR | RECOVER.

Definition st_code (s : st) : N :=
  match s with STANDBY => 0 | DEPLOYED => 1 | CONFIGURED => 2 | RUNNING => 3 | ERROR => 4 | DONE => 5 end.
Definition evt_code (e : evt) : N :=
  match e with DEPLOY => 0 | CONFIGURE => 1 | RESET => 2 | START_ACTIVITY => 3 | STOP_ACTIVITY => 4
             | EXIT => 5 | GO_ERROR => 6 | RECOVER => 7 end.
Definition st_eqb (a b : st) : bool := st_code a =? st_code b.
Definition evt_eqb (a b : evt) : bool := evt_code a =? evt_code b.

(* fsm.Events table of newEnvironment *)
Definition dst_of (e : evt) (s : st) : option st :=
  match e, s with
  | DEPLOY, STANDBY => Some DEPLOYED
  | CONFIGURE, DEPLOYED => Some CONFIGURED
  | RESET, CONFIGURED => Some DEPLOYED
  | START_ACTIVITY, CONFIGURED => Some RUNNING
  | STOP_ACTIVITY, RUNNING => Some CONFIGURED
  | EXIT, CONFIGURED | EXIT, DEPLOYED | EXIT, STANDBY => Some DONE
  | GO_ERROR, STANDBY | GO_ERROR, CONFIGURED | GO_ERROR, DEPLOYED | GO_ERROR, RUNNING => Some ERROR
  | RECOVER, ERROR => Some DEPLOYED
  | _, _ => None
  end.

(* trigger names: before_<event>, leave_<state>, enter_<state>, after_<event>, DESTROY,
   after_DESTROY, anything else (never reached by the state machine) *)
Inductive mname :=
| MBefore (e : evt) | MLeave (s : st) | MEnter (s : st) | MAfter (e : evt)
| MDestroy | MAfterDestroy | MOther (n : N).

Definition mname_code (m : mname) : N * N :=
  match m with
  | MBefore e => (0, evt_code e) | MLeave s => (1, st_code s) | MEnter s => (2, st_code s)
  | MAfter e => (3, evt_code e) | MDestroy => (4, 0) | MAfterDestroy => (5, 0) | MOther n => (6, n)
  end.
Definition mname_eqb (a b : mname) : bool :=
  let '(a1, a2) := mname_code a in let '(b1, b2) := mname_code b in (a1 =? b1) && (a2 =? b2).

(* a point of the state machine: moment name + weight *)
Definition point := (mname * Z)%type.
Definition point_eqb (a b : point) : bool := mname_eqb (fst a) (fst b) && Z.eqb (snd a) (snd b).

(* ------------------------------------------------------------------ hooks *)

Inductive hkind := HCall | HTask.
Record hook := mkHook {
  h_id : N; h_kind : hkind; h_trig : point; h_await : point; h_crit : bool }.

Definition is_call (h : hook) : bool := match h_kind h with HCall => true | HTask => false end.
Definition is_task (h : hook) : bool := negb (is_call h).

(* one started call: which hook, during which operation, whether the called function will
   report an error (oracle), whether the hook is critical *)
Record inst := mkInst { i_hook : N; i_op : N; i_fail : bool; i_crit : bool }.
Definition inst_eqb (a b : inst) : bool := (i_hook a =? i_hook b) && (i_op a =? i_op b).

(* ------------------------------------------------------------------ run variables (C10) *)

Inductive sv := SAbsent | SEmpty | SSet (t : N).     (* a user variable: missing, "", a time *)
Record rvars := mkRv {
  rv_rn : N;               (* Environment.currentRunNumber, 0 = none *)
  rv_var : option N;       (* workflow vars run_number / runNumber *)
  rv_sosor : sv; rv_eosor : sv; rv_soeor : sv; rv_eoeor : sv }.
Definition rv0 : rvars := mkRv 0 None SAbsent SAbsent SAbsent SAbsent.

(* ------------------------------------------------------------------ environment state *)

Record est := mkEst {
  e_st : st;
  e_pend : list (point * inst);   (* callsPendingAwait, flattened, in registration order *)
  e_rv : rvars;
  e_clock : N;                    (* logical clock of time.Now() readings *)
  e_ctr : N;                      (* run counter in the configuration backend *)
  e_stale : list (list N) }.      (* always []: hook-task collector goroutines left behind by a
                                     failed trigger command (none since the repair of C09-d) *)

Definition est0 (s : st) : est := mkEst s [] rv0 1 0 [].

Definition set_st (x : st) (s : est) := mkEst x (e_pend s) (e_rv s) (e_clock s) (e_ctr s) (e_stale s).
Definition set_pend (p : list (point * inst)) (s : est) := mkEst (e_st s) p (e_rv s) (e_clock s) (e_ctr s) (e_stale s).
Definition set_rv (r : rvars) (s : est) := mkEst (e_st s) (e_pend s) r (e_clock s) (e_ctr s) (e_stale s).
Definition tick (s : est) := mkEst (e_st s) (e_pend s) (e_rv s) (N.succ (e_clock s)) (e_ctr s) (e_stale s).
Definition add_stale (g : list N) (s : est) := mkEst (e_st s) (e_pend s) (e_rv s) (e_clock s) (e_ctr s) (e_stale s ++ [g]).

(* ------------------------------------------------------------------ trace *)

Inductive stepname := SMoment (m : mname) | STasks (e : evt).
Definition stepname_eqb (a b : stepname) : bool :=
  match a, b with
  | SMoment x, SMoment y => mname_eqb x y
  | STasks x, STasks y => evt_eqb x y
  | _, _ => false
  end.

(* run events: transition (event code, 8 = TEARDOWN), status 0 STARTED 1 DONE_OK 2 DONE_ERROR *)
Inductive tev :=
| TStart (i : inst) (h : hook) (snap : rvars)  (* Calls.StartAll: call started (asynchronous) *)
| TCollect (i : inst) (at_ : point)            (* Calls.AwaitAll returned for this call *)
| TTasks (hs : list N) (at_ : point)           (* hook tasks of one weight triggered and awaited *)
| TStep (n : stepname) (begin : bool) (err : bool)  (* published "transition step" event *)
| TBody (e : evt)                              (* the task transition *)
| TRun (tr : N) (status : N) (rn : N)          (* published run event = built-in work marker *)
| TCancel (i : inst)                           (* teardown: Call.Cancel *)
| TUnsure (at_ : point)                        (* hook tasks triggered while a stale collector
                                                  competes for their termination events *)
| TCrash (at_ : point).                        (* the core died *)

(* ------------------------------------------------------------------ sorted distinct weights *)
(* HooksMap.GetWeights: keys of a map, sorted ascending *)
Fixpoint zinsert (x : Z) (l : list Z) : list Z :=
  match l with
  | [] => [x]
  | y :: r => if (x <? y)%Z then x :: l else if (x =? y)%Z then l else y :: zinsert x r
  end.
Definition zsort_uniq (l : list Z) : list Z := fold_right zinsert [] l.

Definition wneg (w : Z) : bool := (w <? 0)%Z.
Definition wnonneg (w : Z) : bool := (0 <=? w)%Z.
Definition wall (w : Z) : bool := true.

Definition trig_weights (hooks : list hook) (m : mname) : list Z :=
  map (fun h => snd (h_trig h)) (filter (fun h => mname_eqb (fst (h_trig h)) m) hooks).
Definition pend_weights (m : mname) (p : list (point * inst)) : list Z :=
  map (fun e => snd (fst e)) (filter (fun e => mname_eqb (fst (fst e)) m) p).

(* await weights, at this very moment, of the calls this moment starts *)
Definition await_weights (hooks : list hook) (m : mname) : list Z :=
  map (fun h => snd (h_await h))
      (filter (fun h => is_call h && mname_eqb (fst (h_trig h)) m && mname_eqb (fst (h_await h)) m) hooks).

(* the weights one handleHooks call visits, fixed on entry: trigger weights of the moment, await
   weights at this moment of the calls it will start, weights with calls already pending *)
Definition pass_weights (hooks : list hook) (m : mname) (pred : Z -> bool) (s : est) : list Z :=
  filter pred (zsort_uniq (trig_weights hooks m ++ await_weights hooks m ++ pend_weights m (e_pend s))).

(* ------------------------------------------------------------------ hook tasks: collector loop *)
(* runTasksAsHooks: one timer per hook; events are timeouts and BASIC_TASK_TERMINATED *)
(* HTerm: a BASIC_TASK_TERMINATED report; [nonzero]: its exit code satisfies the failure
   comparison of runTasksAsHooks (read from the source: Gen_HookFail) *)
Inductive hev := HTimeout (h : N) | HTerm (h : N) (nonzero : bool) (voluntary : bool).

Definition exit_fails (c : Z) : bool :=
  match gen_exit_op with
  | 0 => negb (c =? gen_exit_lit)%Z
  | 1 => (gen_exit_lit <? c)%Z
  | 2 => (c <? gen_exit_lit)%Z
  | 3 => (gen_exit_lit <=? c)%Z
  | 4 => (c <=? gen_exit_lit)%Z
  | _ => (c =? gen_exit_lit)%Z
  end.
(* does a termination report (exit code, voluntary) count as a failure of the hook task *)
Definition term_fails (c : Z) (vol : bool) : bool := exit_fails c || (gen_invol_fails && negb vol).
Inductive loopres := LDone (errs : list N) | LCrash.

Fixpoint remN (x : N) (l : list N) : list N :=
  match l with [] => [] | y :: r => if x =? y then remN x r else y :: remN x r end.

(* When the scripted events are exhausted every timer that is still armed fires.  The
   termination of a hook whose timer is gone (it timed out before) is ignored.  [LCrash] is no
   longer produced by the loop (it used to be: Stop() on a nil timer). *)
Fixpoint hook_loop (group timers errs succ : list N) (sched : list hev) : loopres :=
  match sched with
  | [] => LDone (timers ++ errs)
  | ev :: r =>
    match ev with
    | HTimeout h =>
      if memN h group && memN h timers then
        let timers' := remN h timers in
        match timers' with
        | [] => LDone (h :: errs)
        | _ => hook_loop group timers' (h :: errs) succ r
        end
      else hook_loop group timers errs succ r   (* "no timer in timers map" *)
    | HTerm h nz vol =>
      if negb (memN h group) then hook_loop group timers errs succ r   (* continue *)
      else if negb (memN h timers) then hook_loop group timers errs succ r   (* late: ignored *)
      else
        let timers' := remN h timers in
        let bad := nz || (gen_invol_fails && negb vol) in
        let errs' := if bad then h :: errs else errs in
        let succ' := if bad then succ else h :: succ in
        match timers' with
        | [] => LDone (if (Nlen succ' =? Nlen group) then [] else errs')
        | _ => hook_loop group timers' errs' succ' r
        end
    end
  end.

(* scripted outcome of one hook task *)
(* TTermX: a prompt termination report with the given exit code, voluntary flag and final Mesos
   state (0 TASK_FINISHED, 1 TASK_FAILED, 2 TASK_KILLED; not looked at by the code) *)
Inductive tout := TOk | TExit | TInvol | TTimeout | TLate | TOkSlow | TTrigFail
                | TTermX (code : Z) (vol : bool) (fin : N).
Definition tout_code (o : tout) : N :=
  match o with TOk => 0 | TExit => 1 | TInvol => 2 | TTimeout => 3 | TLate => 4 | TOkSlow => 5 | TTrigFail => 6
             | TTermX _ _ _ => 7 end.
Definition tout_eqb (a b : tout) : bool := tout_code a =? tout_code b.

Definition tout_of (touts : list (N * tout)) (h : N) : tout :=
  match assocN h touts with Some o => o | None => TOk end.

(* the schedule the simulated executors of the harness realise: prompt terminations in group
   order, then the time-outs of the silent ones, then the late terminations, then the slow
   successful ones *)
Definition sched_of (group : list N) (touts : list (N * tout)) : list hev :=
  let is o h := tout_eqb (tout_of touts h) o in
  flat_map (fun h => match tout_of touts h with
                     | TOk => [HTerm h (exit_fails 0) true] | TExit => [HTerm h (exit_fails 3) true]
                     | TInvol => [HTerm h (exit_fails 0) false]
                     | TTermX c v _ => [HTerm h (exit_fails c) v] | _ => [] end) group
  ++ map HTimeout (filter (fun h => is TTimeout h || is TLate h) group)
  ++ map (fun h => HTerm h (exit_fails 0) true) (filter (is TLate) group)
  ++ map (fun h => HTerm h (exit_fails 0) true) (filter (is TOkSlow) group).

(* result of running the hook tasks of one weight: failing hook ids, or crash *)
Definition trig_fails (group : list N) (touts : list (N * tout)) : bool :=
  existsb (fun h => tout_eqb (tout_of touts h) TTrigFail) group.

Definition run_tasks (group : list N) (touts : list (N * tout)) : loopres :=
  match group with
  | [] => LDone []
  | _ =>
    if trig_fails group touts
    then LDone group        (* hookHandlerF failed: collector stopped, every hook gets the error *)
    else hook_loop group group [] [] (sched_of group touts)
  end.

(* ------------------------------------------------------------------ one weight, one pass *)

(* critical failures found at one weight *)
Record wfail := mkWfail {
  wf_calls : list inst;      (* failing critical calls collected here *)
  wf_tasks : list N;         (* failing critical hook tasks *)
  wf_named : bool }.         (* task failures carry the task name (false: trigger failure) *)

Definition wfail_count (f : wfail) : N := Nlen (wf_calls f) + Nlen (wf_tasks f).

Inductive pres := POk | PFail (m : mname) (f : wfail) | PCrash.

(* per-operation oracle *)
Record oracle := mkOracle {
  or_op : N;                      (* index of the operation: names the instances it starts *)
  or_fail : list N;               (* call hooks whose instance started now will fail *)
  or_touts : list (N * tout);     (* hook task outcomes *)
  or_steal : list (N * N) }.      (* hook task -> stale collector (1-based) receiving its termination *)

Definition steal_of (orc : oracle) (h : N) : N :=
  match assocN h (or_steal orc) with Some k => k | None => 0 end.

Definition hooks_at (hooks : list hook) (p : point) : list hook :=
  filter (fun h => point_eqb (h_trig h) p) hooks.

Definition new_inst (orc : oracle) (h : hook) : inst :=
  mkInst (h_id h) (or_op orc) (memN (h_id h) (or_fail orc)) (h_crit h).

Definition at_point (p : point) (e : point * inst) : bool := point_eqb (fst e) p.

Definition crit_of (hooks : list hook) (id : N) : bool :=
  existsb (fun h => (h_id h =? id) && h_crit h) hooks.

(* returns: new state, trace, critical failures (None = none), crashed *)
Definition do_weight (hooks : list hook) (orc : oracle) (m : mname) (w : Z) (s : est)
  : est * list tev * option wfail * bool :=
  let hs := hooks_at hooks (m, w) in
  (* phase 1: start calls, register each under its await point *)
  let calls := filter is_call hs in
  let t1 := map (fun h => TStart (new_inst orc h) h (e_rv s)) calls in
  let pend1 := e_pend s ++ map (fun h => (h_await h, new_inst orc h)) calls in
  (* phase 2: await everything pending at this very point *)
  let coll := map snd (filter (at_point (m, w)) pend1) in
  let pend2 := filter (fun e => negb (at_point (m, w) e)) pend1 in
  let t2 := map (fun i => TCollect i (m, w)) coll in
  let cfail := filter (fun i => i_fail i && i_crit i) coll in
  (* phase 3: hook tasks, synchronously *)
  let tasks := map h_id (filter is_task hs) in
  let t3 := match tasks with
            | [] => []
            | _ => [TTasks tasks (m, w)]
            end in
  let trigfail := match tasks with [] => false | _ => trig_fails tasks (or_touts orc) end in
  let s2 := set_pend pend2 s in
  match run_tasks tasks (or_touts orc) with
  | LCrash => (s2, t1 ++ t2 ++ t3 ++ [TCrash (m, w)], None, true)
  | LDone errs =>
    let tfail := filter (crit_of hooks) (filter (fun h => memN h errs) tasks) in
    let named := negb trigfail in
    (* phase 4 *)
    match cfail, tfail with
    | [], [] => (s2, t1 ++ t2 ++ t3, None, false)
    | _, _ => (s2, t1 ++ t2 ++ t3, Some (mkWfail cfail tfail named), false)
    end
  end.

Fixpoint pass_loop (hooks : list hook) (orc : oracle) (m : mname) (ws : list Z) (s : est)
  : est * list tev * pres :=
  match ws with
  | [] => (s, [], POk)
  | w :: r =>
    let '(s1, t1, f, crash) := do_weight hooks orc m w s in
    if crash then (s1, t1, PCrash)
    else match f with
         | Some wf => (s1, t1, PFail m wf)     (* stop beyond the current weight *)
         | None => let '(s2, t2, p) := pass_loop hooks orc m r s1 in (s2, t1 ++ t2, p)
         end
  end.

(* handleHooks(workflow, trigger, weightPredicate) *)
Definition run_pass (hooks : list hook) (orc : oracle) (m : mname) (pred : Z -> bool) (s : est)
  : est * list tev * pres :=
  pass_loop hooks orc m (pass_weights hooks m pred s) s.

(* ------------------------------------------------------------------ built-in work (C10) *)

Definition is_empty (v : sv) : bool := match v with SEmpty => true | _ => false end.
Definition run_tr_code (e : evt) : N := evt_code e.
Definition TEARDOWN_code : N := 8.

Definition set_soeor_if_empty (s : est) : est * bool :=
  if is_empty (rv_soeor (e_rv s)) then
    let r := e_rv s in
    (tick (set_rv (mkRv (rv_rn r) (rv_var r) (rv_sosor r) (rv_eosor r) (SSet (e_clock s)) (rv_eoeor r)) s), true)
  else (s, false).
Definition set_eoeor_if_empty (s : est) : est * bool :=
  if is_empty (rv_eoeor (e_rv s)) then
    let r := e_rv s in
    (tick (set_rv (mkRv (rv_rn r) (rv_var r) (rv_sosor r) (rv_eosor r) (rv_soeor r) (SSet (e_clock s))) s), true)
  else (s, false).

(* before_event, between the negative and the non-negative hooks *)
Definition builtin_before (e : evt) (s : est) : est * list tev :=
  match e with
  | START_ACTIVITY =>
    let n := N.succ (e_ctr s) in
    let r := mkRv n (Some n) (SSet (e_clock s)) SEmpty SEmpty SEmpty in
    (mkEst (e_st s) (e_pend s) r (N.succ (e_clock s)) n (e_stale s), [TRun (run_tr_code e) 0 n])
  | STOP_ACTIVITY | GO_ERROR =>
    let '(s', done) := set_soeor_if_empty s in
    (s', if done then [TRun (run_tr_code e) 0 (rv_rn (e_rv s))] else [])
  | _ => (s, [])
  end.

(* leave_state, after the negative hooks (also when they failed) *)
Definition builtin_leave (src : st) (s : est) : est :=
  match src with RUNNING => fst (set_soeor_if_empty s) | _ => s end.

(* after_event, between the negative and the non-negative hooks; [err]: e.Err is set *)
Definition builtin_after (e : evt) (err : bool) (s : est) : est * list tev :=
  let r := e_rv s in
  let status := if err then 2 else 1 in
  match e with
  | START_ACTIVITY =>
    (tick (set_rv (mkRv (rv_rn r) (rv_var r) (rv_sosor r) (SSet (e_clock s)) (rv_soeor r) (rv_eoeor r)) s),
     [TRun (run_tr_code e) status (rv_rn r)])
  | STOP_ACTIVITY =>
    (tick (set_rv (mkRv (rv_rn r) (rv_var r) (rv_sosor r) (rv_eosor r) (rv_soeor r) (SSet (e_clock s))) s),
     [TRun (run_tr_code e) status (rv_rn r)])
  | GO_ERROR =>
    let '(s', done) := set_eoeor_if_empty s in
    (s', if done then [TRun (run_tr_code e) 1 (rv_rn r)] else [])
  | _ => (s, [])
  end.

(* the very end of after_STOP_ACTIVITY *)
Definition drop_run_number (e : evt) (s : est) : est :=
  match e with
  | STOP_ACTIVITY =>
    let r := e_rv s in set_rv (mkRv 0 None (rv_sosor r) (rv_eosor r) (rv_soeor r) (rv_eoeor r)) s
  | _ => s
  end.

(* ------------------------------------------------------------------ operations *)

(* body of the transition: succeeds, fails (error only), fails as the real START_ACTIVITY
   transition does (also zeroes currentRunNumber) *)
Inductive body := BOk | BFail | BFailReal.

Inductive opkind :=
| OEvent (e : evt)      (* TryTransition *)
| OInvalid              (* an event name the state machine does not know *)
| OForceError           (* error watcher: try GO_ERROR, force the state if that fails *)
| OLeaveCancel          (* leave_<state> hooks of all weights, then cancel pending calls *)
| OTeardown.            (* TeardownEnvironment *)

Record op := mkOp { o_kind : opkind; o_body : body; o_fail : list N; o_touts : list (N * tout);
                    o_steal : list (N * N) }.

Inductive perr := PE (m : mname) (f : wfail).
Inductive result := ROk | RHook (l : list perr) | RBody | RInvalid | RCrash.

Definition bstep (n : stepname) := TStep n true false.
Definition estep (n : stepname) (err : bool) := TStep n false err.

Definition zero_rn (s : est) : est :=
  let r := e_rv s in set_rv (mkRv 0 (rv_var r) (rv_sosor r) (rv_eosor r) (rv_soeor r) (rv_eoeor r)) s.

Definition perrs (m : mname) (p : pres) : list perr :=
  match p with PFail m' f => [PE m' f] | _ => [] end.
Definition is_crash (p : pres) : bool := match p with PCrash => true | _ => false end.
Definition nonnil {A} (l : list A) : bool := match l with [] => false | _ => true end.

(* ---- the four callbacks of newEnvironment.  Each returns the new state, the trace including
   its published step events, the errors it raised, and whether the core died in it. *)

(* before_event: negative hooks; built-in work; non-negative hooks.  A failure cancels at once. *)
Definition before_stage (hooks : list hook) (orc : oracle) (e : evt) (s : est)
  : est * list tev * list perr * bool :=
  let n := SMoment (MBefore e) in
  let '(s1, t1, p1) := run_pass hooks orc (MBefore e) wneg s in
  match p1 with
  | PCrash => (s1, bstep n :: t1, [], true)
  | PFail m f => (s1, bstep n :: t1 ++ [estep n true], [PE m f], false)
  | POk =>
    let '(s2, tb) := builtin_before e s1 in
    let '(s3, t3, p3) := run_pass hooks orc (MBefore e) wnonneg s2 in
    match p3 with
    | PCrash => (s3, bstep n :: t1 ++ tb ++ t3, [], true)
    | PFail m f => (s3, bstep n :: t1 ++ tb ++ t3 ++ [estep n true], [PE m f], false)
    | POk => (s3, bstep n :: t1 ++ tb ++ t3 ++ [estep n false], [], false)
    end
  end.

(* leave_state up to the task transition: the built-in work runs even when the negative hooks
   failed *)
Definition leave_stage (hooks : list hook) (orc : oracle) (src : st) (s : est)
  : est * list tev * list perr * bool :=
  let n := SMoment (MLeave src) in
  let '(s1, t1, p1) := run_pass hooks orc (MLeave src) wneg s in
  match p1 with
  | PCrash => (s1, bstep n :: t1, [], true)
  | PFail m f => (builtin_leave src s1, bstep n :: t1 ++ [estep n true], [PE m f], false)
  | POk =>
    let s2 := builtin_leave src s1 in
    let '(s3, t3, p3) := run_pass hooks orc (MLeave src) wnonneg s2 in
    match p3 with
    | PCrash => (s3, bstep n :: t1 ++ t3, [], true)
    | PFail m f => (s3, bstep n :: t1 ++ t3 ++ [estep n true], [PE m f], false)
    | POk => (s3, bstep n :: t1 ++ t3 ++ [estep n false], [], false)
    end
  end.

(* enter_state: both passes always run, the errors are joined *)
Definition enter_stage (hooks : list hook) (orc : oracle) (d : st) (s : est)
  : est * list tev * list perr * bool :=
  let n := SMoment (MEnter d) in
  let '(s1, t1, p1) := run_pass hooks orc (MEnter d) wneg s in
  if is_crash p1 then (s1, bstep n :: t1, [], true) else
  let '(s2, t2, p2) := run_pass hooks orc (MEnter d) wnonneg s1 in
  if is_crash p2 then (s2, bstep n :: t1 ++ t2, [], true) else
  let errs := perrs (MEnter d) p1 ++ perrs (MEnter d) p2 in
  (s2, bstep n :: t1 ++ t2 ++ [estep n (nonnil errs)], errs, false).

(* after_event: both passes always run; [err0]: e.Err was already set by enter_state *)
Definition after_stage (hooks : list hook) (orc : oracle) (e : evt) (err0 : bool) (s : est)
  : est * list tev * list perr * bool :=
  let n := SMoment (MAfter e) in
  let '(s1, t1, p1) := run_pass hooks orc (MAfter e) wneg s in
  if is_crash p1 then (s1, bstep n :: t1, [], true) else
  let '(s2, ta) := builtin_after e (err0 || nonnil (perrs (MAfter e) p1)) s1 in
  let '(s3, t3, p3) := run_pass hooks orc (MAfter e) wnonneg s2 in
  if is_crash p3 then (s3, bstep n :: t1 ++ ta ++ t3, [], true) else
  let errs := perrs (MAfter e) p1 ++ perrs (MAfter e) p3 in
  (drop_run_number e s3, bstep n :: t1 ++ ta ++ t3 ++ [estep n (err0 || nonnil errs)], errs, false).

Definition body_trace (e : evt) (ok : bool) : list tev :=
  [bstep (STasks e); TBody e; estep (STasks e) (negb ok)].

(* Sm.Event *)
Definition transition (hooks : list hook) (orc : oracle) (e : evt) (b : body) (s : est)
  : est * list tev * result :=
  match dst_of e (e_st s) with
  | None => (s, [], RInvalid)
  | Some d =>
    let src := e_st s in
    let '(s1, tB, eB, cB) := before_stage hooks orc e s in
    if cB then (s1, tB, RCrash) else
    match eB with
    | _ :: _ => (s1, tB, RHook eB)
    | [] =>
      let '(s2, tL, eL, cL) := leave_stage hooks orc src s1 in
      if cL then (s2, tB ++ tL, RCrash) else
      match eL with
      | _ :: _ => (s2, tB ++ tL, RHook eL)
      | [] =>
        match b with
        | BFail => (s2, tB ++ tL ++ body_trace e false, RBody)
        | BFailReal =>
          ((match e with START_ACTIVITY => zero_rn s2 | _ => s2 end), tB ++ tL ++ body_trace e false, RBody)
        | BOk =>
          let s3 := set_st d s2 in
          let '(s4, tE, eE, cE) := enter_stage hooks orc d s3 in
          if cE then (s4, tB ++ tL ++ body_trace e true ++ tE, RCrash) else
          let '(s5, tA, eA, cA) := after_stage hooks orc e (nonnil eE) s4 in
          if cA then (s5, tB ++ tL ++ body_trace e true ++ tE ++ tA, RCrash) else
          (* after_event joins its errors with the one enter_state left in e.Err *)
          (s5, tB ++ tL ++ body_trace e true ++ tE ++ tA,
           match eE ++ eA with
           | _ :: _ => RHook (eE ++ eA)
           | [] => ROk
           end)
        end
      end
    end
  end.

Definition oracle_of (i : N) (o : op) : oracle := mkOracle i (o_fail o) (o_touts o) (o_steal o).

(* leave_<state> hooks of all weights (teardown) *)
Definition leave_all (hooks : list hook) (orc : oracle) (s : est) : est * list tev * pres :=
  run_pass hooks orc (MLeave (e_st s)) wall s.

Definition cancel_all (s : est) : list tev := map (fun e => TCancel (snd e)) (e_pend s).

(* manager.go TeardownEnvironment: end stamps if still RUNNING *)
Definition teardown_stamps (s : est) : est * list tev :=
  match e_st s with
  | RUNNING =>
    let rn := rv_rn (e_rv s) in
    let '(s1, d1) := set_soeor_if_empty s in
    let '(s2, d2) := set_eoeor_if_empty s1 in
    (s2, (if d1 then [TRun TEARDOWN_code 0 rn] else []) ++ (if d2 then [TRun TEARDOWN_code 0 rn] else []))
  | _ => (s, [])
  end.

(* DESTROY / after_DESTROY hooks: calls are made synchronously one after the other
   (Calls.CallAll), hook tasks are only triggered *)
Definition destroy_weights (hooks : list hook) : list Z :=
  zsort_uniq (trig_weights hooks MDestroy ++ trig_weights hooks MAfterDestroy).
Definition destroy_hooks_at (hooks : list hook) (w : Z) : list hook :=
  (* the after_DESTROY hooks of a weight are appended to its DESTROY hooks (they used to replace
     them: former finding C08-b) *)
  hooks_at hooks (MDestroy, w) ++ hooks_at hooks (MAfterDestroy, w).
Definition destroy_trace (hooks : list hook) (orc : oracle) (s : est) : list tev :=
  flat_map (fun w =>
    let hs := destroy_hooks_at hooks w in
    flat_map (fun h => [TStart (new_inst orc h) h (e_rv s); TCollect (new_inst orc h) (h_trig h)])
             (filter is_call hs)
    ++ match map h_id (filter is_task hs) with [] => [] | ts => [TTasks ts (MDestroy, w)] end)
    (destroy_weights hooks).

(* Environment.ForceError: nothing when DONE; while RUNNING the open run is closed first (end
   stamps, each only if still empty, with their run events), as a teardown while RUNNING does *)
Definition force_error (s : est) : est * list tev :=
  match e_st s with
  | DONE => (s, [])
  | RUNNING =>
    let rn := rv_rn (e_rv s) in
    let '(s1, d1) := set_soeor_if_empty s in
    let '(s2, d2) := set_eoeor_if_empty s1 in
    (set_st ERROR s2, (if d1 then [TRun 6 0 rn] else []) ++ (if d2 then [TRun 6 0 rn] else []))
  | _ => (set_st ERROR s, [])
  end.

Definition run_op (hooks : list hook) (i : N) (o : op) (s : est) : est * list tev * result :=
  let orc := oracle_of i o in
  match o_kind o with
  | OEvent e => transition hooks orc e (o_body o) s
  | OInvalid => (s, [], RInvalid)
  | OForceError =>
    let '(s1, t, r) := transition hooks orc GO_ERROR (o_body o) s in
    match r with
    | ROk | RCrash => (s1, t, r)
    | _ => let '(s2, tf) := force_error s1 in (s2, t ++ tf, r)
    end
  | OLeaveCancel =>
    let '(s1, t, p) := leave_all hooks orc s in
    match p with
    | PCrash => (s1, t, RCrash)
    | PFail m f => (s1, t ++ cancel_all s1, RHook [PE m f])
    | POk => (s1, t ++ cancel_all s1, ROk)
    end
  | OTeardown =>
    let '(s1, t, p) := leave_all hooks orc s in
    if is_crash p then (s1, t, RCrash) else
    let '(s2, ts) := teardown_stamps s1 in
    let td := destroy_trace hooks orc s2 in
    (set_st DONE s2, t ++ ts ++ td ++ cancel_all s2, ROk)
  end.

(* a whole history; stops at a crash *)
Fixpoint run_ops (hooks : list hook) (i : N) (ops : list op) (s : est)
  : est * list (list tev * result * est) :=
  match ops with
  | [] => (s, [])
  | o :: r =>
    let '(s1, t, res) := run_op hooks i o s in
    match res with
    | RCrash => (s1, [(t, res, s1)])
    | _ => let '(s2, l) := run_ops hooks (N.succ i) r s1 in (s2, (t, res, s1) :: l)
    end
  end.

Definition full_trace (l : list (list tev * result * est)) : list tev :=
  flat_map (fun x => fst (fst x)) l.

(* ------------------------------------------------------------------ ParseTriggerExpression *)
(* callable/utils.go: split at the last '+' or '-'; no sign: weight +0; unparsable weight: 0 *)
Definition is_sign (c : N) : bool := (c =? 43) || (c =? 45).
Definition is_dig (c : N) : bool := (48 <=? c) && (c <=? 57).

(* position of the last sign character, scanning from the left *)
Fixpoint last_sign (l : str) (i : nat) (acc : option nat) : option nat :=
  match l with
  | [] => acc
  | c :: r => last_sign r (S i) (if is_sign c then Some i else acc)
  end.

Fixpoint digits_val (l : str) (acc : Z) : option Z :=
  match l with
  | [] => Some acc
  | c :: r => if is_dig c then digits_val r (acc * 10 + Z.of_N (c - 48))%Z else None
  end.

(* strconv.Atoi on "+ddd" / "-ddd" (at least one digit, no overflow modelled below 2^63) *)
Definition atoi_signed (l : str) : option Z :=
  match l with
  | c :: ((_ :: _) as ds) =>
    match digits_val ds 0 with
    | Some v => if c =? 45
                then (if (v <=? 9223372036854775808)%Z then Some (- v)%Z else None)
                else (if (v <? 9223372036854775808)%Z then Some v else None)
    | None => None
    end
  | _ => None
  end.

Definition parse_trigger (s : str) : str * Z :=
  match last_sign s 0%nat None with
  | None => (s, 0%Z)
  | Some i =>
    let name := firstn i s in
    let ws := skipn i s in
    (name, match atoi_signed ws with Some v => v | None => 0%Z end)
  end.

(* ------------------------------------------------------------------ observation (harness) *)

Inductive ov := VAbsent | VEmpty | VSet (ms : N).      (* observed variable *)
Record osnap := mkOsnap { os_rn : ov; os_rn2 : ov; os_sosor : ov; os_eosor : ov; os_soeor : ov; os_eoeor : ov }.

Inductive orec :=
| OS (h : N) (opi : N) (snap : osnap)    (* probe function of instance (h, opi) begins *)
| OE (h : N) (opi : N)                   (* ... returns *)
| OM (n : stepname) (err : bool)         (* published transition step event *)
| OB                                     (* body ran *)
| OT (hs : list N)                       (* hook tasks triggered together *)
| OR (tr : N) (status : N) (rn : N)      (* published run event *)
| OF (h : N)                             (* a hook task has ended (its executor reports next) *)
| OO | OX.                               (* operation begins / has returned *)

(* projected error: per "critical hook(s) failed at trigger" part: trigger, count, named call
   instances (hook, op) sorted, named hook tasks sorted *)
Record oerr := mkOerr { oe_trig : mname; oe_count : N; oe_ids : list (N * N); oe_tasks : list N }.
Inductive ores := XOk | XHook (l : list oerr) | XBody | XInvalid | XOther.

(* what the task transition told the tasks about the run: the arguments runNumber,
   run_start_time_ms, run_start_completion_time_ms, run_end_time_ms, run_end_completion_time_ms of
   the TransitionTasks message (VAbsent: not in the message) *)
Record opush := mkOpush { op_rn : ov; op_sosor : ov; op_eosor : ov; op_soeor : ov; op_eoeor : ov }.

Record opobs := mkOpobs {
  oo_res : ores;
  oo_state : st;
  oo_pend : list (point * (N * N) * bool);     (* await point, (hook, op), cancelled *)
  oo_rn : N;
  oo_vars : osnap;
  oo_push : option opush }.                    (* None: no message seen (injected body, GO_ERROR) *)

(* ob_awaits: the await point every call role ended up with once the workflow was built / loaded
   from YAML (hook id, point) *)
Fixpoint find_hook_pre (hooks : list hook) (id : N) : option hook :=
  match hooks with [] => None | h :: r => if h_id h =? id then Some h else find_hook_pre r id end.

Record obs := mkObs { ob_recs : list orec; ob_ops : list opobs; ob_crashed : bool; ob_hung : bool;
                      ob_awaits : list (N * point) }.

(* the await point a call hook is given is the declared one; a hook written without an await is
   awaited at its trigger point, weight included (callRole.UnmarshalYAML default) *)
Definition awaits_ok (hooks : list hook) (o : obs) : bool :=
  forallb (fun a => match find_hook_pre hooks (fst a) with
                    | Some hk => point_eqb (h_await hk) (snd a)
                    | None => true end) (ob_awaits o).

Inductive c08_case :=
| CParse (s : str) (name : str) (w : Z)
| CRun (hooks : list hook) (init : st) (ops : list op) (o : obs).

(* ------------------------------------------------------------------ correspondence *)

Definition sv_ov_match (m : sv) (o : ov) : bool :=
  match m, o with
  | SAbsent, VAbsent => true | SEmpty, VEmpty => true | SSet _, VSet _ => true | _, _ => false
  end.
Definition rn_ov_match (m : option N) (o : ov) : bool :=
  match m, o with None, VAbsent => true | Some n, VSet k => n =? k | _, _ => false end.
Definition snap_match (r : rvars) (o : osnap) : bool :=
  rn_ov_match (rv_var r) (os_rn o) && rn_ov_match (rv_var r) (os_rn2 o) &&
  sv_ov_match (rv_sosor r) (os_sosor o) && sv_ov_match (rv_eosor r) (os_eosor o) &&
  sv_ov_match (rv_soeor r) (os_soeor o) && sv_ov_match (rv_eoeor r) (os_eoeor o).

Definition id_of (i : inst) : N * N := (i_hook i, i_op i).
Definition id_eqb (a b : N * N) : bool := (fst a =? fst b) && (snd a =? snd b).
Definition mem_id (x : N * N) (l : list (N * N)) : bool := existsb (id_eqb x) l.
Fixpoint rem_id (x : N * N) (l : list (N * N)) : list (N * N) :=
  match l with [] => [] | y :: r => if id_eqb x y then r else y :: rem_id x r end.

(* sorted insertion of ids / numbers, to compare sets printed sorted by the harness *)
Definition id_ltb (a b : N * N) : bool := (fst a <? fst b) || ((fst a =? fst b) && (snd a <? snd b)).
Fixpoint id_insert (x : N * N) (l : list (N * N)) : list (N * N) :=
  match l with [] => [x] | y :: r => if id_ltb y x then y :: id_insert x r else x :: l end.
Definition id_sort (l : list (N * N)) := fold_right id_insert [] l.
Fixpoint n_insert (x : N) (l : list N) : list N :=
  match l with [] => [x] | y :: r => if y <? x then y :: n_insert x r else x :: l end.
Definition n_sort (l : list N) := fold_right n_insert [] l.

(* handleHooks' error text: one failure is named, 2-3 are all named, more are only counted *)
Definition oerr_of (p : perr) : oerr :=
  match p with PE m f =>
    let k := wfail_count f in
    if k <=? 3
    then mkOerr m k (id_sort (map id_of (wf_calls f))) (if wf_named f then n_sort (wf_tasks f) else [])
    else mkOerr m k [] []
  end.
Definition oerr_eqb (a b : oerr) : bool :=
  mname_eqb (oe_trig a) (oe_trig b) && (oe_count a =? oe_count b) &&
  list_eqb id_eqb (oe_ids a) (oe_ids b) && list_eqb N.eqb (oe_tasks a) (oe_tasks b).
Definition res_match (r : result) (o : ores) : bool :=
  match r, o with
  | ROk, XOk => true | RBody, XBody => true | RInvalid, XInvalid => true
  | RHook l, XHook l' => list_eqb oerr_eqb (map oerr_of l) l'
  | _, _ => false
  end.

(* is the observable marker [t] of the model trace the observed record [r] ? *)
Definition marker_match (t : tev) (r : orec) : bool :=
  match t, r with
  | TStep n b e, OM n' e' =>
    (* the published event carries no begin/end flag: a begin event never has an error *)
    stepname_eqb n n' && Bool.eqb (if b then false else e) e'
  | TBody _, OB => true
  | TTasks hs _, OT hs' => list_eqb N.eqb (n_sort hs) (n_sort hs')
  | TRun a b c, OR a' b' c' => (a =? a') && (b =? b') && (c =? c')
  | _, _ => false
  end.
Definition is_marker (t : tev) : bool :=
  match t with TStep _ _ _ | TBody _ | TTasks _ _ | TRun _ _ _ => true | _ => false end.
Definition sync_hook (h : hook) : bool := point_eqb (h_trig h) (h_await h).

(* Conformance of the observed record sequence with the model trace.  The model trace is the
   sequence of actions of the state-machine goroutine; call functions run in their own
   goroutines: the start record of an instance may come any time after its TStart, its end
   record must come before its TCollect.  [sp]: started, function not begun; [ru]: running;
   [fi]: returned, not collected yet.  Lazy advance of the state-machine pointer is complete:
   advancing only ever enables more. *)
Record cst := mkCst { c_T : list tev; c_sp : list (N * N * (rvars * bool)); c_ru : list (N * N); c_fi : list (N * N) }.

(* skip silent actions until (and including) the TStart of [x]; None: blocked *)
Fixpoint adv_start (x : N * N) (T : list tev) (sp : list (N * N * (rvars * bool))) (fi : list (N * N))
  : option (list tev * list (N * N * (rvars * bool)) * list (N * N)) :=
  match T with
  | [] => None
  | t :: r =>
    match t with
    | TStart i h snap =>
      let sp' := sp ++ [(id_of i, (snap, sync_hook h))] in
      if id_eqb (id_of i) x then Some (r, sp', fi) else adv_start x r sp' fi
    | TCollect i _ => if mem_id (id_of i) fi then adv_start x r sp (rem_id (id_of i) fi) else None
    | TCancel _ | TUnsure _ => adv_start x r sp fi
    | _ => None     (* a marker that has not been observed yet, or a crash *)
    end
  end.

(* skip silent actions until a marker; returns the marker *)
Fixpoint adv_marker (T : list tev) (sp : list (N * N * (rvars * bool))) (fi : list (N * N))
  : option (tev * list tev * list (N * N * (rvars * bool)) * list (N * N)) :=
  match T with
  | [] => None
  | t :: r =>
    match t with
    | TStart i h snap => adv_marker r (sp ++ [(id_of i, (snap, sync_hook h))]) fi
    | TCollect i _ => if mem_id (id_of i) fi then adv_marker r sp (rem_id (id_of i) fi) else None
    | TCancel _ | TUnsure _ => adv_marker r sp fi
    | TCrash _ => None
    | _ => Some (t, r, sp, fi)
    end
  end.

Fixpoint sp_find (x : N * N) (sp : list (N * N * (rvars * bool))) : option (rvars * bool) :=
  match sp with [] => None | (y, v) :: r => if id_eqb x y then Some v else sp_find x r end.
Fixpoint sp_rem (x : N * N) (sp : list (N * N * (rvars * bool))) :=
  match sp with [] => [] | (y, v) :: r => if id_eqb x y then r else (y, v) :: sp_rem x r end.

Fixpoint conf (O : list orec) (c : cst) : bool :=
  match O with
  | [] =>
    (* everything left must be silent and collectable, every call function began and returned *)
    match adv_marker (c_T c) (c_sp c) (c_fi c) with
    | Some _ => false
    | None =>
      (fix rest (T : list tev) (sp : list (N * N * (rvars * bool))) (fi : list (N * N)) : bool :=
         match T with
         | [] => match sp, c_ru c with [], [] => true | _, _ => false end
         | TCollect i _ :: r => mem_id (id_of i) fi && rest r sp (rem_id (id_of i) fi)
         | TCancel _ :: r | TUnsure _ :: r => rest r sp fi
         | TStart _ _ _ :: _ => false
         | _ => false
         end) (c_T c) (c_sp c) (c_fi c)
    end
  | r :: O' =>
    match r with
    | OS h opi snap =>
      let x := (h, opi) in
      let go (T : list tev) sp fi :=
        match sp_find x sp with
        | Some (rv, sync) =>
          (* a call awaited at its own trigger point sees exactly the variables of that point *)
          (if sync then snap_match rv snap else true) &&
          conf O' (mkCst T (sp_rem x sp) (x :: c_ru c) fi)
        | None => false
        end in
      match sp_find x (c_sp c) with
      | Some _ => go (c_T c) (c_sp c) (c_fi c)
      | None => match adv_start x (c_T c) (c_sp c) (c_fi c) with
                | Some (T, sp, fi) => go T sp fi
                | None => false
                end
      end
    | OE h opi =>
      let x := (h, opi) in
      mem_id x (c_ru c) && conf O' (mkCst (c_T c) (c_sp c) (rem_id x (c_ru c)) (x :: c_fi c))
    | OO | OX | OF _ => conf O' c
    | _ =>
      match adv_marker (c_T c) (c_sp c) (c_fi c) with
      | Some (t, T, sp, fi) => marker_match t r && conf O' (mkCst T sp (c_ru c) fi)
      | None => false
      end
    end
  end.

Definition pend_entry_eqb (a b : point * (N * N)) : bool := point_eqb (fst a) (fst b) && id_eqb (snd a) (snd b).
Definition pend_subset (a b : list (point * (N * N))) : bool :=
  forallb (fun x => existsb (pend_entry_eqb x) b) a.
Definition pend_match (p : list (point * inst)) (o : list (point * (N * N) * bool)) : bool :=
  let a := map (fun e => (fst e, id_of (snd e))) p in
  let b := map fst o in
  (Nlen a =? Nlen b) && pend_subset a b && pend_subset b a.

Definition is_cancel_op (o : op) : bool :=
  match o_kind o with OLeaveCancel | OTeardown => true | _ => false end.

(* the argument map of the real START_ACTIVITY / STOP_ACTIVITY transition objects, as far as the run
   is concerned: the run number (START only) and those of the four stamps that are in the key
   list (read from the source: Gen_StartArgs), each present iff the variable exists, with its
   value - the empty value of a cleared stamp included.  Computed from the variables after the
   operation: the built-in work that follows the task transition does not touch what is pushed
   (START writes only the start-completion stamp afterwards, STOP only the end-completion one). *)
Definition pushed (flag : bool) (v : sv) : option sv := if flag then Some v else None.
Record push := mkPush { p_rn : option (option N); p_sosor : option sv; p_eosor : option sv;
                        p_soeor : option sv; p_eoeor : option sv }.
Definition push_of (e : evt) (r : rvars) : option push :=
  match e with
  | START_ACTIVITY =>
    Some (mkPush (Some (rv_var r)) (pushed gen_start_push_sosor (rv_sosor r)) (pushed gen_start_push_eosor SEmpty)
                 (pushed gen_start_push_soeor (rv_soeor r)) (pushed gen_start_push_eoeor (rv_eoeor r)))
  | STOP_ACTIVITY =>
    Some (mkPush None None None (pushed gen_stop_push_soeor (rv_soeor r)) (pushed gen_stop_push_eoeor SEmpty))
  | _ => None
  end.
Definition psv_match (m : option sv) (o : ov) : bool :=
  match m with Some v => sv_ov_match v o | None => match o with VAbsent => true | _ => false end end.
Definition push_match (e : option evt) (r : rvars) (o : option opush) : bool :=
  match o with
  | None => true
  | Some po =>
    match e with
    | Some ev =>
      match push_of ev r with
      | Some p =>
        (match p_rn p with Some n => rn_ov_match n (op_rn po) | None => true end) &&
        psv_match (p_sosor p) (op_sosor po) && psv_match (p_eosor p) (op_eosor po) &&
        psv_match (p_soeor p) (op_soeor po) && psv_match (p_eoeor p) (op_eoeor po)
      | None => false
      end
    | None => false
    end
  end.

(* per operation: result class, state, pending calls, run number field, variables *)
Definition opobs_match (o : op) (x : list tev * result * est) (oo : opobs) : bool :=
  let '(_, res, s) := x in
  res_match res (oo_res oo) && st_eqb (e_st s) (oo_state oo) &&
  pend_match (e_pend s) (oo_pend oo) &&
  forallb (fun e => Bool.eqb (snd e) (is_cancel_op o)) (oo_pend oo) &&
  (rv_rn (e_rv s) =? oo_rn oo) && snap_match (e_rv s) (oo_vars oo) &&
  push_match (match o_kind o with OEvent e => Some e | _ => None end) (e_rv s) (oo_push oo).

Fixpoint ops_match (ops : list op) (l : list (list tev * result * est)) (oos : list opobs) : bool :=
  match l, oos, ops with
  | [], [], _ => true
  | x :: l', oo :: oos', o :: ops' => opobs_match o x oo && ops_match ops' l' oos'
  | _, _, _ => false
  end.

Definition model_crashed (l : list (list tev * result * est)) : bool :=
  existsb (fun x => match snd (fst x) with RCrash => true | _ => false end) l.

Definition str_z_eqb (a b : str * Z) : bool := str_eqb (fst a) (fst b) && Z.eqb (snd a) (snd b).

Definition corr08 (c : c08_case) : bool :=
  match c with
  | CParse s n w => str_z_eqb (parse_trigger s) (n, w)
  | CRun hooks init ops o =>
    let '(_, l) := run_ops hooks 0 ops (est0 init) in
    if existsb (fun t => match t with TUnsure _ => true | _ => false end) (full_trace l)
    then true   (* which collector receives a termination is up to the Go runtime: no claim *)
    else if model_crashed l then ob_crashed o
    else negb (ob_crashed o) && negb (ob_hung o) && awaits_ok hooks o &&
         ops_match ops l (ob_ops o) &&
         conf (ob_recs o) (mkCst (full_trace l) [] [] [])
  end.

(* ------------------------------------------------------------------ monitors *)
(* The monitors look at the input (hook declarations, operations, scripted faults) and at what
   the implementation did; they do not run the model. *)

Fixpoint find_hook (hooks : list hook) (id : N) : option hook :=
  match hooks with [] => None | h :: r => if h_id h =? id then Some h else find_hook r id end.

(* position helpers on the observed record list *)
Fixpoint index_where {A} (f : A -> bool) (l : list A) (i : N) : option N :=
  match l with [] => None | x :: r => if f x then Some i else index_where f r (N.succ i) end.

(* records of operation number k (between the k-th OO and the next OO / end), with positions *)
Fixpoint split_ops (l : list orec) (cur : list orec) (started : bool) : list (list orec) :=
  match l with
  | [] => if started then [rev cur] else []
  | OO :: r => if started then rev cur :: split_ops r [] true else split_ops r [] true
  | x :: r => split_ops r (x :: cur) started
  end.

(* the four moments of an event from a source state *)
Definition phase_of (e : evt) (src dst : st) (m : mname) : option N :=
  if mname_eqb m (MBefore e) then Some 0 else if mname_eqb m (MLeave src) then Some 1
  else if mname_eqb m (MEnter dst) then Some 3 else if mname_eqb m (MAfter e) then Some 4 else None.

(* lexicographic key of a point inside one transition: (phase, weight) *)
Definition key_lt (a b : N * Z) : bool := (fst a <? fst b) || ((fst a =? fst b) && (snd a <? snd b)%Z).

(* has the record an end record of instance x before position ... : we work with plain lists:
   [before x l]: the prefix of l up to the first record satisfying x *)
Fixpoint prefix_until {A} (f : A -> bool) (l : list A) : list A :=
  match l with [] => [] | y :: r => if f y then [] else y :: prefix_until f r end.
Fixpoint suffix_from {A} (f : A -> bool) (l : list A) : list A :=
  match l with [] => [] | y :: r => if f y then r else suffix_from f r end.

Definition is_OS (x : N * N) (r : orec) : bool := match r with OS h o _ => id_eqb (h, o) x | _ => false end.
Definition is_OE (x : N * N) (r : orec) : bool := match r with OE h o => id_eqb (h, o) x | _ => false end.
Definition is_OM_begin (n : stepname) (r : orec) : bool :=
  match r with OM n' _ => stepname_eqb n n' | _ => false end.

(* --- C08 ---
   codes: 1 a call function began before the step of its trigger moment began (or in an operation
            in which that moment does not occur)
          2 weight order: of two calls awaited in place in the same moment, the one with the
            smaller weight had not returned when the other began
          3 the steps of a successful transition are not before, leave, tasks, enter, after
          4 the state machine went past the await point of a call that had not returned
          5 as 4, for an await point at a later weight of the very pass that started the call
            and at which no hook is triggered (the weight list of a pass is fixed on entry)
          6 after teardown a started call is still pending and not cancelled
          7 built-in work (run event) not between the negative and non-negative hooks
          8 crash or hang
          9 a well-formed trigger expression was not read as name, signed weight (see below)
         10 a call left callsPendingAwait during an operation (taken as collected) although its
            function had not returned by the end of the operation
         11 a teardown that succeeded did not run a declared DESTROY / after_DESTROY call hook
         15 a hook task that was triggered and ended within its time-out: something of a later weight
            or moment (a call, other hook tasks, the task transition) began before it had ended
         14 (mon08x) a failing critical call was collected but its result was lost: the operation that
            took it returned no error
         13 a call hook was given another await point than the declared one (a hook written without
            an await is awaited at its trigger point, weight included)
         12 ascending weights include the weights at which calls are only awaited: a call whose
            await point (moment, W) was due in this operation had not returned when a hook triggered
            at the same moment with a weight > W began                                       *)

Definition op_event (o : op) : option evt :=
  match o_kind o with OEvent e => Some e | OForceError => Some GO_ERROR | _ => None end.

(* starts in this operation's records of calls awaited in place, with their declared key *)
Definition sync_starts (hooks : list hook) (e : evt) (src dst : st) (recs : list orec)
  : list (N * N * (N * Z)) :=
  flat_map (fun r => match r with
    | OS h o _ => match find_hook hooks h with
                  | Some hk => if sync_hook hk then
                                 match phase_of e src dst (fst (h_trig hk)) with
                                 | Some ph => [((h, o), (ph, snd (h_trig hk)))]
                                 | None => [] end
                               else []
                  | None => [] end
    | _ => [] end) recs.

(* code 2: for sync instances a, b of this operation with key a < key b: E a before S b *)
Definition weight_order_ok (hooks : list hook) (e : evt) (src dst : st) (recs : list orec) : bool :=
  let ss := sync_starts hooks e src dst recs in
  forallb (fun a => forallb (fun b =>
    if key_lt (snd a) (snd b)
    then existsb (is_OE (fst a)) (prefix_until (is_OS (fst b)) recs)
    else true) ss) ss.

(* code 1: each start record of this operation lies after the begin marker of its moment *)
Definition not_early_ok (hooks : list hook) (recs : list orec) (opi : N) : bool :=
  forallb (fun r => match r with
    | OS h o _ =>
      if o =? opi then
        match find_hook hooks h with
        | Some hk =>
          match fst (h_trig hk) with
          | MDestroy | MAfterDestroy => true
          | m => existsb (is_OM_begin (SMoment m)) (prefix_until (is_OS (h, o)) recs)
          end
        | None => false
        end
      else true
    | _ => true end) recs.

(* code 3 *)
Definition step_names (recs : list orec) : list stepname :=
  flat_map (fun r => match r with OM n _ => [n] | _ => [] end) recs.
Definition steps_ok (e : evt) (src dst : st) (recs : list orec) : bool :=
  list_eqb stepname_eqb (step_names recs)
    [SMoment (MBefore e); SMoment (MBefore e); SMoment (MLeave src); SMoment (MLeave src);
     STasks e; STasks e; SMoment (MEnter dst); SMoment (MEnter dst); SMoment (MAfter e); SMoment (MAfter e)].

(* code 4/5: a call started in this operation, whose await moment occurs in this operation at or
   after its trigger point, must have returned before the end marker (second OM) of the await
   moment.  Calls from earlier operations pending at a moment of this operation likewise. *)
Definition second_marker_prefix (n : stepname) (recs : list orec) : list orec :=
  (* records up to the second OM n *)
  let a := prefix_until (is_OM_begin n) recs in
  let rest := suffix_from (is_OM_begin n) recs in
  a ++ prefix_until (is_OM_begin n) rest.
Definition has_two_markers (n : stepname) (recs : list orec) : bool :=
  2 <=? Nlen (filter (is_OM_begin n) recs).

Definition lone_later_weight (hooks : list hook) (hk : hook) : bool :=
  let '(tm, tw) := h_trig hk in let '(am, aw) := h_await hk in
  mname_eqb tm am && (tw <? aw)%Z && Bool.eqb (wneg tw) (wneg aw) &&
  negb (existsb (fun h => point_eqb (h_trig h) (am, aw)) hooks).

Definition await_code (hooks : list hook) (e : evt) (src dst : st) (recs_this_and_before : list orec)
           (recs : list orec) (opi : N) (pend_before pend_after : list (point * (N * N) * bool)) : N :=
  let check (x : N * N) (hk : hook) (same_op : bool) : N :=
    let '(am, aw) := h_await hk in
    (* a step that ended with an error stopped at the failing weight: of the calls awaited in it
       only those that were taken out of the pending set are known to have been passed *)
    if existsb (fun r => match r with OM n' true => stepname_eqb (SMoment am) n' | _ => false end) recs &&
       existsb (fun p => id_eqb (snd (fst p)) x) pend_after
    then 0 else
    match phase_of e src dst am with
    | None => 0
    | Some pa =>
      let reached :=
        if same_op then
          match phase_of e src dst (fst (h_trig hk)) with
          | Some pt => negb (key_lt (pa, aw) (pt, snd (h_trig hk)))
          | None => false
          end
        else true in
      if reached && has_two_markers (SMoment am) recs then
        if existsb (is_OE x) (recs_this_and_before ++ second_marker_prefix (SMoment am) recs) then 0
        else if same_op && lone_later_weight hooks hk then 5 else 4
      else 0
    end in
  let started_now := flat_map (fun r => match r with
      | OS h o _ => if o =? opi then match find_hook hooks h with Some hk => [check (h, o) hk true] | None => [] end else []
      | _ => [] end) recs in
  let from_before := map (fun p => match find_hook hooks (fst (snd (fst p))) with
      | Some hk => check (snd (fst p)) hk false | None => 0 end) pend_before in
  fold_left (fun acc c => if acc =? 0 then c else if (c =? 4) then 4 else acc) (started_now ++ from_before) 0.

(* code 7: in START/STOP/GO_ERROR the first run event of the operation lies after every in-place
   call of negative before_ weight has returned and before any of non-negative weight begins *)
Definition builtin_split_ok (hooks : list hook) (e : evt) (recs : list orec) : bool :=
  let is_run r := match r with OR _ 0 _ => true | _ => false end in
  if existsb is_run recs then
    let pre := prefix_until is_run recs in
    let post := suffix_from is_run recs in
    forallb (fun r => match r with
      | OS h _ _ => match find_hook hooks h with
                    | Some hk => if sync_hook hk && mname_eqb (fst (h_trig hk)) (MBefore e)
                                 then wneg (snd (h_trig hk)) else true
                    | None => true end
      | _ => true end) pre &&
    forallb (fun r => match r with
      | OS h _ _ => match find_hook hooks h with
                    | Some hk => if sync_hook hk && mname_eqb (fst (h_trig hk)) (MBefore e)
                                 then wnonneg (snd (h_trig hk)) else true
                    | None => true end
      | _ => true end) post
  else true.

Definition first_nonzero (l : list N) : N :=
  fold_left (fun acc c => if acc =? 0 then c else acc) l 0.

(* code 12: every call due at (am, aw) - pending from an earlier operation, or started in this one
   before that point - and taken out of the pending set (or awaited in a step without error) has
   returned before any hook triggered at moment am with a larger weight begins *)
Definition await_then_start_ok (hooks : list hook) (e : evt) (src dst : st) (before recs : list orec) (opi : N)
           (pend_before pend_after : list (point * (N * N) * bool)) : bool :=
  let all := before ++ recs in
  let due_now := flat_map (fun r => match r with
      | OS h o _ =>
        if o =? opi then
          match find_hook hooks h with
          | Some hk =>
            match phase_of e src dst (fst (h_trig hk)), phase_of e src dst (fst (h_await hk)) with
            | Some pt, Some pa => if key_lt (pt, snd (h_trig hk)) (pa, snd (h_await hk)) then [((h, o), hk)] else []
            | _, _ => []
            end
          | None => [] end
        else []
      | _ => [] end) recs in
  let due_before := flat_map (fun p => match find_hook hooks (fst (snd (fst p))) with
      | Some hk => match phase_of e src dst (fst (h_await hk)) with Some _ => [(snd (fst p), hk)] | None => [] end
      | None => [] end) pend_before in
  forallb (fun xd =>
    let '(x, hk) := xd in
    let '(am, aw) := h_await hk in
    if existsb (fun r => match r with OM n' true => stepname_eqb (SMoment am) n' | _ => false end) recs &&
       existsb (fun p => id_eqb (snd (fst p)) x) pend_after
    then true else
    forallb (fun r => match r with
      | OS h o _ =>
        if (o =? opi) && negb (id_eqb (h, o) x) then
          match find_hook hooks h with
          | Some hb =>
            if mname_eqb (fst (h_trig hb)) am && (aw <? snd (h_trig hb))%Z
            then existsb (is_OE x) (prefix_until (is_OS (h, o)) all)
            else true
          | None => true
          end
        else true
      | _ => true end) recs) (due_now ++ due_before).

(* code 15: hook tasks are awaited where they are triggered.  For every group of hook tasks
   triggered in this operation and every task of it that is scripted to end promptly (or after a
   while, within its time-out) and whose end is recorded in this operation: nothing of a larger
   (phase, weight) key - call start, hook-task trigger, task transition - lies between the
   trigger and that end *)
Definition prompt_tout (o : tout) : bool :=
  match o with TOk | TExit | TInvol | TTermX _ _ _ => true | _ => false end.
Definition task_awaited_ok (hooks : list hook) (o : op) (e : evt) (src dst : st) (recs : list orec) (opi : N) : bool :=
  let key_of (hk : hook) := match phase_of e src dst (fst (h_trig hk)) with
                            | Some ph => Some (ph, snd (h_trig hk)) | None => None end in
  let fix walk (l : list orec) : bool :=
    match l with
    | [] => true
    | OT hs :: r =>
      forallb (fun h =>
        match find_hook hooks h with
        | Some hk =>
          match key_of hk with
          | Some k =>
            if prompt_tout (tout_of (o_touts o) h) && existsb (fun x => match x with OF h' => h' =? h | _ => false end) r
            then
              let between := prefix_until (fun x => match x with OF h' => h' =? h | _ => false end) r in
              negb (existsb (fun x => match x with
                | OS b ob _ => (ob =? opi) && match find_hook hooks b with
                                             | Some hb => match key_of hb with Some kb => key_lt k kb | None => false end
                                             | None => false end
                | OT hs' => existsb (fun h' => match find_hook hooks h' with
                                               | Some hb => match key_of hb with Some kb => key_lt k kb | None => false end
                                               | None => false end) hs'
                | OB => fst k <=? 1
                | _ => false end) between)
            else true
          | None => true
          end
        | None => true
        end) hs && walk r
    | _ :: r => walk r
    end in
  walk recs.

(* code 10: collect-or-cancel accounting.  A call that was pending before the operation or was
   started in it, and is no longer in callsPendingAwait afterwards, has been taken as collected:
   its function must have returned by the end of the operation *)
Definition dropped_returned_ok (before recs : list orec) (opi : N)
           (pend_before pend_after : list (point * (N * N) * bool)) : bool :=
  let started := flat_map (fun r => match r with OS h o _ => if o =? opi then [(h, o)] else [] | _ => [] end) recs in
  let cand := started ++ map (fun p => snd (fst p)) pend_before in
  forallb (fun x => existsb (fun p => id_eqb (snd (fst p)) x) pend_after ||
                    existsb (is_OE x) (before ++ prefix_until (fun r => match r with OX => true | _ => false end) recs)) cand.

(* code 11: every call hook declared at DESTROY / after_DESTROY ran in a successful teardown *)
Definition destroy_hooks_ran_ok (hooks : list hook) (recs : list orec) (opi : N) : bool :=
  forallb (fun hk =>
    match h_kind hk, fst (h_trig hk) with
    | HCall, MDestroy | HCall, MAfterDestroy =>
      existsb (fun r => match r with OS h o _ => (h =? h_id hk) && (o =? opi) | _ => false end) recs
    | _, _ => true
    end) hooks.

(* walk over the operations with the observed state before each *)
Fixpoint mon08_ops (hooks : list hook) (ops : list op) (oos : list opobs) (segs : list (list orec))
         (before : list orec) (src : st) (pend : list (point * (N * N) * bool)) (opi : N) : N :=
  match ops, oos, segs with
  | o :: ops', oo :: oos', recs :: segs' =>
    let c :=
      match op_event o with
      | Some e =>
        match dst_of e src with
        | Some dst =>
          first_nonzero
            [ (if not_early_ok hooks recs opi then 0 else 1);
              (if weight_order_ok hooks e src dst recs then 0 else 2);
              (match oo_res oo with XOk => if steps_ok e src dst recs then 0 else 3 | _ => 0 end);
              (if builtin_split_ok hooks e recs then 0 else 7);
              (if await_then_start_ok hooks e src dst before recs opi pend (oo_pend oo) then 0 else 12);
              (if task_awaited_ok hooks o e src dst recs opi then 0 else 15);
              await_code hooks e src dst before recs opi pend (oo_pend oo) ]
        | None => 0
        end
      | None =>
        if is_cancel_op o then
          if forallb (fun p => snd p) (oo_pend oo) then
            match o_kind o, oo_res oo with
            | OTeardown, XOk => if destroy_hooks_ran_ok hooks recs opi then 0 else 11
            | _, _ => 0
            end
          else 6
        else 0
      end in
    let c := if c =? 0 then (if dropped_returned_ok before recs opi pend (oo_pend oo) then 0 else 10) else c in
    if (c =? 0) then
      let r := mon08_ops hooks ops' oos' segs' (before ++ recs) (oo_state oo) (oo_pend oo) (N.succ opi) in
      if r =? 0 then c else r
    else c
  | _, _, _ => 0
  end.

(* code 9: the documented reading of a well-formed trigger expression (a name without sign
   characters, optionally followed by one sign and 1..18 decimal digits): name, signed weight,
   no sign means +0.  Written without the model's parser. *)
Fixpoint split_first_sign (l : str) (acc : str) : option (str * N * str) :=
  match l with
  | [] => None
  | c :: r => if is_sign c then Some (rev acc, c, r) else split_first_sign r (c :: acc)
  end.
Definition dec_val (ds : str) : Z := fold_left (fun a c => (a * 10 + Z.of_N (c - 48))%Z) ds 0%Z.
Definition parse_expected (s : str) : option (str * Z) :=
  match split_first_sign s [] with
  | None => Some (s, 0%Z)
  | Some (name, c, ds) =>
    if forallb is_dig ds && (1 <=? Nlen ds) && (Nlen ds <=? 18)
    then Some (name, if c =? 45 then (- dec_val ds)%Z else dec_val ds)
    else None     (* malformed: no claim *)
  end.

Definition mon08 (c : c08_case) : N :=
  match c with
  | CParse s n w =>
    match parse_expected s with
    | Some (n', w') => if str_eqb n n' && Z.eqb w w' then 0 else 9
    | None => 0
    end
  | CRun hooks init ops o =>
    if ob_crashed o || ob_hung o then 8
    else if negb (awaits_ok hooks o) then 13
    else mon08_ops hooks ops (ob_ops o) (split_ops (ob_recs o) [] false) [] init [] 0
  end.

(* --- C09 ---
   codes: 1 a step of before_/leave_ ended with an error but the state changed, or a later step,
            the body or a later call ran, or no error was returned / the trigger is not named
          2 a step of enter_/after_ ended with an error but the state is not the destination, no
            error was returned, or after_<event> did not run
          3 only non-critical hooks failed, yet an error was returned or the state is wrong
          4 crash or hang of the core
          5 several critical hooks failed at one point: count or names in the error are wrong
          6 a critical call that failed was collected but no error was returned at all
          7 a critical failure at enter_<state> is missing from the returned error because a
            failure at after_<event> replaced it
          9 crash with a hook task that terminates after it timed out while another hook task of
            the same weight is still awaited (nil timer)
         13 a critical hook task failed (non-zero exit code - negative ones included -, involuntary
            termination, time-out, trigger failure) but the transition returned no error
         12 a critical call awaited in place at before_<event> / leave_<state> failed, yet a hook
            of a later weight or later moment of that (cancelled) transition, or the task
            transition, was executed afterwards
         11 crash, hang or wrong outcome when hook tasks are triggered after a hook-task trigger
            command failed (the collector goroutine of the failed group is left behind and
            receives the termination events of later groups)                              *)

Definition step_err (n : stepname) (recs : list orec) : bool :=
  existsb (fun r => match r with OM n' true => stepname_eqb n n' | _ => false end) recs.
Definition step_ran (n : stepname) (recs : list orec) : bool := existsb (is_OM_begin n) recs.

Definition res_is_err (r : ores) : bool := match r with XOk => false | _ => true end.
Definition res_names (r : ores) (m : mname) : bool :=
  match r with XHook l => existsb (fun e => mname_eqb (oe_trig e) m) l | _ => false end.

(* instances that failed by script and are critical: started in op [o] = (hook, o) for hook in o_fail *)
Definition scripted_crit_fail (hooks : list hook) (ops : list op) (x : N * N) : bool :=
  match nth_error ops (N.to_nat (snd x)) with
  | Some o => memN (fst x) (o_fail o) && crit_of hooks (fst x)
  | None => false
  end.
Definition scripted_fail (ops : list op) (x : N * N) : bool :=
  match nth_error ops (N.to_nat (snd x)) with
  | Some o => memN (fst x) (o_fail o)
  | None => false
  end.

(* instances whose result was taken during this operation: ended (in this op or before), were
   pending before or started now, and are not pending afterwards *)
Definition collected_now (recs : list orec) (opi : N) (pend_before pend_after : list (point * (N * N) * bool))
  : list (N * N) :=
  let started := flat_map (fun r => match r with OS h o _ => if o =? opi then [(h, o)] else [] | _ => [] end) recs in
  let cand := started ++ map (fun p => snd (fst p)) pend_before in
  filter (fun x => negb (existsb (fun p => id_eqb (snd (fst p)) x) pend_after)) cand.

Definition task_fail_scripted (hooks : list hook) (o : op) (recs : list orec) (critical : bool) : bool :=
  existsb (fun r => match r with
    | OT hs => existsb (fun h => Bool.eqb (crit_of hooks h) critical &&
                                 (match tout_of (o_touts o) h with
                                  | TOk | TOkSlow => false
                                  | TTermX c v _ => negb (c =? 0)%Z || negb v   (* non-zero exit or involuntary *)
                                  | _ => true end
                                  || existsb (fun h' => tout_eqb (tout_of (o_touts o) h') TTrigFail) hs)) hs
    | _ => false end) recs.

Definition late_pattern (o : op) (recs : list orec) : bool :=
  existsb (fun r => match r with
    | OT hs => existsb (fun h => tout_eqb (tout_of (o_touts o) h) TLate) hs &&
               existsb (fun h => tout_eqb (tout_of (o_touts o) h) TOkSlow) hs
    | _ => false end) recs.

Definition count_ok (hooks : list hook) (ops : list op) (o : op) (recs : list orec) (res : ores) : bool :=
  match res with
  | XHook l =>
    forallb (fun e =>
      (* every named instance did fail by script and is critical; the count covers the names *)
      forallb (fun x => scripted_crit_fail hooks ops x) (oe_ids e) &&
      forallb (fun h => crit_of hooks h) (oe_tasks e) &&
      (Nlen (oe_ids e) + Nlen (oe_tasks e) <=? oe_count e) &&
      (if oe_count e <=? 3
       then (Nlen (oe_ids e) + Nlen (oe_tasks e) =? oe_count e) ||
            existsb (fun h => tout_eqb (snd h) TTrigFail) (o_touts o)
       else true)) l
  | _ => true
  end.

(* a hook task trigger failure scripted in this operation and actually exercised *)
Definition trigfail_seen (o : op) (recs : list orec) : bool :=
  existsb (fun r => match r with
    | OT hs => existsb (fun h => tout_eqb (tout_of (o_touts o) h) TTrigFail) hs
    | _ => false end) recs.
Definition tasks_after_trigfail (o : op) (recs : list orec) : bool :=
  (* another group of hook tasks triggered after the failed trigger, in the same operation *)
  let is_tf r := match r with
    | OT hs => existsb (fun h => tout_eqb (tout_of (o_touts o) h) TTrigFail) hs | _ => false end in
  existsb (fun r => match r with OT _ => true | _ => false end) (suffix_from is_tf recs).
Definition any_tasks (recs : list orec) : bool :=
  existsb (fun r => match r with OT _ => true | _ => false end) recs.

(* code 12: keys of the hooks executed after the end record of a failing critical in-place call of
   phase 0 / 1 (before_, leave_) must not be larger than that call's key *)
Definition key_of_hook (e : evt) (src dst : st) (hk : hook) : option (N * Z) :=
  match phase_of e src dst (fst (h_trig hk)) with
  | Some ph => Some (ph, snd (h_trig hk))
  | None => None
  end.
Definition later_than (hooks : list hook) (e : evt) (src dst : st) (k : N * Z) (opi : N) (r : orec) : bool :=
  match r with
  | OS h o _ =>
    (o =? opi) &&
    match find_hook hooks h with
    | Some hk => match key_of_hook e src dst hk with Some k' => key_lt k k' | None => false end
    | None => false
    end
  | OT hs =>
    existsb (fun h => match find_hook hooks h with
                      | Some hk => match key_of_hook e src dst hk with Some k' => key_lt k k' | None => false end
                      | None => false end) hs
  | OB => true
  | _ => false
  end.
Definition no_later_hook_ok (hooks : list hook) (ops_all : list op) (e : evt) (src dst : st)
           (recs : list orec) (opi : N) : bool :=
  forallb (fun r => match r with
    | OS h o _ =>
      if (o =? opi) && scripted_crit_fail hooks ops_all (h, o) then
        match find_hook hooks h with
        | Some hk =>
          if sync_hook hk then
            match key_of_hook e src dst hk with
            | Some (ph, w) =>
              if ph <=? 1
              then negb (existsb (later_than hooks e src dst (ph, w) opi) (suffix_from (is_OE (h, o)) recs))
              else true
            | None => true
            end
          else true
        | None => true
        end
      else true
    | _ => true end) recs.

Fixpoint mon09_ops (hooks : list hook) (ops_all : list op) (ops : list op) (oos : list opobs)
         (segs : list (list orec)) (src : st) (pend : list (point * (N * N) * bool)) (opi : N)
         (stale : bool) : N :=
  match ops, oos, segs with
  | o :: ops', oo :: oos', recs :: segs' =>
    let c :=
      match op_event o with
      | Some e =>
        match dst_of e src with
        | Some dst =>
          let forced := match o_kind o with OForceError => true | _ => false end in
          let nB := SMoment (MBefore e) in let nL := SMoment (MLeave src) in
          let nE := SMoment (MEnter dst) in let nA := SMoment (MAfter e) in
          let res := oo_res oo in
          let stayed := st_eqb (oo_state oo) src || (forced && st_eqb (oo_state oo) ERROR) in
          let coll := collected_now recs opi pend (oo_pend oo) in
          let crit_call_failed := existsb (scripted_crit_fail hooks ops_all) coll in
          let crit_task_failed := task_fail_scripted hooks o recs true in
          let body_failed := match o_body o with BOk => false | _ => step_ran (STasks e) recs end in
          first_nonzero
            [ (if no_later_hook_ok hooks ops_all e src dst recs opi then 0 else 12);
              (* early cancel *)
              (if step_err nB recs then
                 if stayed && negb (step_ran nL recs) && negb (existsb (fun r => match r with OB => true | _ => false end) recs)
                    && res_is_err res && res_names res (MBefore e) then 0 else 1
               else if step_err nL recs then
                 if stayed && negb (step_ran (STasks e) recs) && negb (step_ran nE recs)
                    && res_is_err res && res_names res (MLeave src) then 0 else 1
               else 0);
              (* late report *)
              (if negb (step_err nB recs) && negb (step_err nL recs) && negb body_failed &&
                  (step_err nE recs || step_err nA recs) then
                 if st_eqb (oo_state oo) dst && res_is_err res && step_ran nA recs &&
                    (2 <=? Nlen (filter (is_OM_begin nA) recs)) then
                   if step_err nE recs && negb (res_names res (MEnter dst)) then 7 else 0
                 else 2
               else 0);
              (* non-critical failures are silent *)
              (if negb crit_call_failed && negb crit_task_failed && negb body_failed then
                 if res_is_err res then 3
                 else if st_eqb (oo_state oo) dst then 0 else 3
               else 0);
              (if count_ok hooks ops_all o recs res then 0 else 5);
              (if crit_call_failed && negb (res_is_err res) then 6 else 0);
              (if crit_task_failed && negb (res_is_err res) then 13 else 0) ]
        | None => 0
        end
      | None => 0
      end in
    (* hook tasks triggered while a collector left behind by a failed trigger is alive *)
    let risky := (stale && any_tasks recs) || tasks_after_trigfail o recs in
    if c =? 0 then mon09_ops hooks ops_all ops' oos' segs' (oo_state oo) (oo_pend oo) (N.succ opi)
                             (stale || trigfail_seen o recs)
    else if risky then 11 else c
  | _, _, _ => 0
  end.

Definition any_late_pattern (ops : list op) (hooks : list hook) : bool :=
  existsb (fun o =>
    existsb (fun a => tout_eqb (snd a) TLate &&
      existsb (fun b => tout_eqb (snd b) TOkSlow &&
        match find_hook hooks (fst a), find_hook hooks (fst b) with
        | Some ha, Some hb => point_eqb (h_trig ha) (h_trig hb)
        | _, _ => false end) (o_touts o)) (o_touts o)) ops.

Definition mon09 (c : c08_case) : N :=
  match c with
  | CParse _ _ _ => 0
  | CRun hooks init ops o =>
    if ob_crashed o || ob_hung o then
      (if any_late_pattern ops hooks then 9
       else if existsb (fun op => existsb (fun a => tout_eqb (snd a) TTrigFail) (o_touts op)) ops then 11
       else 4)
    else mon09_ops hooks ops ops (ob_ops o) (split_ops (ob_recs o) [] false) init [] 0 false
  end.

(* --- C10 ---
   A run begins when an operation publishes the START_ACTIVITY/STARTED run event (the built-in
   work of before_START_ACTIVITY) and ends when the environment is no longer RUNNING after
   having been RUNNING, or when the START that began it does not reach RUNNING.
   codes: 1 inside the window (from the non-negative before_START_ACTIVITY hooks to the end of
            after_STOP_ACTIVITY) an in-place call saw a different or no run number / start time
          2 an in-place call of negative before_START_ACTIVITY weight saw the number of the run
            being started
          3 the set timestamps are not ordered start <= start-completion <= end <= end-completion
          4 a timestamp that was set changed without a new run having started
          5 the run ended (environment left RUNNING) but an end timestamp is missing
          6 the run ended by STOP_ACTIVITY but the run number is still set afterwards
          7 START_ACTIVITY failed before reaching RUNNING, yet the run number stays visible
          8 a new run started and a timestamp other than the start one is visible to the
            non-negative before_START_ACTIVITY hooks, or the run number did not increase
          9 crash or hang
         10 the run was ended by forcing the ERROR state after a failed GO_ERROR: end timestamps
            missing, number kept
         13 a call hook was given another await point than the declared one: a hook written without an
            await (the usual way in YAML) is awaited at its trigger point, weight included, so that a
            negative-weight before_START_ACTIVITY hook has completed before the run number and the
            start stamp are assigned
         12 what the tasks were told with the START_ACTIVITY / STOP_ACTIVITY transition disagrees with
            the variables of this run: run number, start stamp, end stamp (also a cleared, empty
            one must be pushed as such - otherwise the task keeps the value of the previous run),
            or a completion stamp of a previous run was pushed
         11 a GO_ERROR transition ran to the end of after_GO_ERROR while a start stamp without end
            stamps was there (a run that failed to start, or whose task transition failed, or that
            was running), yet an end stamp is still empty afterwards: the end of that run is not
            recorded                                                                        *)

Definition ov_set (v : ov) : option N := match v with VSet n => Some n | _ => None end.
Definition ov_eqb (a b : ov) : bool :=
  match a, b with VAbsent, VAbsent => true | VEmpty, VEmpty => true | VSet x, VSet y => x =? y | _, _ => false end.
Definition le_if_set (a b : ov) : bool :=
  match a, b with VSet x, VSet y => x <=? y | _, _ => true end.
Definition stamps_ordered (s : osnap) : bool :=
  le_if_set (os_sosor s) (os_eosor s) && le_if_set (os_sosor s) (os_soeor s) &&
  le_if_set (os_sosor s) (os_eoeor s) && le_if_set (os_eosor s) (os_soeor s) &&
  le_if_set (os_eosor s) (os_eoeor s) && le_if_set (os_soeor s) (os_eoeor s).

Definition unchanged_if_set (a b : ov) : bool :=
  match a with VSet _ => ov_eqb a b | _ => true end.

Definition started_run (recs : list orec) : option N :=
  (* the run number published with START_ACTIVITY / STARTED *)
  match filter (fun r => match r with OR 3 0 _ => true | _ => false end) recs with
  | OR _ _ n :: _ => Some n
  | _ => None
  end.

(* in-place probes of this operation with their phase/weight key and snapshot *)
Definition sync_snaps (hooks : list hook) (e : evt) (src dst : st) (recs : list orec)
  : list ((N * Z) * osnap) :=
  flat_map (fun r => match r with
    | OS h o snap => match find_hook hooks h with
                  | Some hk => if sync_hook hk then
                                 match phase_of e src dst (fst (h_trig hk)) with
                                 | Some ph => [((ph, snd (h_trig hk)), snap)]
                                 | None => [] end
                               else []
                  | None => [] end
    | _ => [] end) recs.

Fixpoint mon10_ops (hooks : list hook) (ops : list op) (oos : list opobs) (segs : list (list orec))
         (src : st) (prev : osnap) (prev_rn : N) (last_run : N) (opi : N) : N :=
  match ops, oos, segs with
  | o :: ops', oo :: oos', recs :: segs' =>
    let v := oo_vars oo in
    let forced := match o_kind o with OForceError => true | _ => false end in
    let c :=
      match op_event o with
      | Some e =>
        match dst_of e src with
        | Some dst =>
          let snaps := sync_snaps hooks e src dst recs in
          let new_run := started_run recs in
          let is_start := evt_eqb e START_ACTIVITY in
          (* the run the probes of this operation must see: the one started here, else the
             one active before (when RUNNING) *)
          let window_rn : option N :=
            match new_run with Some n => Some n
            | None => if st_eqb src RUNNING then ov_set (os_rn prev) else None end in
          first_nonzero
            [ (* 1: window *)
              (match window_rn with
               | Some n =>
                 if forallb (fun ks =>
                      let '(k, s) := ks in
                      if is_start && key_lt k (0, 0%Z) then true
                      else ov_eqb (os_rn s) (VSet n) && ov_eqb (os_rn2 s) (VSet n) &&
                           (match new_run with
                            | Some _ => match os_sosor s with VSet _ => true | _ => false end
                            | None => ov_eqb (os_sosor s) (os_sosor prev) end)) snaps
                 then 0 else 1
               | None => 0 end);
              (* 2: negative before_START weights do not see the new number *)
              (match new_run with
               | Some n =>
                 if is_start && forallb (fun ks => let '(k, s) := ks in
                      if key_lt k (0, 0%Z) then negb (ov_eqb (os_rn s) (VSet n)) else true) snaps
                 then 0 else 2
               | None => 0 end);
              (* 8: fresh at start *)
              (match new_run with
               | Some n =>
                 if (last_run <? n) &&
                    forallb (fun ks => let '(k, s) := ks in
                      if (fst k =? 0) && wnonneg (snd k) then
                        negb (match os_eosor s with VSet _ => true | _ => false end) &&
                        negb (match os_soeor s with VSet _ => true | _ => false end) &&
                        negb (match os_eoeor s with VSet _ => true | _ => false end)
                      else true) snaps
                 then 0 else 8
               | None => 0 end);
              (* 3: order *)
              (if stamps_ordered v && forallb (fun ks => stamps_ordered (snd ks)) snaps then 0 else 3);
              (* 4: once *)
              (match new_run with
               | Some _ => 0
               | None =>
                 if unchanged_if_set (os_sosor prev) (os_sosor v) && unchanged_if_set (os_eosor prev) (os_eosor v) &&
                    unchanged_if_set (os_soeor prev) (os_soeor v) && unchanged_if_set (os_eoeor prev) (os_eoeor v)
                 then 0 else 4 end);
              (* 5 / 10: end stamps when the run ends *)
              (if st_eqb src RUNNING && negb (st_eqb (oo_state oo) RUNNING) then
                 match os_soeor v, os_eoeor v with
                 | VSet _, VSet _ => 0
                 | _, _ => if forced && res_is_err (oo_res oo) then 10 else 5
                 end
               else 0);
              (* 12: the pushed arguments agree with the variables of this run *)
              (match oo_push oo with
               | Some po =>
                 let unset_or_absent x := match x with VSet _ => false | _ => true end in
                 if evt_eqb e START_ACTIVITY then
                   if ov_eqb (op_rn po) (os_rn v) && ov_eqb (op_sosor po) (os_sosor v) &&
                      ov_eqb (op_soeor po) (os_soeor v) &&
                      unset_or_absent (op_eosor po) && unset_or_absent (op_eoeor po)
                   then 0 else 12
                 else if evt_eqb e STOP_ACTIVITY then
                   if ov_eqb (op_soeor po) (os_soeor v) && unset_or_absent (op_eoeor po) then 0 else 12
                 else 0
               | None => 0
               end);
              (* 11: a completed GO_ERROR closes whatever run was begun *)
              (if evt_eqb e GO_ERROR && (2 <=? Nlen (filter (is_OM_begin (SMoment (MAfter GO_ERROR))) recs)) then
                 match os_sosor prev, os_sosor v with
                 | VSet _, VSet _ =>
                   match os_soeor v, os_eoeor v with VSet _, VSet _ => 0 | _, _ => 11 end
                 | _, _ => 0
                 end
               else 0);
              (* 6: gone after STOP *)
              (if evt_eqb e STOP_ACTIVITY && st_eqb src RUNNING && st_eqb (oo_state oo) CONFIGURED then
                 match os_rn v, oo_rn oo with VAbsent, 0 => 0 | _, _ => 6 end
               else 0);
              (* 7: failed START keeps the number *)
              (if is_start && negb (st_eqb (oo_state oo) RUNNING) then
                 match new_run with
                 | Some _ => match os_rn v with VAbsent => 0 | _ => 7 end
                 | None => 0 end
               else 0) ]
        | None => 0
        end
      | None =>
        match o_kind o with
        | OTeardown =>
          if st_eqb src RUNNING then
            match os_soeor v, os_eoeor v with VSet _, VSet _ => 0 | _, _ => 5 end
          else 0
        | _ => 0
        end
      end in
    (* codes 7 and 10 (recorded findings) do not hide what the later operations show *)
    if (c =? 0) || (c =? 7) || (c =? 10) then
      let r := mon10_ops hooks ops' oos' segs' (oo_state oo) v (oo_rn oo)
                 (match started_run recs with Some n => n | None => last_run end) (N.succ opi) in
      if r =? 0 then c else r
    else c
  | _, _, _ => 0
  end.

Definition osnap0 : osnap := mkOsnap VAbsent VAbsent VAbsent VAbsent VAbsent VAbsent.

Definition mon10 (c : c08_case) : N :=
  match c with
  | CParse _ _ _ => 0
  | CRun hooks init ops o =>
    if ob_crashed o || ob_hung o then 9
    else if negb (awaits_ok hooks o) then 13
    else mon10_ops hooks ops (ob_ops o) (split_ops (ob_recs o) [] false) init osnap0 0 0 0
  end.

(* ------------------------------------------------------------------ branch tags *)
(* which decision points of the model a case exercised (bit set) :
     1 an await point different from the trigger point   2 equal weights at one point
     4 a hook task                                        8 a critical failure
    16 a non-critical failure                            32 a run (START reached the built-in work)
    64 cancellation / teardown                          128 body failure
   0 = none of them (trivial); parse cases: 1000 + (sign present) *)
Definition has_dup_points (hooks : list hook) : bool :=
  existsb (fun a => existsb (fun b => negb (h_id a =? h_id b) && point_eqb (h_trig a) (h_trig b)) hooks) hooks.

Definition tag08 (c : c08_case) : N :=
  match c with
  | CParse s _ _ => match last_sign s 0%nat None with Some _ => 1001 | None => 1000 end
  | CRun hooks init ops o =>
    let tr := full_trace (snd (run_ops hooks 0 ops (est0 init))) in
    (if existsb (fun h => is_call h && negb (sync_hook h)) hooks then 1 else 0) +
    (if has_dup_points hooks then 2 else 0) +
    (if existsb (fun t => match t with TTasks _ _ => true | _ => false end) tr then 4 else 0) +
    (if existsb (fun t => match t with TCollect i _ => i_fail i && i_crit i | _ => false end) tr then 8 else 0) +
    (if existsb (fun t => match t with TCollect i _ => i_fail i && negb (i_crit i) | _ => false end) tr then 16 else 0) +
    (if existsb (fun t => match t with TRun 3 0 _ => true | _ => false end) tr then 32 else 0) +
    (if existsb is_cancel_op ops then 64 else 0) +
    (if existsb (fun op => match o_body op with BOk => false | _ => true end) ops then 128 else 0)
  end.

(* mon08 code 14: collected with its own result - a failing critical call whose result was taken in an
   operation (however long after it returned) makes that operation return an error (the check is
   C09's code 6, evaluated here for C08's histories with pauses between start and await point) *)
Definition mon08x (c : c08_case) : N :=
  let m := mon08 c in
  if m =? 0 then (if mon09 c =? 6 then 14 else 0) else m.

Definition report08 := report corr08 mon08x tag08.
Definition report09 := report corr08 mon09 tag08.
Definition report10 := report corr08 mon10 tag08.
