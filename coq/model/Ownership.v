(* Ownership.v — roster of tasks and the ownership (lock) discipline of core/task:
     task.go      : isLocked / IsClaimable          (parent role set  <->  owned by that role's environment)
     manager.go   : releaseTasks / releaseTask       (refuses tasks locked by another environment)
                    KillTasks / Cleanup / doKillTasks (only unlocked tasks; KILL only for ACTIVE ones;
                                                       everything selected is dropped from the roster)
                    acquireTasks                      (fresh tasks, locked by SetParent on success)
                    transitionTasks / configureTasks  (commands go to the tasks handed in by the environment)
   Definitions only (executable, total); lemmas are in proofs/Ownership_proofs.v.
   Shared by C04 and C06; the environment level (creation, teardown, API wrappers) is Teardown.v. *)
From Verif Require Import Common Gen_UtsWrites Gen_Claimable Gen_CleanupAtomic.
Open Scope N_scope.

(* task state machine states as reported by the executors *)
Definition TS_STANDBY : N := 0.
Definition TS_CONFIGURED : N := 1.
Definition TS_RUNNING : N := 2.
Definition TS_ERROR : N := 3.

(* One roster entry.  [t_owner] is the environment of the parent role (None = parent nil = unlocked);
   [t_active] is status ACTIVE (a TASK_RUNNING update was processed and no terminal update since). *)
(* A task is named by the environment it was launched for and the number of the role it was
   launched for (the harness maps the core's task ids to these names through the launch records of
   the simulated master).  Environment ids are unique (uid.New()). *)
Definition tid := (N * N)%type.
Definition tid_eqb (a b : tid) : bool := N.eqb (fst a) (fst b) && N.eqb (snd a) (snd b).
Definition mem_tid (k : tid) (l : list tid) : bool := existsb (tid_eqb k) l.
Definition tid_leb (a b : tid) : bool :=
  N.ltb (fst a) (fst b) || (N.eqb (fst a) (fst b) && N.leb (snd a) (snd b)).

Record task := mkTask {
  t_id : tid;
  t_owner : option N;
  t_active : bool;
  t_state : N;
  t_idok : bool;     (* agent and executor id still set (HandleExecutorFailed / HandleAgentFailed blank them) *)
 t_kill : N;        (* oracle: 0 the master takes KILL calls for this task; 1 it refuses them (the call returns
                        an error); 2 it refuses them and KillTasks still has an acknowledgement registered
                        for the task from a refused attempt, so that KillTasks passes it over *)
  t_ch : N           (* task class + host it runs on, as one code; 0 = a class no other role loads *)
}.

Definition roster := list task.

(* task.go:isLocked — parent role set AND all ids non-empty.  A task whose executor or agent failed
   keeps its parent role (it is still its environment's task: GetEnvironmentId) but is not locked. *)
Definition is_locked (t : task) : bool :=
  match t_owner t with Some _ => t_idok t | None => false end.

Definition owner_is (e : N) (t : task) : bool :=
  match t_owner t with Some o => N.eqb o e | None => false end.

Definition set_owner (o : option N) (t : task) : task :=
  mkTask (t_id t) o (t_active t) (t_state t) (t_idok t) (t_kill t) (t_ch t).
Definition set_state (s : N) (t : task) : task :=
  mkTask (t_id t) (t_owner t) (t_active t) s (t_idok t) (t_kill t) (t_ch t).
Definition set_dead (t : task) : task :=
  mkTask (t_id t) (t_owner t) false (if is_locked t then TS_ERROR else t_state t) (t_idok t) (t_kill t) (t_ch t).
(* HandleExecutorFailed / HandleAgentFailed: id blanked, state ERROR, status INACTIVE, parent kept *)
Definition set_failed (t : task) : task :=
  mkTask (t_id t) (t_owner t) false (t_state t) false (t_kill t) (t_ch t).
(* (the task manager's copy of the state becomes ERROR; the state of a task that is not ACTIVE is not observed,
   and when the executor reports in again the device is still in the state it was in) *)

Definition task_eqb (a b : task) : bool :=
  tid_eqb (t_id a) (t_id b) && option_eqb N.eqb (t_owner a) (t_owner b) &&
  Bool.eqb (t_active a) (t_active b) && N.eqb (t_state a) (t_state b) && Bool.eqb (t_idok a) (t_idok b) &&
  N.eqb (t_ch a) (t_ch b).
(* t_kill is an oracle / a registration inside the task manager: not observable, not compared *)

Definition find_task (id : tid) (r : roster) : option task :=
  find (fun t => tid_eqb (t_id t) id) r.

(* ---- releaseTasks(envId, tasks): per task, refuse if LOCKED by another environment, else clear the
   parent (so also for a task that is not locked any more because its executor / agent failed).
   Result: new roster and the number of refusals (taskReleaseErrors). *)
Fixpoint release (e : N) (ids : list tid) (r : roster) : roster * N :=
  match r with
  | [] => ([], 0)
  | t :: r' =>
      let '(r'', n) := release e ids r' in
      if mem_tid (t_id t) ids then
        match t_owner t with
        | Some o => if N.eqb o e || negb (t_idok t) then (set_owner None t :: r'', n) else (t :: r'', n + 1)
        | None => (t :: r'', n)
        end
      else (t :: r'', n)
  end.

(* ---- doKillTasks: every selected task is taken out of the roster and sent KILL (the ACTIVE ones with an
   acknowledgement awaited, the others - possibly still staging - best effort).  A KILL call that the master
   refuses for an ACTIVE task puts THAT task back into the roster and makes the request report an error; it
   changes nothing for the other tasks of the request. *)
Definition kill_refused (t : task) : bool := t_active t && negb (N.eqb (t_kill t) 0).
Definition set_kill (k : N) (t : task) : task :=
  mkTask (t_id t) (t_owner t) (t_active t) (t_state t) (t_idok t) k (t_ch t).

(* ---- KillTasks(ids): selects the listed tasks that are unlocked and have no kill acknowledgement
   pending; an acknowledgement is registered for every ACTIVE selected task and consumed only when the KILL
   call went through.  Result: roster, KILLed ids. *)
Definition kill_selected (ids : list tid) (t : task) : bool :=
  mem_tid (t_id t) ids && negb (is_locked t) && negb (N.eqb (t_kill t) 2).
Fixpoint kill_tasks (ids : list tid) (r : roster) : roster * list tid :=
  match r with
  | [] => ([], [])
  | t :: r' =>
      let '(r'', k) := kill_tasks ids r' in
      if kill_selected ids t
      then if kill_refused t then (set_kill 2 t :: r'', k) else (r'', t_id t :: k)
      else (t :: r'', k)
  end.
Definition kill_tasks_err (ids : list tid) (r : roster) : bool :=
  existsb (fun t => kill_selected ids t && kill_refused t) r.

(* ---- Cleanup(): doKillTasks for every unlocked task of the roster (no acknowledgements involved). *)
Fixpoint cleanup (r : roster) : roster * list tid :=
  match r with
  | [] => ([], [])
  | t :: r' =>
      let '(r'', k) := cleanup r' in
      if negb (is_locked t)
      then if kill_refused t then (t :: r'', k) else (r'', t_id t :: k)
      else (t :: r'', k)
  end.
Definition cleanup_err (r : roster) : bool :=
  existsb (fun t => negb (is_locked t) && kill_refused t) r.

(* ---- task.go:IsClaimable, as the truth table read from the source on every run (gen/Gen_Claimable.v) *)
Definition claimable (t : task) : bool :=
  existsb (fun p => Bool.eqb (fst (fst (fst p))) (is_locked t) && Bool.eqb (snd (fst (fst p))) (t_active t) &&
                    N.eqb (snd (fst p)) (if N.leb (t_state t) 3 then t_state t else 9) && snd p)
          claimable_table.

(* acquireTasks with reuseUnlockedTasks: the first claimable task of the roster that runs the wanted class
   on the wanted host *)
Fixpoint first_claimable (ch : N) (r : roster) : option tid :=
  match r with
  | [] => None
  | t :: r' => if claimable t && N.eqb (t_ch t) ch then Some (t_id t) else first_claimable ch r'
  end.

(* ---- a Cleanup that acts on a list of unlocked tasks [ids] computed EARLIER (it waited in between).
   Manager.Cleanup computes its list and kills with no lock acquisition or other blocking point in between
   (gen/Gen_CleanupAtomic.v, read from the source on every run), so the list is never stale: acting on it is
   acting on tasks that are unlocked now.  Without that fact the listed tasks are killed and dropped whether
   or not they are locked by now. *)
Fixpoint force_kill (ids : list tid) (r : roster) : roster * list tid :=
  match r with
  | [] => ([], [])
  | t :: r' => let '(r'', k) := force_kill ids r' in
               if mem_tid (t_id t) ids then (r'', t_id t :: k) else (t :: r'', k)
  end.
Definition stale_cleanup (ids : list tid) (r : roster) : roster * list tid :=
  if cleanup_no_block then kill_tasks ids r else force_kill ids r.

(* ---- a TASK_RUNNING update from the executor of a task whose executor had been reported failed: the ids
   are set again (updateTaskStatus), the task is ACTIVE and - if it still has its parent - locked again *)
Definition relock_task (id : tid) (r : roster) : roster :=
  map (fun t => if tid_eqb (t_id t) id && negb (t_idok t)
                then mkTask (t_id t) (t_owner t) true (t_state t) true (t_kill t) (t_ch t) else t) r.

(* ---- the master starts refusing the KILL calls for the tasks [ids] *)
Definition refuse_tasks (ids : list tid) (r : roster) : roster :=
  map (fun t => if mem_tid (t_id t) ids && N.eqb (t_kill t) 0 then set_kill 1 t else t) r.

(* ---- a transition command for environment [e] addressed to [targets]: the targets that
   acknowledge go to [dst]; those listed in [refuse] answer with an error and keep their state.
   Only tasks that [e] owns can be in its workflow's task list, hence the owner test. *)
Definition command (e : N) (targets : list tid) (refuse : list tid) (dst : N) (r : roster) : roster :=
  map (fun t =>
         if owner_is e t && mem_tid (t_id t) targets && negb (mem_tid (t_id t) refuse)
         then set_state dst t else t) r.

(* ---- a terminal status update (TASK_FAILED ...) for one task: status INACTIVE; state ERROR if it
   is locked (handleMessage: t.IsLocked() -> updateTaskState ERROR). *)
Definition task_dies (id : tid) (r : roster) : roster :=
  map (fun t => if tid_eqb (t_id t) id then set_dead t else t) r.

(* ---- the executor / the agent of the tasks [ids] failed *)
Definition fail_tasks (ids : list tid) (r : roster) : roster :=
  map (fun t => if mem_tid (t_id t) ids then set_failed t else t) r.

(* ---- a TASK_RUNNING status update that comes from the master (answer to the reconciliation after a
   re-subscription): it names the agent but no executor.  updateTaskStatus writes the fields listed in
   gen/Gen_UtsWrites.v (regenerated from the source on every run); a write of executorId that is not
   guarded by "the update carries an executor id" blanks it. *)
Definition recon_blanks : bool :=
  existsb (fun p => N.eqb (fst p) 3 && negb (snd p)) uts_running_writes.
Definition recon_task (t : task) : task :=
  if t_active t && t_idok t
  then mkTask (t_id t) (t_owner t) true (t_state t) (negb recon_blanks) (t_kill t) (t_ch t)
  else t.
Definition recon_tasks (r : roster) : roster := map recon_task r.

(* ids of the tasks a given environment owns *)
Definition owned_ids (e : N) (r : roster) : list tid :=
  map t_id (filter (owner_is e) r).

Definition active_owned_in (e : N) (ids : list tid) (r : roster) : list tid :=
  map t_id (filter (fun t => owner_is e t && t_active t && mem_tid (t_id t) ids) r).

(* insertion sort on N keys, used for canonical observations only *)
Fixpoint insN (x : N) (l : list N) : list N :=
  match l with
  | [] => [x]
  | y :: r => if N.leb x y then x :: l else y :: insN x r
  end.
Definition sortN (l : list N) : list N := fold_right insN [] l.

Fixpoint dedupN (l : list N) : list N :=   (* on a sorted list *)
  match l with
  | [] => []
  | x :: r => match r with
              | [] => [x]
              | y :: _ => if N.eqb x y then dedupN r else x :: dedupN r
              end
  end.

Fixpoint ins_tid (x : tid) (l : list tid) : list tid :=
  match l with
  | [] => [x]
  | y :: r => if tid_leb x y then x :: l else y :: ins_tid x r
  end.
Definition sort_tids (l : list tid) : list tid := fold_right ins_tid [] l.

Fixpoint ins_task (x : task) (l : roster) : roster :=
  match l with
  | [] => [x]
  | y :: r => if tid_leb (t_id x) (t_id y) then x :: l else y :: ins_task x r
  end.
Definition sort_roster (l : roster) : roster := fold_right ins_task [] l.
