(* Model of core/controlcommands: CommandQueue (Enqueue, the queue goroutine, commit),
   Servent (pending map, RunCommand, ProcessResponse) and consolidateResponses.
   Definitions only.

   Concurrency is a schedule: a list of [label]s.  Every lock-protected section of the Go code
   is one atomic step; the places where the code blocks (SendFunc, the select on Done / timer,
   the unbuffered send on Done inside ProcessResponse) are the boundaries between steps.

   Go object                         model
   -------------------------------   ------------------------------------------------------
   CommandQueue.q (buffered chan)    s_queue (FIFO)
   the commit in progress            s_cur : option commit (one at a time: queue goroutine + lock)
   goroutine per target              k_workers : list wstate, position = position in TargetList
   semaphore channel, receive loop   k_coll (arrival order of the per-target results)
   Servent.pending                   s_pending : (id,target) -> call
   *Call (heap object)               a fresh number (s_next)
   ProcessResponse blocked in
     call.Done <- with Response set  s_offers : (call, payload)
   value sent on entry.callback      s_out
   SendFunc invocations              s_sends *)
From Verif Require Export Common.
Open Scope N_scope.

(* ---------- results ---------- *)
Inductive entry :=
| EReply (p : N)      (* the response object handed to ProcessResponse, identified by its tag *)
| ESendErr            (* substitute response built from the SendFunc error *)
| ETimeout            (* substitute response built from the time-out error *)
| EOther.             (* anything else (never produced by the model; observations only) *)

Inductive result :=
| RNil                                (* nil response (no targets) *)
| RSingle (e : entry)                 (* exactly one distinct target: that response itself *)
| RMulti (m : list (N * entry))       (* MesosCommandMultiResponse, map dumped sorted by target *)
| RBad.                               (* observations only: inconsistent response object *)

Record command := mkCmd { c_id : N; c_targets : list N }.

(* per-target goroutine of commit, i.e. one invocation of Servent.RunCommand *)
Inductive wstate :=
| WInit                 (* spawned *)
| WReg (call : N)       (* pending[key] = call done; inside SendFunc *)
| WWait (call : N)      (* SendFunc returned nil; blocked in select *)
| WFail (call : N)      (* SendFunc returned an error; before the delete *)
| WTimedOut (call : N)  (* select took the timer, call.Error set; before the delete *)
| WFin.                 (* result handed to the semaphore *)

Record commit := mkCommit {
  k_cmd : command;
  k_workers : list wstate;
  k_coll : list (N * entry)      (* (receiver, response) in semaphore arrival order *)
}.

Definition key := (N * N)%type.   (* CallId{Id, Target} *)
Definition key_eqb (a b : key) : bool := (fst a =? fst b) && (snd a =? snd b).

Record state := mkState {
  s_queue : list command;
  s_cur : option commit;
  s_pending : list (key * N);
  s_offers : list (N * N);
  s_next : N;
  s_out : list (command * result);
  s_sends : list (N * N * bool)      (* (id, target, returned nil) in return order *)
}.

Definition init : state := mkState [] None [] [] 0 [] [].

(* ---------- the pending map ---------- *)
Fixpoint pend_get (k : key) (l : list (key * N)) : option N :=
  match l with
  | [] => None
  | (k', v) :: r => if key_eqb k k' then Some v else pend_get k r
  end.
Fixpoint pend_del (k : key) (l : list (key * N)) : list (key * N) :=
  match l with
  | [] => []
  | (k', v) :: r => if key_eqb k k' then pend_del k r else (k', v) :: pend_del k r
  end.
Definition pend_put (k : key) (v : N) (l : list (key * N)) : list (key * N) :=
  (k, v) :: pend_del k l.

(* ---------- offers: responders blocked on call.Done ---------- *)
Fixpoint offer_get (c : N) (l : list (N * N)) : option N :=
  match l with
  | [] => None
  | (c', p) :: r => if c =? c' then Some p else offer_get c r
  end.
Fixpoint offer_del (c : N) (l : list (N * N)) : list (N * N) :=
  match l with
  | [] => []
  | (c', p) :: r => if c =? c' then r else (c', p) :: offer_del c r
  end.

(* ---------- list update ---------- *)
Fixpoint set_nth {A} (n : nat) (x : A) (l : list A) : list A :=
  match l, n with
  | [], _ => []
  | _ :: r, O => x :: r
  | y :: r, S n' => y :: set_nth n' x r
  end.

(* ---------- consolidateResponses over the map built by the receive loop ---------- *)
(* responses[receiver] = response : sorted association list, later writes win *)
Fixpoint mput (k : N) (v : entry) (m : list (N * entry)) : list (N * entry) :=
  match m with
  | [] => [(k, v)]
  | (k', v') :: r =>
    if k =? k' then (k, v) :: r
    else if k <? k' then (k, v) :: m
    else (k', v') :: mput k v r
  end.
Definition build_map (coll : list (N * entry)) : list (N * entry) :=
  fold_left (fun m kv => mput (fst kv) (snd kv) m) coll [].
Definition consolidate (coll : list (N * entry)) : result :=
  match build_map coll with
  | [] => RNil
  | [(_, e)] => RSingle e
  | m => RMulti m
  end.

(* ---------- labels: scheduler and environment choices ---------- *)
Inductive label :=
| LEnqueue (c : command)           (* Enqueue accepted (queue not full) *)
| LStart                           (* queue goroutine takes the next entry; commit spawns workers *)
| LRegister (w : nat)              (* worker w: lock; pending[key] = NewCall; unlock *)
| LSendOk (id : N) (w : nat)       (* SendFunc of worker w of command id returns nil *)
| LSendErr (id : N) (w : nat)      (* ... returns an error *)
| LFailCleanup (w : nat)           (* lock; delete(pending,key); unlock; return nil,err; semaphore *)
| LRecv (w : nat)                  (* select: <-call.Done; return call.Response; semaphore *)
| LTimeout (id : N) (w : nat)      (* select: timer of worker w of command id; call.Error set *)
| LTimeoutCleanup (w : nat)        (* lock; delete(pending,key); unlock; return nil,err; semaphore *)
| LDeliver (id t p : N)            (* ProcessResponse(res{CommandId=id, tag p}, sender t) *)
| LFinish.                         (* all results received: consolidate; callback <- response *)

Definition with_cur (st : state) (k : option commit) : state :=
  mkState (s_queue st) k (s_pending st) (s_offers st) (s_next st) (s_out st) (s_sends st).

Definition set_worker (k : commit) (w : nat) (ws : wstate) : commit :=
  mkCommit (k_cmd k) (set_nth w ws (k_workers k)) (k_coll k).

Definition fin_worker (k : commit) (w : nat) (t : N) (e : entry) : commit :=
  mkCommit (k_cmd k) (set_nth w WFin (k_workers k)) (k_coll k ++ [(t, e)]).

(* worker w of the commit in progress: (commit, its state, its target) *)
Definition worker_at (st : state) (w : nat) : option (commit * wstate * N) :=
  match s_cur st with
  | Some k =>
    match nth_error (k_workers k) w, nth_error (c_targets (k_cmd k)) w with
    | Some ws, Some t => Some (k, ws, t)
    | _, _ => None
    end
  | None => None
  end.

(* [None] = the label is not enabled in this state *)
Definition step_opt (st : state) (l : label) : option state :=
  match l with
  | LEnqueue c =>
    Some (mkState (s_queue st ++ [c]) (s_cur st) (s_pending st) (s_offers st) (s_next st)
                  (s_out st) (s_sends st))
  | LStart =>
    match s_cur st, s_queue st with
    | None, c :: q =>
      Some (mkState q (Some (mkCommit c (repeat WInit (length (c_targets c))) []))
                    (s_pending st) (s_offers st) (s_next st) (s_out st) (s_sends st))
    | _, _ => None
    end
  | LRegister w =>
    match worker_at st w with
    | Some (k, WInit, t) =>
      Some (mkState (s_queue st) (Some (set_worker k w (WReg (s_next st))))
                    (pend_put (c_id (k_cmd k), t) (s_next st) (s_pending st))
                    (s_offers st) (N.succ (s_next st)) (s_out st) (s_sends st))
    | _ => None
    end
  | LSendOk id w =>
    match worker_at st w with
    | Some (k, WReg c, t) =>
      if c_id (k_cmd k) =? id then
        Some (mkState (s_queue st) (Some (set_worker k w (WWait c))) (s_pending st) (s_offers st)
                      (s_next st) (s_out st) (s_sends st ++ [(id, t, true)]))
      else None
    | _ => None
    end
  | LSendErr id w =>
    match worker_at st w with
    | Some (k, WReg c, t) =>
      if c_id (k_cmd k) =? id then
        Some (mkState (s_queue st) (Some (set_worker k w (WFail c))) (s_pending st) (s_offers st)
                      (s_next st) (s_out st) (s_sends st ++ [(id, t, false)]))
      else None
    | _ => None
    end
  | LFailCleanup w =>
    match worker_at st w with
    | Some (k, WFail c, t) =>
      Some (mkState (s_queue st) (Some (fin_worker k w t ESendErr))
                    (pend_del (c_id (k_cmd k), t) (s_pending st))
                    (s_offers st) (s_next st) (s_out st) (s_sends st))
    | _ => None
    end
  | LRecv w =>
    match worker_at st w with
    | Some (k, WWait c, t) =>
      match offer_get c (s_offers st) with
      | Some p =>
        Some (mkState (s_queue st) (Some (fin_worker k w t (EReply p))) (s_pending st)
                      (offer_del c (s_offers st)) (s_next st) (s_out st) (s_sends st))
      | None => None
      end
    | _ => None
    end
  | LTimeout id w =>
    match worker_at st w with
    | Some (k, WWait c, t) =>
      if c_id (k_cmd k) =? id then Some (with_cur st (Some (set_worker k w (WTimedOut c))))
      else None
    | _ => None
    end
  | LTimeoutCleanup w =>
    match worker_at st w with
    | Some (k, WTimedOut c, t) =>
      Some (mkState (s_queue st) (Some (fin_worker k w t ETimeout))
                    (pend_del (c_id (k_cmd k), t) (s_pending st))
                    (s_offers st) (s_next st) (s_out st) (s_sends st))
    | _ => None
    end
  | LDeliver id t p =>
    match pend_get (id, t) (s_pending st) with
    | Some c =>
      Some (mkState (s_queue st) (s_cur st) (pend_del (id, t) (s_pending st))
                    ((c, p) :: s_offers st) (s_next st) (s_out st) (s_sends st))
    | None => Some st          (* "no pending request found": dropped *)
    end
  | LFinish =>
    match s_cur st with
    | Some k =>
      if forallb (fun ws => match ws with WFin => true | _ => false end) (k_workers k) then
        Some (mkState (s_queue st) None (s_pending st) (s_offers st) (s_next st)
                      (s_out st ++ [(k_cmd k, consolidate (k_coll k))]) (s_sends st))
      else None
    | None => None
    end
  end.

Definition step (st : state) (l : label) : state :=
  match step_opt st l with Some st' => st' | None => st end.
Definition enabled (st : state) (l : label) : bool :=
  match step_opt st l with Some _ => true | None => false end.

Definition run_from (st : state) (sched : list label) : state := fold_left step sched st.
Definition run (sched : list label) : state := run_from init sched.

(* ---------- progress measure: number of steps still owed ---------- *)
Definition wmeasure (ws : wstate) : nat :=
  match ws with
  | WInit => 4 | WReg _ => 3 | WWait _ => 2 | WFail _ => 1 | WTimedOut _ => 1 | WFin => 0
  end%nat.
Definition sum_nat (l : list nat) : nat := fold_right Nat.add O l.
Definition kmeasure (k : commit) : nat := S (sum_nat (map wmeasure (k_workers k))).
Definition cmeasure (c : command) : nat := S (S (4 * length (c_targets c))).
Definition measure (st : state) : nat :=
  (sum_nat (map cmeasure (s_queue st)) +
   match s_cur st with Some k => kmeasure k | None => O end)%nat.

(* labels that are the code's own moves (everything except Enqueue and ProcessResponse) *)
Definition progress_label (l : label) : bool :=
  match l with LEnqueue _ | LDeliver _ _ _ => false | _ => true end.
(* labels the environment does not control at all: they happen as soon as they can *)
Definition internal_label (l : label) : bool :=
  match l with
  | LStart | LRegister _ | LFailCleanup _ | LRecv _ | LTimeoutCleanup _ | LFinish => true
  | _ => false
  end.

(* ---------- eager closure under internal steps (what the code does when left alone) ---------- *)
Definition internal_candidates (st : state) : list label :=
  match s_cur st with
  | None => [LStart]
  | Some k =>
    LFinish ::
    flat_map (fun w => [LRegister w; LFailCleanup w; LTimeoutCleanup w; LRecv w])
             (seq 0 (length (k_workers k)))
  end.
Definition first_internal (st : state) : option label :=
  find (enabled st) (internal_candidates st).
Fixpoint settle_fuel (fuel : nat) (st : state) : state :=
  match fuel with
  | O => st
  | S f => match first_internal st with
           | Some l => settle_fuel f (step st l)
           | None => st
           end
  end.
Definition settle (st : state) : state := settle_fuel (measure st) st.

(* a harness script: environment labels only, the code settles after each of them *)
Definition hstep (st : state) (l : label) : state := settle (step st l).
Definition hrun (script : list label) : state := fold_left hstep script (settle init).

(* a harness script with HELD steps: [holds] lists the (0-based) positions of the script after
   which the code is NOT left to settle (the harness holds the servent mutex, so no clean-up
   can run) before the next environment action is issued.  This is how the schedule "the timer
   has won the select, the late reply takes the call out of pending before the clean-up" is
   forced in the implementation.  With [holds = []] this is [hrun]. *)
Fixpoint hrunh_from (holds : list N) (i : N) (st : state) (script : list label) : state :=
  match script with
  | [] => st
  | l :: r => hrunh_from holds (N.succ i)
                (if memN i holds then step st l else settle (step st l)) r
  end.
Definition hrunh (holds : list N) (script : list label) : state :=
  hrunh_from holds 0 (settle init) script.

(* ---------- decidable equalities for observations ---------- *)
Definition entry_eqb (a b : entry) : bool :=
  match a, b with
  | EReply p, EReply q => p =? q
  | ESendErr, ESendErr | ETimeout, ETimeout | EOther, EOther => true
  | _, _ => false
  end.
Definition te_eqb (a b : N * entry) : bool := (fst a =? fst b) && entry_eqb (snd a) (snd b).
Definition result_eqb (a b : result) : bool :=
  match a, b with
  | RNil, RNil | RBad, RBad => true
  | RSingle e, RSingle f => entry_eqb e f
  | RMulti m, RMulti n => list_eqb te_eqb m n
  | _, _ => false
  end.
Definition cmd_eqb (a b : command) : bool :=
  (c_id a =? c_id b) && list_eqb N.eqb (c_targets a) (c_targets b).

(* ---------- sorting (id,target) pairs ---------- *)
Definition nn_leb (a b : N * N) : bool :=
  (fst a <? fst b) || ((fst a =? fst b) && (snd a <=? snd b)).
Fixpoint nn_insert (x : N * N) (l : list (N * N)) : list (N * N) :=
  match l with
  | [] => [x]
  | y :: r => if nn_leb x y then x :: l else y :: nn_insert x r
  end.
Definition nn_sort (l : list (N * N)) : list (N * N) := fold_right nn_insert [] l.
Definition nn_eqb (a b : N * N) : bool := (fst a =? fst b) && (snd a =? snd b).

Fixpoint n_insert (x : N) (l : list N) : list N :=
  match l with
  | [] => [x]
  | y :: r => if x <=? y then x :: l else y :: n_insert x r
  end.
Definition n_sort (l : list N) : list N := fold_right n_insert [] l.

(* ---------- the case type written by harness/cmd/h12 ---------- *)
(* i_script : environment labels only (LEnqueue, LSendOk, LSendErr, LTimeout, LDeliver).
   o_outs   : per LEnqueue of the script, in script order: (number of values received on that
              command's callback channel, the last such value).
   o_sends  : sorted (id, target) of every SendFunc invocation.
   o_pending: number of keys left in Servent.pending at the end.
   o_leaks  : ProcessResponse goroutines still blocked on Done at the end.
   i_level  : 0 = the script is played through CommandQueue.Enqueue; 1 = the harness plays
              commit itself (one goroutine per target calling the real Servent.RunCommand, one
              command at a time, same consolidation), so that a RunCommand returning neither a
              response nor an error is observed instead of crashing the process.
   i_holds  : positions of held steps (see [hrunh]).
   o_when   : per LEnqueue of the script: 1-based number of the script step after which the
              command was first seen completed (0 = not during the script).
   o_nils   : RunCommand invocations that returned (nil, nil) (level 1 only).
   o_crash  : 1 = the process running the core died (panic) while playing this script.
   o_timing : timed scripts only (one command with very many targets through the real queue,
              SendFunc returning at once, live targets answering at once, the others silent):
              per command (response timeout, time from Enqueue to the callback, time from Enqueue
              to the LAST SendFunc invocation), in milliseconds; [] otherwise. *)
Record c12_case := mkCase {
  i_script : list label;
  i_level : N;
  i_holds : list N;
  o_outs : list (N * result);
  o_sends : list (N * N);
  o_pending : N;
  o_leaks : N;
  o_when : list N;
  o_nils : N;
  o_crash : N;
  o_timing : list (N * N * N)
}.

Definition enq_cmds (s : list label) : list command :=
  flat_map (fun l => match l with LEnqueue c => [c] | _ => [] end) s.

Definition outs_for (out : list (command * result)) (c : command) : N * result :=
  let hits := filter (fun cr => cmd_eqb (fst cr) c) out in
  (Nlen hits, match rev hits with (_, r) :: _ => r | [] => RNil end).

Definition model_outs (script : list label) (st : state) : list (N * result) :=
  map (outs_for (s_out st)) (enq_cmds script).
Definition model_sends (st : state) : list (N * N) :=
  nn_sort (map (fun x => (fst (fst x), snd (fst x))) (s_sends st)).

Definition nr_eqb (a b : N * result) : bool := (fst a =? fst b) && result_eqb (snd a) (snd b).

(* 1-based number of the script step after which command c is first seen completed (its value
   has been handed to the callback); 0 = not during the script *)
Fixpoint seen_from (holds : list N) (i : N) (st : state) (script : list label) (c : command) : N :=
  match script with
  | [] => 0
  | l :: r =>
    let st2 := if memN i holds then step st l else settle (step st l) in
    (* timers run by themselves: within a batch of consecutive time-out steps the harness only
       looks after the last one *)
    let skip := match l, r with LTimeout _ _, LTimeout _ _ :: _ => true | _, _ => false end in
    if negb skip && existsb (fun cr => cmd_eqb (fst cr) c) (s_out st2) then N.succ i
    else seen_from holds (N.succ i) st2 r c
  end.

(* ---------- time bound ---------- *)
(* Time is not part of the model; what the model says about it is that no worker ever waits for
   another worker (every worker's moves are enabled by its own state alone, see
   C12_no_worker_waits_for_another): all targets are sent to at once and all timers run side by
   side, so a command whose SendFunc calls return at once completes one response timeout after
   Enqueue whatever the number of targets.  Evaluated on the measured times with a slack of two
   thirds of the timeout: 13 = completed later than that, 14 = a target was only sent to after
   half the timeout had passed (i.e. it had to wait for other targets). *)
Definition timing_code (x : N * N * N) : N :=
  let '(tmo, done, lastsend) := x in
  if tmo + (2 * tmo) / 3 <? done then 13
  else if tmo / 2 <? lastsend then 14
  else 0.

Definition model_when (holds : list N) (script : list label) : list N :=
  map (seen_from holds 0 (settle init) script) (enq_cmds script).

Definition corr12 (c : c12_case) : bool :=
  let st := hrunh (i_holds c) (i_script c) in
  list_eqb nr_eqb (model_outs (i_script c) st) (o_outs c) &&
  list_eqb nn_eqb (model_sends st) (o_sends c) &&
  (Nlen (s_pending st) =? o_pending c) &&
  (Nlen (s_offers st) =? o_leaks c) &&
  list_eqb N.eqb (model_when (i_holds c) (i_script c)) (o_when c) &&
  (o_nils c =? 0) && (o_crash c =? 0) &&
  forallb (fun x => timing_code x =? 0) (o_timing c).

(* ---------- the property evaluated on what the implementation did ---------- *)
(* Uses only the script (what the environment did) and the observation; never [step]. *)
Definition is_deliver (id t p : N) (l : label) : bool :=
  match l with LDeliver i u q => (i =? id) && (u =? t) && (q =? p) | _ => false end.
Definition is_senderr_of (c : command) (t : N) (l : label) : bool :=
  match l with
  | LSendErr i w => (i =? c_id c) && match nth_error (c_targets c) w with
                                     | Some u => u =? t | None => false end
  | _ => false
  end.
Definition is_timeout_of (c : command) (t : N) (l : label) : bool :=
  match l with
  | LTimeout i w => (i =? c_id c) && match nth_error (c_targets c) w with
                                     | Some u => u =? t | None => false end
  | _ => false
  end.

(* the part of the script after the (first) LEnqueue of c *)
Fixpoint after_enqueue (c : command) (s : list label) : list label :=
  match s with
  | [] => []
  | LEnqueue c' :: r => if cmd_eqb c c' then r else after_enqueue c r
  | _ :: r => after_enqueue c r
  end.

Definition mon_entry (s : list label) (c : command) (t : N) (e : entry) : N :=
  let s' := after_enqueue c s in
  match e with
  | EReply p => if existsb (is_deliver (c_id c) t p) s' then 0 else 4
  | ESendErr => if existsb (is_senderr_of c t) s' then 0 else 5
  | ETimeout => if existsb (is_timeout_of c t) s' then 0 else 6
  | EOther => 7
  end.

Fixpoint first_code (l : list N) : N :=
  match l with
  | [] => 0
  | x :: r => if x =? 0 then first_code r else x
  end.

Definition mon_cmd (s : list label) (c : command) (o : N * result) : N :=
  let '(fires, r) := o in
  if fires =? 0 then 1
  else if negb (fires =? 1) then 2
  else
    let ts := c_targets c in
    if nodupb N.eqb ts then
      match ts, r with
      | [], RNil => 0
      | [t], RSingle e => mon_entry s c t e
      | _ :: _ :: _, RMulti m =>
        if list_eqb N.eqb (map fst m) (n_sort ts)
        then first_code (map (fun te => mon_entry s c (fst te) (snd te)) m)
        else 3
      | _, RBad => 7
      | _, _ => 3
      end
    else
      (* duplicate targets are outside the property (a *set* of tasks); replies must still
         be own replies *)
      match r with
      | RSingle (EReply p) =>
        if existsb (fun t => existsb (is_deliver (c_id c) t p) s) ts then 0 else 4
      | RMulti m =>
        first_code (map (fun te => match snd te with
                                   | EReply p => if existsb (is_deliver (c_id c) (fst te) p) s
                                                 then 0 else 4
                                   | _ => 0 end) m)
      | RBad => 7
      | _ => 0
      end.

Fixpoint mon_cmds (s : list label) (cs : list command) (os : list (N * result)) : N :=
  match cs, os with
  | [], [] => 0
  | c :: cs', o :: os' =>
    let x := mon_cmd s c o in if x =? 0 then mon_cmds s cs' os' else x
  | _, _ => 1
  end.

(* completion must be justified: by the time command c is seen completed, every one of its
   targets has answered it (a ProcessResponse call with c's id from that target), or SendFunc
   failed for it, or its timer was allowed to fire.  Otherwise something else completed it
   (e.g. a completion signal left over from another command). *)
Definition justifies (c : command) (t : N) (l : label) : bool :=
  match l with LDeliver i u _ => (i =? c_id c) && (u =? t) | _ => false end
  || is_senderr_of c t l || is_timeout_of c t l.
Definition mon_when (s : list label) (c : command) (k : N) : N :=
  if k =? 0 then 0
  else if nodupb N.eqb (c_targets c) then
    let pre := after_enqueue c (firstn (N.to_nat k) s) in
    if forallb (fun t => existsb (justifies c t) pre) (c_targets c) then 0 else 10
  else 0.
Fixpoint mon_whens (s : list label) (cs : list command) (ws : list N) : N :=
  match cs, ws with
  | c :: cs', k :: ws' => let x := mon_when s c k in if x =? 0 then mon_whens s cs' ws' else x
  | _, _ => 0
  end.

Definition expected_sends (s : list label) : list (N * N) :=
  nn_sort (flat_map (fun c => map (fun t => (c_id c, t)) (c_targets c)) (enq_cmds s)).

(* codes: 1 never completed, 2 completed more than once, 3 result does not hold exactly the
   command's targets, 4 reply that is not an own reply, 5 send error reported without a send
   failure, 6 time-out reported although the timer was never allowed to fire (reply lost),
   7 unclassifiable entry, 8 SendFunc calls differ from one per target, 9 pending not empty,
   10 completed before its own targets answered / failed / timed out, 11 a RunCommand returned
   neither a response nor an error, 12 the core crashed, 13 completed later than its response
   timeout allows, 14 a target was sent to only after half the timeout (waited for others) *)
Definition mon12 (c : c12_case) : N :=
  if negb (o_crash c =? 0) then 12
  else if negb (o_nils c =? 0) then 11
  else if negb (first_code (map timing_code (o_timing c)) =? 0)
       then first_code (map timing_code (o_timing c))
  else
  let y := mon_whens (i_script c) (enq_cmds (i_script c)) (o_when c) in
  if negb (y =? 0) then y else
  let x := mon_cmds (i_script c) (enq_cmds (i_script c)) (o_outs c) in
  if negb (x =? 0) then x
  else if negb (list_eqb nn_eqb (expected_sends (i_script c)) (o_sends c)) then 8
  else if negb (o_pending c =? 0) then 9
  else 0.

(* ---------- branch tag: which decision points of the model the case went through ---------- *)
Definition holds_call (ws : wstate) (c : N) : bool :=
  match ws with
  | WReg d | WWait d | WFail d | WTimedOut d => c =? d
  | _ => false
  end.
Definition call_in_send (st : state) (c : N) : bool :=
  match s_cur st with
  | Some k => existsb (fun ws => match ws with WReg d => c =? d | _ => false end) (k_workers k)
  | None => false
  end.

Definition call_timed_out (st : state) (c : N) : bool :=
  match s_cur st with
  | Some k => existsb (fun ws => match ws with WTimedOut d => c =? d | _ => false end) (k_workers k)
  | None => false
  end.

Definition tag_step (st : state) (l : label) : N :=
  match l with
  | LSendErr _ _ => 1
  | LTimeout _ _ => 2
  | LDeliver id t p =>
    match pend_get (id, t) (s_pending st) with
    | Some c => if call_in_send st c then 4 else if call_timed_out st c then 256 else 8
    | None => 16
    end
  | _ => 0
  end.
Fixpoint tag_run (holds : list N) (i : N) (st : state) (s : list label) (acc : N) : N :=
  match s with
  | [] => acc
  | l :: r => tag_run holds (N.succ i) (if memN i holds then step st l else hstep st l) r
                      (N.lor acc (tag_step st l))
  end.
(* 256 = a reply took the call of a worker whose timer had already won the select (forced by a
   held step), 512 = played at the servent level *)
Definition tag12 (c : c12_case) : N :=
  let s := i_script c in
  let cs := enq_cmds s in
  N.lor (tag_run (i_holds c) 0 (settle init) s 0)
  (N.lor (if (1 <? Nlen cs) then 32 else 0)
  (N.lor (if negb (Nlen (s_offers (hrunh (i_holds c) s)) =? 0) then 64 else 0)
  (N.lor (if i_level c =? 0 then 0 else if i_level c =? 1 then 512 else 1024)
         (if forallb (fun c => nodupb N.eqb (c_targets c) && negb (Nlen (c_targets c) =? 0)) cs
          then 0 else 128)))).

Definition report12 := report corr12 mon12 tag12.
