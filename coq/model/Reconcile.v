(* C18 — model of the framework identity and of the reconciliation rule of the core
   (core/task/manager.go NewManager / handleMessage, core/task/scheduler.go reconciliationCall and
   the SUBSCRIBED chain, mesos-go controller.Run / TrackSubscription), definitions only.

   World: the Mesos master (tasks with the framework they belong to, alive or not, Mesos state),
   the persisted runtime entry aliecs/mesos_fid, and one core life (in-memory framework id, roster,
   environments, reconciliation answers still in flight).  A history is a list of operations;
   [OAnswer] is the processing of ONE reconciliation answer, so a history fixes the interleaving of
   the answers with everything else.  The harness works at quiescent points: [hstep] is an
   operation followed by all its answers.

   Framework ids are numbers: 0 = the empty string, the master hands out 1, 2, ...; foreign ids
   (written into the store from outside) are >= 1000.  Task and environment ids are creation
   indices. *)
From Verif Require Import Common Gen_Reconcile.
Open Scope N_scope.

Record mtask := mkM { mt_id : N; mt_fw : N; mt_alive : bool; mt_state : N }.
Record rtask := mkR { rt_id : N; rt_env : option N; rt_active : bool }.

Record world := mkW {
  w_failover : bool;            (* mesosFailoverTimeout > 0 *)
  w_store : option N;           (* runtime entry aliecs/mesos_fid; None = no such key *)
  w_nextfw : N;                 (* next framework id the master hands out *)
  w_master : list mtask;
  w_mem : N;                    (* in-memory framework id of the current life (0 = none) *)
  w_roster : list rtask;
  w_envs : list N;              (* environments of the current life *)
  w_ntask : N;
  w_nenv : N;
  w_pending : list (N * N)      (* reconciliation answers in flight: (task, reported state) *)
}.

Inductive point := PIdle | PBeforeLaunch | PAfterLaunch | PMidConfigure.

Inductive op :=
| OCreate (k : N)                 (* CreateEnvironment: pre-deployment cleanup of the unlocked tasks,
                                     then k new tasks are acquired (ACCEPT + roster, locked) *)
| OStart (e : N)                  (* transitions that leave ownership alone *)
| ODestroy (e : N) (keep : bool)  (* teardown: release; unless keep, kill the released tasks.
                                     keep = keepTasks was asked AND the environment FSM (not modelled
                                     here) was in a state from which DestroyEnvironment honours it *)
| ODestroyStuck (e : N)           (* teardown whose KILLs have no effect yet: middle of a teardown *)
| ODie (t : N)                    (* a task terminates by itself *)
| OMesosState (t : N) (s : N)     (* the master's view of a live task moves to another live state *)
| OCleanup                        (* kill every unlocked roster task *)
| OStoreSet (v : option N)        (* the persisted id is overwritten / removed from outside *)
| OReconnect                      (* connection dropped and re-established *)
| OCrash (p : point) (k : N)      (* the core dies while a new environment of k tasks stands at p *)
| OAnswer                         (* one reconciliation answer is processed *)
| OCreateHeld (k : N) (s : N)     (* CreateEnvironment up to the LAUNCH WINDOW: the k tasks are accepted
                                     by the master and in the roster, locked by the new environment, but
                                     their first TASK_RUNNING has not been delivered (not ACTIVE yet);
                                     the master has them as s = STAGING, or STARTING / RUNNING with the
                                     update still on its way *)
| ORun (t : N)                    (* the executor of t reports TASK_RUNNING (for a held task: the first) *)
| OLost (t : N)                   (* the master declares t lost (agent unreachable) but still has it:
                                     TASK_LOST update, the task stays alive at the master *)
| OLoseAnswers                    (* the reconciliation answers still in flight are lost (the connection
                                     drops before they are delivered, or the RECONCILE call failed) *)
| OCrashLost (p : point) (k : N)  (* OCrash p k whose reconciliation is lost, then the automatic
                                     re-subscription: = OCrash p k; OLoseAnswers; OReconnect *)
| OReconnectLost                  (* = OReconnect; OLoseAnswers; OReconnect *)
| OReconnectOmit (om : N)         (* a reconnection whose answers lack optional fields (bits of om:
                                     1 executor_id, 2 agent_id, 4 source): as a step it is OReconnect,
                                     its answers are processed by [OAnswerBare om] *)
| OAnswerBare (om : N)            (* one reconciliation answer that lacks the fields om is processed *)
| OKillHeld (e : N)               (* teardown of e whose Mesos KILL calls the master HOLDS: doKillTasks has taken
                                     the tasks of e out of the roster and sits in the first call; the
                                     life goes on meanwhile (another environment can be deployed) *)
| OKillRefused (ts : list N)      (* the held KILL calls fail: the tasks ts (the ACTIVE ones of the set) are put
                                     back into the roster one by one, unlocked - and nothing else changes *)
| OKillIds (ts : list N).         (* KillTasks with an explicit list of task ids (CleanupTasks RPC with ids,
                                     repeated teardown): ids that are stale, already gone or locked by an
                                     environment are not killable and must change nothing *)

Inductive call :=
| CSubscribe (carried : bool) (id : N)
| CReconcile
| CLaunch (t : N) (fw : N)
| CKill (t : N).

(* ---------- helpers ---------- *)
Definition set_w_pending (w : world) p :=
  mkW (w_failover w) (w_store w) (w_nextfw w) (w_master w) (w_mem w) (w_roster w) (w_envs w)
      (w_ntask w) (w_nenv w) p.

Definition in_roster (t : N) (ros : list rtask) : bool :=
  existsb (fun r => N.eqb (rt_id r) t) ros.

Definition owned_by (envs : list N) (r : rtask) : bool :=
  match rt_env r with Some e => memN e envs | None => false end.

(* task t is in the roster, locked by an environment that is alive *)
Definition owned (w : world) (t : N) : bool :=
  existsb (fun r => N.eqb (rt_id r) t && owned_by (w_envs w) r) (w_roster w).

Definition master_kill (ts : list N) (m : list mtask) : list mtask :=
  map (fun x => if memN (mt_id x) ts then mkM (mt_id x) (mt_fw x) false (mt_state x) else x) m.

Definition roster_deactivate (ts : list N) (ros : list rtask) : list rtask :=
  map (fun r => if memN (rt_id r) ts then mkR (rt_id r) (rt_env r) false else r) ros.

Definition roster_activate (ts : list N) (ros : list rtask) : list rtask :=
  map (fun r => if memN (rt_id r) ts then mkR (rt_id r) (rt_env r) true else r) ros.

(* the master's view of the live tasks ts becomes s *)
Definition master_state (ts : list N) (s : N) (m : list mtask) : list mtask :=
  map (fun x => if memN (mt_id x) ts && mt_alive x then mkM (mt_id x) (mt_fw x) true s else x) m.

Definition alive_at (t : N) (m : list mtask) : bool :=
  existsb (fun x => N.eqb (mt_id x) t && mt_alive x) m.

(* the task loses its lock (Task.isLocked needs a non-empty executor id and agent id) *)
Definition roster_unlock (ts : list N) (ros : list rtask) : list rtask :=
  map (fun r => if memN (rt_id r) ts then mkR (rt_id r) None (rt_active r) else r) ros.

Definition set_master_roster (w : world) (m : list mtask) (ros : list rtask) : world :=
  mkW (w_failover w) (w_store w) (w_nextfw w) m (w_mem w) ros (w_envs w)
      (w_ntask w) (w_nenv w) (w_pending w).

Fixpoint new_ids (from : N) (k : nat) : list N :=
  match k with O => [] | S k' => from :: new_ids (N.succ from) k' end.

(* ---------- launching the tasks of a new environment ---------- *)
Definition launch (w : world) (k : N) : world * list call :=
  let ids := new_ids (w_ntask w) (N.to_nat k) in
  let e := w_nenv w in
  (mkW (w_failover w) (w_store w) (w_nextfw w)
       (w_master w ++ map (fun t => mkM t (w_mem w) true mesos_running) ids)
       (w_mem w)
       (w_roster w ++ map (fun t => mkR t (Some e) true) ids)
       (w_envs w ++ [e]) (w_ntask w + k) (N.succ e) (w_pending w),
   map (fun t => CLaunch t (w_mem w)) ids).

(* ---------- SUBSCRIBE, SUBSCRIBED (TrackSubscription), implicit reconciliation ---------- *)
Definition snapshot (fw : N) (m : list mtask) : list (N * N) :=
  map (fun x => (mt_id x, mt_state x))
      (filter (fun x => mt_alive x && N.eqb (mt_fw x) fw) m).

Definition subscribe (w : world) : world * list call :=
  let carried := w_failover w && negb (N.eqb (w_mem w) 0) in
  let id := if carried then w_mem w else w_nextfw w in
  let nextfw := if carried then w_nextfw w else N.succ (w_nextfw w) in
  let changed := negb (N.eqb (w_mem w) id) in
  (mkW (w_failover w) (if changed then Some id else w_store w) nextfw (w_master w) id
       (w_roster w) (w_envs w) (w_ntask w) (w_nenv w) (snapshot id (w_master w)),
   [CSubscribe carried id; CReconcile]).

(* ---------- teardown pieces ---------- *)
Definition release (e : N) (ros : list rtask) : list rtask :=
  map (fun r => if option_eqb N.eqb (rt_env r) (Some e) then mkR (rt_id r) None (rt_active r) else r) ros.

Definition env_tasks (e : N) (ros : list rtask) : list rtask :=
  filter (fun r => option_eqb N.eqb (rt_env r) (Some e)) ros.

(* KillTasks / Cleanup on a set of roster tasks: all leave the roster, the ACTIVE ones get KILL;
   the others too iff doKillTasks has its second, best-effort loop (kill_inactive, regenerated) *)
Definition kill_set (victims : list rtask) : list N :=
  map rt_id (filter (fun r => rt_active r || kill_inactive) victims).

Definition remove_ids (ts : list N) (ros : list rtask) : list rtask :=
  filter (fun r => negb (memN (rt_id r) ts)) ros.

Definition remove_env (e : N) (envs : list N) : list N :=
  filter (fun x => negb (N.eqb x e)) envs.

Definition destroy (w : world) (e : N) (keep effective : bool) : world * list call :=
  if negb (memN e (w_envs w)) then (w, []) else
  let victims := env_tasks e (w_roster w) in
  let ros1 := release e (w_roster w) in
  if keep then
    (mkW (w_failover w) (w_store w) (w_nextfw w) (w_master w) (w_mem w) ros1
         (remove_env e (w_envs w)) (w_ntask w) (w_nenv w) (w_pending w), [])
  else
    let ks := kill_set victims in
    (mkW (w_failover w) (w_store w) (w_nextfw w)
         (if effective then master_kill ks (w_master w) else w_master w) (w_mem w)
         (remove_ids (map rt_id victims) ros1)
         (remove_env e (w_envs w)) (w_ntask w) (w_nenv w) (w_pending w),
     map CKill ks).

Definition cleanup (w : world) : world * list call :=
  let victims := filter (fun r => match rt_env r with None => true | Some _ => false end) (w_roster w) in
  let ks := kill_set victims in
  (mkW (w_failover w) (w_store w) (w_nextfw w) (master_kill ks (w_master w)) (w_mem w)
       (remove_ids (map rt_id victims) (w_roster w)) (w_envs w) (w_ntask w) (w_nenv w) (w_pending w),
   map CKill ks).

(* KillTasks(ids): of the listed ids only the roster tasks that are not locked are killable; they
   leave the roster and get KILL (like Cleanup restricted to the list); every other roster task -
   listed or not - stays where it is *)
Definition cleanup_ids (w : world) (ts : list N) : world * list call :=
  let victims := filter (fun r => memN (rt_id r) ts &&
                                  match rt_env r with None => true | Some _ => false end) (w_roster w) in
  let ks := kill_set victims in
  (mkW (w_failover w) (w_store w) (w_nextfw w) (master_kill ks (w_master w)) (w_mem w)
       (remove_ids (map rt_id victims) (w_roster w)) (w_envs w) (w_ntask w) (w_nenv w) (w_pending w),
   map CKill ks).

(* doKillTasks re-appends, task by task, what it could not kill *)
Fixpoint readd (ts : list N) (bound : N) (ros : list rtask) : list rtask :=
  match ts with
  | [] => ros
  | t :: r =>
    readd r bound (if negb (in_roster t ros) && N.ltb t bound then ros ++ [mkR t None true] else ros)
  end.

(* CreateEnvironment = Cleanup() of everything unlocked, then the deployment *)
Definition create (w : world) (k : N) : world * list call :=
  let '(w1, c1) := cleanup w in
  let '(w2, c2) := launch w1 k in (w2, c1 ++ c2).

(* the launch window: the deployment has accepted the offers and entered the k tasks into the
   roster; what the master knows of them is STAGING unless the harness says STARTING / RUNNING *)
Definition held_state (s : N) : N :=
  if N.eqb s mesos_starting || N.eqb s mesos_running then s else mesos_staging.

Definition create_held (w : world) (k s : N) : world * list call :=
  let ids := new_ids (w_ntask w) (N.to_nat k) in
  let '(w1, c1) := create w k in
  (set_master_roster w1 (master_state ids (held_state s) (w_master w1))
                     (roster_deactivate ids (w_roster w1)), c1).

(* ---------- one reconciliation answer (handleMessage, REASON_RECONCILIATION) ----------
   KILL, or else the ordinary path of a status update (updateTaskStatus): a roster task the
   master reports in an activating state (TASK_RUNNING) becomes ACTIVE, whatever it was *)
(* updateTaskStatus refreshes the agent id / executor id of the roster task from an activating
   status; with the refresh guarded by "the status carries the field" (status_refresh_guarded,
   regenerated) an answer without them changes nothing, otherwise it blanks them: lock lost *)
Definition refreshed (om : N) (t : N) (ros : list rtask) : list rtask :=
  if negb status_refresh_guarded && negb (N.eqb (N.land om 3) 0) then roster_unlock [t] ros else ros.

Definition answer_with (w : world) (om : N) : world * list call :=
  match w_pending w with
  | [] => (w, [])
  | (t, s) :: rest =>
    if memN s recon_kill_states && negb (recon_guarded && in_roster t (w_roster w)) then
      (mkW (w_failover w) (w_store w) (w_nextfw w) (master_kill [t] (w_master w)) (w_mem w)
           (roster_deactivate [t] (w_roster w)) (w_envs w) (w_ntask w) (w_nenv w) rest,
       [CKill t])
    else
      (mkW (w_failover w) (w_store w) (w_nextfw w) (w_master w) (w_mem w)
           (if memN s status_activating then refreshed om t (roster_activate [t] (w_roster w)) else w_roster w)
           (w_envs w) (w_ntask w) (w_nenv w) rest, [])
  end.

Definition answer (w : world) : world * list call := answer_with w 0.

(* ---------- crash: the objects of the life are gone, the id is reloaded from the store ---------- *)
Definition crash (w : world) : world :=
  mkW (w_failover w) (w_store w) (w_nextfw w) (w_master w)
      (match w_store w with Some v => v | None => 0 end) [] [] (w_ntask w) (w_nenv w) [].

(* the answers in flight are lost and the controller subscribes again *)
Definition resubscribe_after_loss (wc : world * list call) : world * list call :=
  let '(w2, c2) := wc in
  let '(w3, c3) := subscribe (set_w_pending w2 []) in (w3, c2 ++ c3).

(* the core dies while a new environment of k tasks stands at p; the new life subscribes *)
Definition crash_step (w : world) (p : point) (k : N) : world * list call :=
  let '(w1, c1) :=
    match p with
    | PIdle => (w, [])
    | PBeforeLaunch =>
      let '(w0, c0) := cleanup w in
      (mkW (w_failover w0) (w_store w0) (w_nextfw w0) (w_master w0) (w_mem w0) (w_roster w0) (w_envs w0)
           (w_ntask w0) (N.succ (w_nenv w0)) (w_pending w0), c0)
    | PAfterLaunch | PMidConfigure => create w k
    end in
  let '(w2, c2) := subscribe (crash w1) in
  (w2, c1 ++ c2).

Definition step (w : world) (o : op) : world * list call :=
  match o with
  | OCreate k => create w k
  | OStart _ => (w, [])
  | ODestroy e keep => destroy w e keep true
  | ODestroyStuck e => destroy w e false false
  | ODie t =>
    (mkW (w_failover w) (w_store w) (w_nextfw w) (master_kill [t] (w_master w)) (w_mem w)
         (roster_deactivate [t] (w_roster w)) (w_envs w) (w_ntask w) (w_nenv w) (w_pending w), [])
  | OMesosState t s =>
    if memN s mesos_live_states then
      (mkW (w_failover w) (w_store w) (w_nextfw w)
           (map (fun x => if N.eqb (mt_id x) t && mt_alive x then mkM (mt_id x) (mt_fw x) true s else x) (w_master w))
           (w_mem w) (w_roster w) (w_envs w) (w_ntask w) (w_nenv w) (w_pending w), [])
    else (w, [])
  | OCleanup => cleanup w
  | OStoreSet v =>
    (mkW (w_failover w) v (w_nextfw w) (w_master w) (w_mem w) (w_roster w) (w_envs w)
         (w_ntask w) (w_nenv w) (w_pending w), [])
  | OReconnect => subscribe w
  | OCrash p k =>
    let '(w1, c1) :=
      match p with
      | PIdle => (w, [])
      | PBeforeLaunch =>
        let '(w0, c0) := cleanup w in
        (mkW (w_failover w0) (w_store w0) (w_nextfw w0) (w_master w0) (w_mem w0) (w_roster w0) (w_envs w0)
             (w_ntask w0) (N.succ (w_nenv w0)) (w_pending w0), c0)
      | PAfterLaunch | PMidConfigure => create w k
      end in
    let '(w2, c2) := subscribe (crash w1) in
    (w2, c1 ++ c2)
  | OAnswer => answer w
  | OCreateHeld k s => create_held w k s
  | ORun t =>
    if alive_at t (w_master w) then
      (set_master_roster w (master_state [t] mesos_running (w_master w))
                         (roster_activate [t] (w_roster w)), [])
    else (w, [])
  | OLost t =>
    if alive_at t (w_master w) then
      (set_master_roster w (w_master w) (roster_deactivate [t] (w_roster w)), [])
    else (w, [])
  | OLoseAnswers => (set_w_pending w [], [])
  | OCrashLost p k => resubscribe_after_loss (crash_step w p k)
  | OReconnectLost => resubscribe_after_loss (subscribe w)
  | OReconnectOmit _ => subscribe w
  | OAnswerBare om => answer_with w om
  | OKillIds ts => cleanup_ids w ts
  | OKillHeld e => (fst (destroy w e false false), [])
  | OKillRefused ts => (set_master_roster w (w_master w) (readd ts (w_ntask w) (w_roster w)), [])
  end.

Fixpoint run (w : world) (ops : list op) : world * list call :=
  match ops with
  | [] => (w, [])
  | o :: r => let '(w1, c1) := step w o in
              let '(w2, c2) := run w1 r in (w2, c1 ++ c2)
  end.

(* before the first SUBSCRIBE, and after it (the state every history starts from) *)
Definition blank (fo : bool) : world := mkW fo None 1 [] 0 [] [] 0 0 [].
Definition boot (fo : bool) : world := fst (subscribe (blank fo)).

(* ---------- quiescent semantics used by the harness: an operation and all its answers ---------- *)
Definition drain_op (o : op) : op :=
  match o with OReconnectOmit om => OAnswerBare om | _ => OAnswer end.

Definition hstep (w : world) (o : op) : world * list call :=
  let '(w1, c1) := step w o in
  let '(w2, c2) := run w1 (repeat (drain_op o) (length (w_pending w1))) in
  (w2, c1 ++ c2).

(* ---------- observations ---------- *)
Record obs := mkObs {
  o_subs : list (bool * N);          (* per SUBSCRIBE: carried an id?, framework id *)
  o_rec : N;                         (* RECONCILE calls *)
  o_kills : list N;                  (* tasks that received KILL *)
  o_alive : list N;                  (* tasks alive at the master afterwards *)
  o_roster : list (N * (bool * bool)); (* (task, (locked, active)) of the current life *)
  o_envs : N;
  o_store : option N
}.

Fixpoint subs_of (cs : list call) : list (bool * N) :=
  match cs with
  | [] => []
  | CSubscribe c i :: r => (c, i) :: subs_of r
  | _ :: r => subs_of r
  end.
Fixpoint recs_of (cs : list call) : N :=
  match cs with
  | [] => 0
  | CReconcile :: r => N.succ (recs_of r)
  | _ :: r => recs_of r
  end.
Fixpoint kills_of (cs : list call) : list N :=
  match cs with
  | [] => []
  | CKill t :: r => t :: kills_of r
  | _ :: r => kills_of r
  end.

Fixpoint insertN (x : N) (l : list N) : list N :=
  match l with
  | [] => [x]
  | y :: r => if N.ltb x y then x :: l else if N.eqb x y then l else y :: insertN x r
  end.
Definition sort_dedup (l : list N) : list N := fold_right insertN [] l.

(* the roster is observed sorted by task id (a re-appended task sits at the end of the real roster) *)
Fixpoint insert_ros (x : N * (bool * bool)) (l : list (N * (bool * bool))) : list (N * (bool * bool)) :=
  match l with
  | [] => [x]
  | y :: r => if N.leb (fst x) (fst y) then x :: l else y :: insert_ros x r
  end.
Definition sort_ros (l : list (N * (bool * bool))) : list (N * (bool * bool)) := fold_right insert_ros [] l.

Definition observe (w : world) (cs : list call) : obs :=
  mkObs (subs_of cs) (recs_of cs) (sort_dedup (kills_of cs))
        (map mt_id (filter mt_alive (w_master w)))
        (sort_ros (map (fun r => (rt_id r, (match rt_env r with Some _ => true | None => false end, rt_active r))) (w_roster w)))
        (Nlen (w_envs w)) (w_store w).

Fixpoint hrun (w : world) (ops : list op) : list obs :=
  match ops with
  | [] => []
  | o :: r => let '(w1, c1) := hstep w o in observe w1 c1 :: hrun w1 r
  end.

Definition run_model (fo : bool) (ops : list op) : list obs :=
  let '(w0, c0) := subscribe (blank fo) in
  observe w0 c0 :: hrun w0 ops.

(* ---------- cases ---------- *)
Record c18_case := mkCase { c_failover : bool; c_ops : list op; c_obs : list obs }.

Definition listN_eqb := list_eqb N.eqb.
Definition obs_eqb (a b : obs) : bool :=
  list_eqb (pair_eqb Bool.eqb N.eqb) (o_subs a) (o_subs b) &&
  N.eqb (o_rec a) (o_rec b) &&
  listN_eqb (o_kills a) (o_kills b) &&
  listN_eqb (o_alive a) (o_alive b) &&
  list_eqb (pair_eqb N.eqb (pair_eqb Bool.eqb Bool.eqb)) (o_roster a) (o_roster b) &&
  N.eqb (o_envs a) (o_envs b) &&
  option_eqb N.eqb (o_store a) (o_store b).

Definition corr18 (c : c18_case) : bool :=
  list_eqb obs_eqb (run_model (c_failover c) (c_ops c)) (c_obs c).

(* ---------- the property, evaluated on what the implementation did ----------
   Input: the script and, per operation, the observation before and after it.  Nothing below
   calls [step].

   1  a SUBSCRIBE after the first does not carry the framework id of the first one
   2  the persisted framework id is not the one in use
   3  after a restart a task is still alive at the master and not in the roster of the new life
   5  a restart's reconciliation sent KILL to a task the new life owns
   4  a reconnection's reconciliation sent KILL to a task locked by an environment (the behaviour
      before the repair of C18-a: the KILL rule did not look the task up in the roster)
   6  the observation is malformed (not one record per operation)
   7  a reconnection (its reconciliation answers, whatever fields they carry) left a roster task
      that was locked by an environment in the roster but no longer locked
   8  Cleanup (explicit or at the start of a CreateEnvironment) or KillTasks with a list of ids
      sent KILL to a task that was locked
   9  after an operation that tears no environment down and is no restart, a task that was locked
      by an environment is no longer in the roster
   Clauses 1-3 are only demanded with failover enabled and while nobody tampered with the store. *)
Definition is_tamper (o : op) : bool := match o with OStoreSet _ => true | _ => false end.

Definition first_id (o0 : obs) : N :=
  match o_subs o0 with (_, i) :: _ => i | [] => 0 end.

Definition roster_locked (t : N) (ros : list (N * (bool * bool))) : bool :=
  existsb (fun x => N.eqb (fst x) t && fst (snd x)) ros.
Definition roster_has (t : N) (ros : list (N * (bool * bool))) : bool :=
  existsb (fun x => N.eqb (fst x) t) ros.

Definition first_nonzero (l : list N) : N :=
  match filter (fun c => negb (N.eqb c 0)) l with c :: _ => c | [] => 0 end.

(* the codes of one operation *)
Definition mon_op (fo tampered : bool) (id0 : N) (o : op) (before after : obs) : N :=
  let demanded := fo && negb tampered in
  if demanded && negb (forallb (fun s => fst s && N.eqb (snd s) id0) (o_subs after)) then 1
  else if demanded && negb (option_eqb N.eqb (o_store after) (Some id0)) then 2
  else match o with
       | OCrash _ _ | OCrashLost _ _ =>
         if demanded && negb (forallb (fun t => roster_has t (o_roster after)) (o_alive after)) then 3
         else if existsb (fun t => roster_locked t (o_roster after)) (o_kills after) then 5
         else 0
       | OReconnect | OReconnectLost | OReconnectOmit _ =>
         if existsb (fun t => roster_locked t (o_roster before)) (o_kills after) then 4
         else if existsb (fun x => fst (snd x) && roster_has (fst x) (o_roster after)
                                   && negb (roster_locked (fst x) (o_roster after))) (o_roster before) then 7
         else if negb (forallb (fun x => negb (fst (snd x)) || roster_has (fst x) (o_roster after)) (o_roster before)) then 9
         else 0
       | OCleanup | OCreate _ | OKillIds _ =>
         if existsb (fun t => roster_locked t (o_roster before)) (o_kills after) then 8
         else if negb (forallb (fun x => negb (fst (snd x)) || roster_has (fst x) (o_roster after)) (o_roster before)) then 9
         else 0
       | OStart _ | ODie _ | OMesosState _ _ | OStoreSet _ | ORun _ | OLost _ | OCreateHeld _ _ | OKillRefused _ =>
         if negb (forallb (fun x => negb (fst (snd x)) || roster_has (fst x) (o_roster after)) (o_roster before)) then 9
         else 0
       | _ => 0
       end.

Fixpoint mon_walk (f : bool -> op -> obs -> obs -> N) (tampered : bool)
         (ops : list op) (before : obs) (rest : list obs) : list N :=
  match ops, rest with
  | o :: ops', after :: rest' =>
    let t := tampered || is_tamper o in
    f t o before after :: mon_walk f t ops' after rest'
  | [], [] => []
  | _, _ => [6]
  end.

Definition mon18 (c : c18_case) : N :=
  match c_obs c with
  | [] => 6
  | o0 :: rest =>
    let fo := c_failover c in
    let id0 := first_id o0 in
    let strict0 :=
      if negb (list_eqb (pair_eqb Bool.eqb N.eqb) (o_subs o0) [(false, id0)]) || N.eqb id0 0 then 1
      else if negb (option_eqb N.eqb (o_store o0) (Some id0)) then 2 else 0 in
    first_nonzero
      (strict0 :: mon_walk (fun t o b a => mon_op fo t id0 o b a) false (c_ops c) o0 rest)
  end.

(* ---------- branch tags (input distribution) ----------
   0 no subscription in the script            1 reconnection while tasks are owned
   2 restart with live tasks at the master    3 restart / reconnection with nothing at stake
   4 the store was tampered with              5 failover disabled
   6 reconnection while a roster task locked by an environment is NOT active and alive at the
     master (launch window, TASK_LOST)
   7 restart with live tasks at the master whose first reconciliation is lost
   8 reconnection whose answers lack optional fields while a live task is locked by an environment *)
Definition is_sub (o : op) : bool :=
  match o with
  | OReconnect | OCrash _ _ | OCrashLost _ _ | OReconnectLost | OReconnectOmit _ => true
  | _ => false
  end.

Fixpoint tag_walk (ops : list op) (before : obs) (rest : list obs) : N :=
  match ops, rest with
  | o :: ops', after :: rest' =>
    let here :=
      match o with
      | OCrashLost p _ =>
        match o_alive before, p with
        | [], PIdle | [], PBeforeLaunch => 3
        | _, _ => 7
        end
      | OReconnectOmit _ =>
        if existsb (fun x => fst (snd x) && memN (fst x) (o_alive before)) (o_roster before) then 8 else 3
      | OReconnect | OReconnectLost =>
        if existsb (fun x => fst (snd x) && negb (snd (snd x)) && memN (fst x) (o_alive before)) (o_roster before) then 6
        else if existsb (fun x => fst (snd x) && snd (snd x)) (o_roster before) then 1 else 3
      | OCrash p _ =>
        match o_alive before, p with
        | [], PIdle | [], PBeforeLaunch => 3
        | _, _ => 2
        end
      | _ => 0
      end in
    let later := tag_walk ops' after rest' in
    if N.eqb here 8 then 8 else if N.eqb later 8 then 8
    else if N.eqb here 7 then 7 else if N.eqb later 7 then 7
    else if N.eqb here 6 then 6 else if N.eqb later 6 then 6
    else if N.eqb here 1 then 1 else if N.eqb later 1 then 1
    else if N.eqb here 2 then 2 else if N.eqb later 2 then 2
    else N.max here later
  | _, _ => 0
  end.

Definition tag18 (c : c18_case) : N :=
  if negb (c_failover c) then 5
  else if existsb is_tamper (c_ops c) then 4
  else match c_obs c with
       | o0 :: rest => tag_walk (c_ops c) o0 rest
       | [] => 0
       end.

Definition report18 := report corr18 mon18 tag18.

(* ---------- vocabulary of the property theorems ---------- *)
Definition after (w : world) (ops : list op) : world := fst (run w ops).
Definition calls_of (w : world) (ops : list op) : list call := snd (run w ops).

(* nobody but the core writes the persisted framework id *)
Definition no_tamper (ops : list op) : bool := forallb (fun o => negb (is_tamper o)) ops.

(* ordinary activity of one life: no (re)subscription, no teardown stuck half-way, no tampering *)
Definition tame (o : op) : bool :=
  match o with
  | OCreate _ | OStart _ | ODestroy _ _ | ODie _ | OMesosState _ _ | OCleanup | OAnswer
  | OCreateHeld _ _ | ORun _ | OLost _ | OAnswerBare _ | OKillIds _ => true
  | ODestroyStuck _ | OStoreSet _ | OReconnect | OCrash _ _
  | OLoseAnswers | OCrashLost _ _ | OReconnectLost | OReconnectOmit _
  | OKillHeld _ | OKillRefused _ => false
  end.

(* the next reconciliation answer makes handleMessage send KILL to a task that is in the roster,
   locked by an environment that is alive *)
Definition hits_owned (w : world) : bool :=
  match w_pending w with
  | (t, s) :: _ =>
    memN s recon_kill_states && negb (recon_guarded && in_roster t (w_roster w)) && owned w t
  | [] => false
  end.

(* along the history no reconciliation answer ever kills an owned task *)
Fixpoint spares_owned (w : world) (ops : list op) : bool :=
  match ops with
  | [] => true
  | o :: r =>
    (match o with OAnswer | OAnswerBare _ => negb (hits_owned w) | _ => true end)
    && spares_owned (fst (step w o)) r
  end.

(* every re-established connection finds the roster without a task owned by an environment
   (restarts always do: the roster of a new life is empty) *)
Fixpoint reconnects_unowned (w : world) (ops : list op) : bool :=
  match ops with
  | [] => true
  | o :: r =>
    (match o with
     | OReconnect => negb (existsb (owned_by (w_envs w)) (w_roster w))
     | _ => true
     end) && reconnects_unowned (fst (step w o)) r
  end.

Definition no_reconnect (ops : list op) : bool :=
  forallb (fun o => match o with OReconnect => false | _ => true end) ops.

(* the shortest history on which the rule without the roster lookup (before the repair of C18-a)
   killed an owned task: regression witness, first corpus case of the harness *)
Definition c18_witness : list op := [OCreate 1; OReconnect; OAnswer].
