(* Model of the variable hierarchy of AliECS (property C14):
     common/gera/map.go            Wrap / Get / Set / Del / Flattened / FlattenedParent /
                                   WrappedAndFlattened / FlattenStack
     core/workflow/rolebase.go     ConsolidatedVarStack / ConsolidatedVarMaps, SetRuntimeVar
     core/workflow/*role.go        setParent (three parallel hierarchies), ProcessTemplates
                                   (staged resolution of defaults / vars / name, locals -> vars),
                                   iterator expansion
     configuration/template/fields.go   VarStack.consolidated (stage visibility; the table of
                                   what each stage sees is regenerated from the running code
                                   into gen/Gen_VarStages.v on every run)
     core/task/task.go             BuildTaskCommand / BuildPropertyMap (workflow stack, special
                                   task variables, class defaults and vars)
   Definitions only.  A Go map[string]string is an association list read with [assoc]
   (first hit); a gera hierarchy is the list of its maps, own map first. *)
From Verif Require Export Common Gen_VarStages.
Open Scope N_scope.

(* ---------- one Go map ---------- *)
Definition gmap := list (str * str).

Definition has (k : str) (m : gmap) : bool :=
  match assoc k m with Some _ => true | None => false end.

(* m[k] = v *)
Fixpoint set_kv (k v : str) (m : gmap) : gmap :=
  match m with
  | [] => [(k, v)]
  | (k', v') :: r => if str_eqb k k' then (k, v) :: r else (k', v') :: set_kv k v r
  end.

(* delete(m, k) *)
Definition del_kv (k : str) (m : gmap) : gmap :=
  filter (fun kv => negb (str_eqb k (fst kv))) m.

(* mergo.Merge(&dst, src, mergo.WithOverride) on map[string]string: for every key of src,
   dst[key] = src[key] — also when the source value is the empty string. *)
Definition merge (dst src : gmap) : gmap :=
  fold_right (fun kv d => set_kv (fst kv) (snd kv) d) dst src.

(* ---------- gera.WrapMap hierarchies ---------- *)
Definition hier := list gmap.           (* own map :: parent's map :: ... :: root's map *)

(* Flattened(): copy of the own map merged over the flattened parent *)
Fixpoint flattened (h : hier) : gmap :=
  match h with
  | [] => []
  | m :: ps => merge (flattened ps) m
  end.

(* FlattenedParent() *)
Definition flattened_parent (h : hier) : gmap :=
  match h with [] => [] | _ :: ps => flattened ps end.

(* Get(key): own map, else the parent's Get *)
Fixpoint gera_get (k : str) (h : hier) : option str :=
  match h with
  | [] => None
  | m :: ps => match assoc k m with Some v => Some v | None => gera_get k ps end
  end.

Definition gera_len (h : hier) : N := Nlen (flattened h).

(* w.WrappedAndFlattened(m): the own map of w (not w's parents) merged over Flattened(m) *)
Definition wrapped_and_flattened (own : gmap) (m : hier) : gmap := merge (flattened m) own.

(* FlattenStack(maps...): each map is flattened and wrapped around the result so far, so later
   arguments outrank earlier ones *)
Definition flatten_stack (hs : list hier) : gmap :=
  flattened (rev (map flattened hs) ++ [[]]).

(* Set / Del on the map at depth [i] of a hierarchy (own map = 0) *)
Fixpoint upd_nth {A} (i : nat) (f : A -> A) (l : list A) : list A :=
  match l, i with
  | [], _ => []
  | x :: r, O => f x :: r
  | x :: r, S j => x :: upd_nth j f r
  end.

Inductive mop := MSet (k v : str) | MDel (k : str).
Definition apply_mop (o : mop) (m : gmap) : gmap :=
  match o with MSet k v => set_kv k v m | MDel k => del_kv k m end.
Definition apply_hops (ops : list (N * mop)) (h : hier) : hier :=
  fold_left (fun h' o => upd_nth (N.to_nat (fst o)) (apply_mop (snd o)) h') ops h.

(* ---------- ranked sources: the specification side ---------- *)
(* value at the first map of the list that defines the key *)
Fixpoint first_hit (k : str) (srcs : list gmap) : option str :=
  match srcs with
  | [] => None
  | m :: r => match assoc k m with Some v => Some v | None => first_hit k r end
  end.

(* ---------- roles: three parallel hierarchies ---------- *)
Record level := mkLevel { l_defaults : gmap; l_vars : gmap; l_user : gmap }.
Definition path := list level.          (* the role itself :: parent :: ... :: environment *)
Definition chain (sel : level -> gmap) (p : path) : hier := map sel p.

(* rolebase.ConsolidatedVarStack: flatten each kind, then user over vars over defaults *)
Definition consolidated_of (d v u : hier) : gmap :=
  flattened [flattened u; flattened v; flattened d].
Definition consolidated (p : path) : gmap :=
  consolidated_of (chain l_defaults p) (chain l_vars p) (chain l_user p).

(* the documented ranking of the sources seen from a role *)
Definition sources (p : path) : list gmap :=
  chain l_user p ++ chain l_vars p ++ chain l_defaults p.

(* ---------- template stages (fields.go: VarStack.consolidated) ---------- *)
(* row of the regenerated table: [own defaults; own vars; own user vars; parent defaults;
   parent vars; parent user vars; locals] visible at that stage *)
Definition stage_row (s : N) : list bool :=
  match assocN s stage_rows with Some r => r | None => [] end.
Definition sees_own_defaults (s : N) : bool := nth 0 (stage_row s) false.
Definition sees_own_vars (s : N) : bool := nth 1 (stage_row s) false.
Definition sees_own_user (s : N) : bool := nth 2 (stage_row s) false.

Definition pick (own_visible : bool) (h : hier) : gmap :=
  if own_visible then flattened h else flattened_parent h.

Definition staged_of (s : N) (locals : gmap) (d v u : hier) : gmap :=
  flattened [locals; pick (sees_own_user s) u; pick (sees_own_vars s) v;
             pick (sees_own_defaults s) d].
Definition staged (s : N) (locals : gmap) (p : path) : gmap :=
  staged_of s locals (chain l_defaults p) (chain l_vars p) (chain l_user p).

(* the documented visibility: own defaults from stage 2, own vars from 3, own user vars from 4 *)
Definition stage_sources (s : N) (locals : gmap) (own : level) (anc : path) : list gmap :=
  [locals]
  ++ (if 4 <=? s then [l_user own] else []) ++ chain l_user anc
  ++ (if 3 <=? s then [l_vars own] else []) ++ chain l_vars anc
  ++ (if 2 <=? s then [l_defaults own] else []) ++ chain l_defaults anc.

(* ---------- template values: the fragment  literal | {{ key }} ---------- *)
Inductive tval := VLit (s : str) | VRef (k : str).
Definition rmap := list (str * tval).
Definition tpl_open : str := [123; 123; 32].      (* "{{ " *)
Definition tpl_close : str := [32; 125; 125].     (* " }}" *)
Definition raw_text (v : tval) : str :=
  match v with VLit s => s | VRef k => tpl_open ++ k ++ tpl_close end.
Definition raw_map (m : rmap) : gmap := map (fun kv => (fst kv, raw_text (snd kv))) m.

(* Fields.Execute on one field: a reference to an unknown name is an error *)
Definition eval_with (look : str -> option str) (v : tval) : option str :=
  match v with VLit s => Some s | VRef k => look k end.
Fixpoint eval_map_with (look : str -> option str) (m : rmap) : option gmap :=
  match m with
  | [] => Some []
  | (k, v) :: r =>
    match eval_with look v, eval_map_with look r with
    | Some x, Some r' => Some ((k, x) :: r')
    | _, _ => None
    end
  end.
Definition eval_val (st : gmap) := eval_with (fun k => assoc k st).
Definition eval_map (st : gmap) := eval_map_with (fun k => assoc k st).

(* ---------- defaults: / vars: as written (rolebase.go kvStoreUnmarshalYAMLWithTags) ----------
   An entry of a role's defaults / vars block is written as a plain scalar (key: "text"), in the
   annotated form key: !public {value: "text", type: ..., label: ...} (the value may be left
   out: the entry then defines the empty string, as coded), or as something else (an untagged
   mapping, a sequence), which is not a definition.  An EMPTY text is a definition in every form. *)
Inductive wentry := WPlain (v : tval) | WPublic (v : option tval) | WOther.
Definition wmap := list (str * wentry).
Definition entry_def (e : wentry) : option tval :=
  match e with
  | WPlain v => Some v
  | WPublic (Some v) => Some v
  | WPublic None => Some (VLit [])
  | WOther => None
  end.
Fixpoint decode (w : wmap) : rmap :=
  match w with
  | [] => []
  | (k, e) :: r => match entry_def e with Some v => (k, v) :: decode r | None => decode r end
  end.

(* ---------- loading a role tree (ProcessTemplates) ---------- *)
(* a role as written in the workflow; [name] = None: literal name "r"; Some k: "n{{ k }}".
   A role with children is an aggregator, a childless one a task or call role (the three
   treat their variables identically).  RIter: iterator role over a template role, with its
   range spec (iteratorrange.go).
   RIncl: include role (include: <workflow>) with its own name / defaults / vars, and the
   defaults, vars and children of the root of the sub-workflow it names (includerole.go).
   After loading, the include role shows the sub-workflow root's maps as its own
   (r.aggregatorRole = *subWfRoot) and keeps its name and parent; its own, already resolved maps
   stay in the hierarchies between the sub-workflow root's and the parent's (the root was
   parented to the include role by loadSubworkflow, and the parent is restored by plain
   assignment, not by setParent).  An ltree node therefore carries the levels hidden between
   its visible level and its parent: [hid] is [] for every role but a loaded include role. *)
(* the `for:` block of an iterator: range: '[<item>, ...]' (a JSON list of strings, every item a
   literal or {{ key }}) or begin: / end: (each a literal or {{ key }}, read with strconv.Atoi;
   the values are begin..end inclusive, printed in decimal) *)
Inductive irange := IList (items : list tval) | IFor (b e : tval).

Definition atoi (s : str) : option N :=
  match s with
  | [] => None
  | _ => fold_left (fun acc c => match acc with
                                 | Some a => if (48 <=? c) && (c <=? 57) then Some (a * 10 + (c - 48))
                                             else None
                                 | None => None end) s (Some 0)
  end.
Fixpoint dec_fuel (fuel : nat) (n : N) (acc : str) : str :=
  match fuel with
  | O => acc
  | S f => let acc' := (48 + n mod 10) :: acc in
           if n / 10 =? 0 then acc' else dec_fuel f (n / 10) acc'
  end.
Definition dec_of_N (n : N) : str := dec_fuel 40 n [].
Fixpoint count_from (b : N) (n : nat) : list N :=
  match n with O => [] | S k => b :: count_from (b + 1) k end.

Fixpoint eval_items (look : str -> option str) (l : list tval) : option (list str) :=
  match l with
  | [] => Some []
  | t :: r => match eval_with look t, eval_items look r with
              | Some x, Some r' => Some (x :: r')
              | _, _ => None
              end
  end.

(* GetRange: the expressions are evaluated against the stack handed in; an unknown name or a
   bound that is not a number is an error *)
Definition eval_range_with (look : str -> option str) (r : irange) : option (list str) :=
  match r with
  | IList items => eval_items look items
  | IFor b e =>
    match eval_with look b, eval_with look e with
    | Some bs, Some es =>
      match atoi bs, atoi es with
      | Some x, Some y =>
        Some (if x <=? y then map dec_of_N (count_from x (N.to_nat (y - x + 1))) else [])
      | _, _ => None
      end
    | _, _ => None
    end
  end.
Definition eval_range (st : gmap) := eval_range_with (fun k => assoc k st).

Inductive rtree :=
| RRole (name : option str) (defaults vars : wmap) (children : list rtree)
| RIter (var : str) (rng : irange) (tpl : rtree)
| RIncl (name : option str) (defaults vars : wmap) (sdefaults svars : wmap)
        (children : list rtree).

Inductive ltree := LNode (name : str) (lv : level) (hid : list level) (children : list ltree).

Definition lit_name : str := [114].     (* r *)
Definition name_prefix : N := 110.      (* n *)

Definition resolve_level (anc : path) (locals : gmap) (nm : option str) (d v : rmap)
  : option (str * level) :=
  (* STAGE1: own defaults, evaluated against parent stack + locals *)
  match eval_map (staged 1 locals (mkLevel (raw_map d) (raw_map v) [] :: anc)) d with
  | None => None
  | Some d' =>
    (* STAGE2: own vars, evaluated against parent stack + own defaults + locals *)
    match eval_map (staged 2 locals (mkLevel d' (raw_map v) [] :: anc)) v with
    | None => None
    | Some v' =>
      (* STAGE3: own user vars — none at load time.  STAGE4: the name *)
      match match nm with
            | None => Some lit_name
            | Some k => match assoc k (staged 4 locals (mkLevel d' v' [] :: anc)) with
                        | Some x => Some (name_prefix :: x)
                        | None => None
                        end
            end with
      | None => None
      | Some n =>
        (* after template processing the locals are written into the own vars *)
        Some (n, mkLevel d' (merge v' locals) [])
      end
    end
  end.

(* helpers for the recursion over children (defined in a section so that the function is a
   parameter outside the fix, which is what the guard condition needs) *)
Section ChildRecursion.
  Context {A B : Type}.
  Context (f : A -> option (list B)) (g : N -> A -> list B).
  (* concatenation of the results, None as soon as one fails *)
  Fixpoint opt_concat_map (l : list A) : option (list B) :=
    match l with
    | [] => Some []
    | c :: r =>
      match f c with
      | None => None
      | Some a => match opt_concat_map r with None => None | Some b => Some (a ++ b) end
      end
    end.
  Fixpoint flat_mapi (i : N) (l : list A) : list B :=
    match l with
    | [] => []
    | c :: r => g i c ++ flat_mapi (N.succ i) r
    end.
End ChildRecursion.

Fixpoint load (anc : path) (locals : gmap) (t : rtree) : option (list ltree) :=
  match t with
  | RRole nm d v ch =>
    match resolve_level anc locals nm (decode d) (decode v) with
    | None => None
    | Some (n, lv) =>
      (* setParent + ProcessTemplates of every child, in order; the first error aborts *)
      match opt_concat_map (load (lv :: anc) []) ch with
      | None => None
      | Some kids => Some [LNode n lv [] kids]
      end
    end
  | RIncl nm d v sd sv ch =>
    (* the include role's own templates first, like any role (iterator locals -> its vars) *)
    match resolve_level anc locals nm (decode d) (decode v) with
    | None => None
    | Some (n, lvi) =>
      (* the sub-workflow root, parented to the include role, takes the include role's place
         (fresh Locals, the include role's name) and processes its templates as an aggregator *)
      match resolve_level (lvi :: anc) [] None (decode sd) (decode sv) with
      | None => None
      | Some (_, lvs) =>
        match opt_concat_map (load (lvs :: lvi :: anc) []) ch with
        | None => None
        | Some kids => Some [LNode n lvs [lvi] kids]
        end
      end
    end
  | RIter var rng tpl =>
    (* expandTemplate: the range is evaluated against FlattenStack(defaults, vars, user vars) of
       the iterator's parent - its consolidated stack - every time this iterator is loaded (an
       iterator inside the template of another one is loaded once per role the outer one
       generates, each time under that role; the copies share nothing).  Then one copy of the
       template per value, the value as a local, parented to the iterator's parent *)
    match eval_range (consolidated anc) rng with
    | None => None
    | Some vals => opt_concat_map (fun x => load anc [(var, x)] tpl) vals
    end
  end.

(* SetRuntimeVar / DeleteRuntimeVar on the role at a child-index address ([0] = root) *)
Definition upd_user (o : mop) (lv : level) : level :=
  mkLevel (l_defaults lv) (l_vars lv) (apply_mop o (l_user lv)).

Fixpoint upd_at (o : mop) (addr : list N) (ts : list ltree) : list ltree :=
  match addr with
  | [] => ts
  | i :: rest =>
    upd_nth (N.to_nat i)
            (fun t => match t with
                      | LNode n lv hid ch =>
                        match rest with
                        | [] => LNode n (upd_user o lv) hid ch
                        | _ => LNode n lv hid (upd_at o rest ch)
                        end
                      end) ts
  end.

Definition apply_uops (ops : list (list N * mop)) (ts : list ltree) : list ltree :=
  fold_left (fun ts' o => upd_at (snd o) (fst o) ts') ops ts.

(* every role of a forest with its address (reversed: innermost index first), name, hidden
   levels and path (visible level :: hidden levels ++ ancestors) *)
Definition node := (list N * str * list level * path)%type.
Fixpoint nodes (anc : path) (raddr : list N) (t : ltree) : list node :=
  match t with
  | LNode n lv hid ch =>
    (rev raddr, n, hid, lv :: hid ++ anc)
    :: flat_mapi (fun i c => nodes (lv :: hid ++ anc) (i :: raddr) c) 0 ch
  end.
Definition forest_nodes (anc : path) (ts : list ltree) : list node :=
  flat_mapi (fun i t => nodes anc [i] t) 0 ts.

(* what the harness reads at one role *)
Record view := mkView {
  w_addr : list N; w_name : str;
  w_own : level;                    (* GetDefaults/GetVars/GetUserVars .Raw() *)
  w_hid : list level;               (* include role: its own maps when the sub-workflow was loaded *)
  w_stack : gmap;                   (* ConsolidatedVarStack() *)
  w_maps : level                    (* ConsolidatedVarMaps() *)
}.
Definition view_of (x : node) : view :=
  let '(a, n, hid, p) := x in
  mkView a n (hd (mkLevel [] [] []) p) hid (consolidated p)
         (mkLevel (flattened (chain l_defaults p)) (flattened (chain l_vars p))
                  (flattened (chain l_user p))).

Definition run_tree (env : level) (t : rtree) (ops : list (list N * mop)) : option (list view) :=
  match load [env] [] t with
  | None => None
  | Some f => Some (map view_of (forest_nodes [env] (apply_uops ops f)))
  end.

(* ---------- task level (core/task/task.go) ---------- *)
(* BuildTaskCommand: the stack the command-line fields are evaluated against.
   wf = the parent role's ConsolidatedVarStack, special = buildSpecialVarStack. *)
Definition cmd_resolved (wf special : gmap) (cd cv : rmap) : option (gmap * gmap) :=
  let s0 := merge wf special in                          (* for k, v := range special *)
  match eval_map s0 cd with
  | None => None
  | Some d =>
    let s1 := wrapped_and_flattened s0 [d] in            (* workflow over class defaults *)
    match eval_map s1 cv with
    | None => None
    | Some v => Some (d, v)
    end
  end.
(* the final stack: the workflow stack (without the class defaults) over the class vars wrapped
   over the class defaults.  Before fix C14-a the stack s1, which already held the class
   defaults, was wrapped over the class vars, so a class default outranked a class var. *)
Definition cmd_stack (wf special : gmap) (cd cv : rmap) : option gmap :=
  match cmd_resolved wf special cd cv with
  | None => None
  | Some (d, v) => Some (wrapped_and_flattened (merge wf special) [v; d])
  end.

(* BuildPropertyMap: class vars wrapped over class defaults (raw, not templated), the workflow
   stack over both, the special values written last *)
Definition prop_stack (wf special : gmap) (cd cv : rmap) : gmap :=
  merge (wrapped_and_flattened wf [raw_map cv; raw_map cd]) special.

(* callable.Call.Call: the role's ConsolidatedVarStack with the call's special values
   (environment_id and the __call_ keys) written over it *)
Definition call_stack (p : path) (special : gmap) : gmap := merge (consolidated p) special.

(* ---------- correspondence cases ---------- *)
Inductive c14_case :=
(* gera level: hierarchy h (after ops), other hierarchy for WrappedAndFlattened *)
| CGera (h : hier) (ops : list (N * mop)) (other : hier) (keys : list str)
        (o_flat o_flatpar o_waf : gmap) (o_get : list (option str)) (o_len : N)
| CFlatStack (hs : list hier) (o : gmap)
(* template.Sequence.Execute: value of {{ key }} at each of the stages, None = unknown name *)
| CStage (locals : gmap) (d v u : hier) (keys : list str) (o : list (list (option str)))
(* real role tree *)
| CTree (env : level) (t : rtree) (ops : list (list N * mop)) (o : option (list view))
(* task level on a real role whose path is p *)
| CTask (p : path) (special : gmap) (cd cv : rmap) (keys : list str)
        (o_cmd o_prop : list (option str))
(* a call role at the bottom of a real role chain: value of {{ key }} as the call's function *)
| CCall (p : path) (special : gmap) (keys : list str) (o : list (option str)).

Definition ostr_eqb := option_eqb str_eqb.

(* extensional equality of two maps: same lookups on every key occurring in either *)
Definition gmap_eqb (a b : gmap) : bool :=
  forallb (fun kv => ostr_eqb (assoc (fst kv) a) (assoc (fst kv) b)) (a ++ b).

Definition level_eqb (a b : level) : bool :=
  gmap_eqb (l_defaults a) (l_defaults b) && gmap_eqb (l_vars a) (l_vars b) &&
  gmap_eqb (l_user a) (l_user b).

Definition view_eqb (a b : view) : bool :=
  list_eqb N.eqb (w_addr a) (w_addr b) && str_eqb (w_name a) (w_name b) &&
  level_eqb (w_own a) (w_own b) && list_eqb level_eqb (w_hid a) (w_hid b) &&
  gmap_eqb (w_stack a) (w_stack b) &&
  level_eqb (w_maps a) (w_maps b).

Definition stage_list : list N := [0; 1; 2; 3; 4; 5].

Definition corr14 (c : c14_case) : bool :=
  match c with
  | CGera h0 ops other keys o_flat o_flatpar o_waf o_get o_len =>
    let h := apply_hops ops h0 in
    gmap_eqb (flattened h) o_flat && gmap_eqb (flattened_parent h) o_flatpar &&
    gmap_eqb (wrapped_and_flattened (hd [] h) other) o_waf &&
    list_eqb ostr_eqb (map (fun k => gera_get k h) keys) o_get &&
    (gera_len h =? o_len)
  | CFlatStack hs o => gmap_eqb (flatten_stack hs) o
  | CStage locals d v u keys o =>
    list_eqb (list_eqb ostr_eqb)
             (map (fun s => map (fun k => assoc k (staged_of s locals d v u)) keys) stage_list) o
  | CTree env t ops o => option_eqb (list_eqb view_eqb) (run_tree env t ops) o
  | CTask p special cd cv keys o_cmd o_prop =>
    let wf := consolidated p in
    list_eqb ostr_eqb
             (map (fun k => match cmd_stack wf special cd cv with
                            | Some st => assoc k st | None => None end) keys) o_cmd &&
    list_eqb ostr_eqb (map (fun k => assoc k (prop_stack wf special cd cv)) keys) o_prop
  | CCall p special keys o =>
    list_eqb ostr_eqb (map (fun k => assoc k (call_stack p special)) keys) o
  end.

(* ---------- monitor: the property evaluated on what the implementation reported ----------
   Codes (first failure wins):
     1  a role's consolidated stack does not give the value of the highest-ranking source
        (user > vars > defaults, nearest first, environment outermost)
     2  one kind flattened along the hierarchy (ConsolidatedVarMaps / Flattened /
        FlattenedParent / WrappedAndFlattened / FlattenStack) does not give the nearest definition
     3  an empty value was not treated as a definition (a lower-ranking or no value shown)
     4  Get(key) disagrees with the Flattened() map of the same hierarchy
     5  a template stage saw a value it must not see, or missed one it must see
     6  task command line: a class default outranked a class var for a key the workflow does
        not define (the behaviour before fix C14-a; a regression of that repair)
     7  task command line: any other deviation from special > workflow > class vars > class defaults
     8  task property map: deviation from special > workflow > class vars > class defaults
     9  the variable of an iterator is not a var of the role generated for one of its values
        (for a generated include role: of its own maps, below the sub-workflow root's)
    10  a call does not see special > the consolidated stack of its role
    13  an entry written as a definition in a role's defaults / vars block (plain or annotated
        !public form) is not in the role's own map with the written text, or something that is not
        a definition is (code 3 when the written text is empty)
    12  the roles an iterator generated are not one per value of its range as evaluated with the
        nearest definitions visible at the iterator's parent (as of loading time), in order
    11  a role in the subtree of an include role (the include role itself included) does not see
        the include role's own defaults / vars as the nearest ancestor's above the sub-workflow
        root: what it sees is exactly the ranking WITHOUT those maps *)

Definition all_keys (ms : list gmap) : list str := map fst (concat ms).

(* compare an observed map with the ranked sources on the given keys;
   code 3 when the expected value is the empty definition, [bad] otherwise *)
Definition check_map (bad : N) (keys : list str) (srcs : list gmap) (o : gmap) : N :=
  fold_right (fun k acc =>
                let e := first_hit k srcs in
                if ostr_eqb e (assoc k o) then acc
                else match e with Some [] => 3 | _ => bad end) 0 keys.

Definition check_vals (bad : N) (keys : list str) (look : str -> option str)
           (o : list (option str)) : N :=
  fold_right (fun ko acc =>
                let e := look (fst ko) in
                if ostr_eqb e (snd ko) then acc
                else match e with Some [] => 3 | _ => bad end) 0 (combine keys o).

Definition first_code (l : list N) : N :=
  fold_right (fun c acc => if c =? 0 then acc else c) 0 l.

(* own maps of the observed roles along an address, innermost first *)
Fixpoint prefixes {A} (l : list A) : list (list A) :=
  match l with
  | [] => []
  | x :: r => [x] :: map (cons x) (prefixes r)
  end.
Definition find_view (vs : list view) (a : list N) : option view :=
  find (fun w => list_eqb N.eqb (w_addr w) a) vs.
(* [with_hid]: the own maps an include role had when its sub-workflow was loaded sit between
   the maps it shows afterwards and its parent's *)
Definition observed_path_gen (with_hid : bool) (env : level) (vs : list view) (a : list N) : path :=
  fold_left (fun acc pa => match find_view vs pa with
                           | Some w => w_own w :: (if with_hid then w_hid w else []) ++ acc
                           | None => acc end) (prefixes a) [env].
Definition observed_path := observed_path_gen true.

Definition view_code (keys : list str) (p : path) (w : view) : N :=
  first_code [ check_map 1 keys (sources p) (w_stack w);
               check_map 2 keys (chain l_defaults p) (l_defaults (w_maps w));
               check_map 2 keys (chain l_vars p) (l_vars (w_maps w));
               check_map 2 keys (chain l_user p) (l_user (w_maps w)) ].

Definition mon_view (env : level) (vs : list view) (w : view) : N :=
  let p := observed_path env vs (w_addr w) in
  let keys := all_keys (sources p) ++ map fst (w_stack w) ++
              map fst (l_defaults (w_maps w)) ++ map fst (l_vars (w_maps w)) ++
              map fst (l_user (w_maps w)) in
  let c := view_code keys p w in
  if c =? 0 then 0
  else
    let p0 := observed_path_gen false env vs (w_addr w) in
    if negb (Nat.eqb (length p) (length p0)) && (view_code keys p0 w =? 0) then 11 else c.

(* iterators: the input tree is walked along the observed one.  At an observed role [addr]
   whose description has the children [ch], every iterator among them must have generated, in
   order, one role per value of its range - the range evaluated on what the implementation
   showed for that role and its ancestors as of loading time (the observed own maps: vars and
   defaults of the path, the environment's user vars; runtime variables set afterwards do not
   count), i.e. the nearest definitions visible at the iterator's parent - each carrying the
   value as a var (code 9; a generated include role in its own maps below the sub-workflow
   root's), and the role must have no other children (code 12). *)
Definition load_time_look (env : level) (vs : list view) (addr : list N) (k : str) : option str :=
  let p := observed_path env vs addr in
  first_hit k ([l_user env] ++ chain l_vars p ++ chain l_defaults p).

Definition child_count (vs : list view) (addr : list N) : N :=
  Nlen (filter (fun w => list_eqb N.eqb (removelast (w_addr w)) addr
                         && negb (Nat.eqb (length (w_addr w)) 0)) vs).

Definition local_code (vs : list view) (a : list N) (var x : str) : N :=
  match find_view vs a with
  | Some w => if ostr_eqb (assoc var (l_vars (hd (w_own w) (w_hid w)))) (Some x) then 0 else 9
  | None => 12
  end.

(* what was written as a definition in a role's defaults / vars block - in the plain or in the
   annotated form, empty or not - must be in the role's own map with the written text (a
   reference: must be there at all); what is not a definition must not be there.  [skip]: keys
   the iterator locals of the role overwrite.  Code 3 when the written text is empty, else 13. *)
Definition written_code (w : wmap) (m : gmap) (skip : list str) : N :=
  first_code (map (fun ke =>
    let k := fst ke in
    if mem_str k skip then 0 else
    match snd ke with
    | WPlain (VLit x) | WPublic (Some (VLit x)) =>
      if ostr_eqb (assoc k m) (Some x) then 0 else match x with [] => 3 | _ => 13 end
    | WPlain (VRef _) | WPublic (Some (VRef _)) => if has k m then 0 else 13
    | WPublic None => 0
    | WOther => if has k m then 13 else 0
    end) w).

Definition own_written_code (vs : list view) (t : rtree) (addr : list N) (loc : list str) : N :=
  match find_view vs addr with
  | None => 12
  | Some w =>
    match t with
    | RRole _ d v _ =>
      first_code [written_code d (l_defaults (w_own w)) []; written_code v (l_vars (w_own w)) loc]
    | RIncl _ d v sd sv _ =>
      let own := hd (mkLevel [] [] []) (w_hid w) in
      first_code [written_code d (l_defaults own) []; written_code v (l_vars own) loc;
                  written_code sd (l_defaults (w_own w)) []; written_code sv (l_vars (w_own w)) []]
    | RIter _ _ _ => 0
    end
  end.

Fixpoint mon_iters (env : level) (vs : list view) (t : rtree) (addr : list N) (loc : list str)
         {struct t} : N :=
  let walk :=
    fix go (l : list rtree) (idx : N) {struct l} : N * N :=
      match l with
      | [] => (0, idx)
      | c :: r =>
        match c with
        | RIter var rng tpl =>
          match eval_range_with (load_time_look env vs addr) rng with
          | None => (12, idx)
          | Some vals =>
            let here := first_code
                          (flat_mapi (fun j x => [local_code vs (addr ++ [j]) var x;
                                                  mon_iters env vs tpl (addr ++ [j]) [var]]) idx vals) in
            let '(cr, n) := go r (idx + Nlen vals) in
            (first_code [here; cr], n)
          end
        | _ =>
          let here := mon_iters env vs c (addr ++ [idx]) [] in
          let '(cr, n) := go r (idx + 1) in
          (first_code [here; cr], n)
        end
      end in
  let finish := fun (ch : list rtree) =>
    let '(c, n) := walk ch 0 in
    if c =? 0 then (if n =? child_count vs addr then 0 else 12) else c in
  let finish := fun ch => first_code [own_written_code vs t addr loc; finish ch] in
  match t with
  | RRole _ _ _ ch => finish ch
  | RIncl _ _ _ _ _ ch => finish ch
  | RIter _ _ _ => 0
  end.

Definition nth_row (o : list (list (option str))) (s : N) : list (option str) :=
  nth (N.to_nat s) o [].

Definition mon14 (c : c14_case) : N :=
  match c with
  | CGera h0 ops other keys o_flat o_flatpar o_waf o_get o_len =>
    let h := apply_hops ops h0 in
    let ks := keys ++ all_keys h ++ all_keys other ++ map fst o_flat ++ map fst o_flatpar
                   ++ map fst o_waf in
    first_code [ check_map 2 ks h o_flat;
                 check_map 2 ks (tl h) o_flatpar;
                 check_map 2 ks (hd [] h :: other) o_waf;
                 check_vals 4 keys (fun k => assoc k o_flat) o_get ]
  | CFlatStack hs o =>
    check_map 2 (all_keys (concat hs) ++ map fst o) (concat (rev hs)) o
  | CStage locals d v u keys o =>
    let own := mkLevel (hd [] d) (hd [] v) (hd [] u) in
    let srcs := fun s =>
      [locals] ++ (if 4 <=? s then [hd [] u] else []) ++ tl u
               ++ (if 3 <=? s then [hd [] v] else []) ++ tl v
               ++ (if 2 <=? s then [hd [] d] else []) ++ tl d in
    first_code (map (fun s => check_vals 5 keys (fun k => first_hit k (srcs s)) (nth_row o s))
                    stage_list)
  | CTree env t ops (Some vs) =>
    first_code (map (mon_view env vs) vs ++ [mon_iters env vs t [0] []])
  | CTree _ _ _ None => 0
  | CTask p special cd cv keys o_cmd o_prop =>
    let wfs := special :: sources p in
    let look0 := fun k => first_hit k wfs in
    (* specification: class defaults resolved against the workflow, class vars against the
       workflow and the class defaults, then special > workflow > class vars > class defaults *)
    let cmd_code :=
      match eval_map_with look0 cd with
      | None => check_vals 7 keys (fun _ => None) o_cmd
      | Some d =>
        match eval_map_with (fun k => first_hit k (wfs ++ [d])) cv with
        | None => check_vals 7 keys (fun _ => None) o_cmd
        | Some v =>
          fold_right (fun ko acc =>
              let k := fst ko in
              let e := first_hit k (wfs ++ [v; d]) in
              if ostr_eqb e (snd ko) then acc
              else if negb (match look0 k with Some _ => true | None => false end)
                      && has k d && has k v && ostr_eqb (snd ko) (assoc k d)
                   then 6
                   else match e with Some [] => 3 | _ => 7 end) 0 (combine keys o_cmd)
        end
      end in
    first_code [ cmd_code;
                 check_vals 8 keys (fun k => first_hit k (wfs ++ [raw_map cv; raw_map cd])) o_prop ]
  | CCall p special keys o => check_vals 10 keys (fun k => first_hit k (special :: sources p)) o
  end.

(* ---------- branch tags (input distribution) ----------
   kind * 100 + 1 (some key is defined by two or more ranked sources)
              + 2 (some key's winning value is empty while a lower-ranking source is non-empty)
              + 4 (some queried key is defined nowhere)
              + 8 (CTree/CTask: depth >= 3; CTree: load failed = 499)
              + 16 (CTree: an iterator inside the template of another one whose range has a reference)
              + 32 (CTree: an include role whose own maps define some key)
              + 48 instead (CTree: an include role generated by an iterator) *)
Definition defining (k : str) (srcs : list gmap) : nat := length (filter (has k) srcs).
Definition nonempty_below (k : str) (srcs : list gmap) : bool :=
  match first_hit k srcs with
  | Some [] => existsb (fun m => match assoc k m with Some (_ :: _) => true | _ => false end) srcs
  | _ => false
  end.
Definition tag_bits (keys : list str) (srcs : list gmap) : N :=
  (if existsb (fun k => Nat.leb 2 (defining k srcs)) keys then 1 else 0) +
  (if existsb (fun k => nonempty_below k srcs) keys then 2 else 0) +
  (if existsb (fun k => Nat.eqb (defining k srcs) 0) keys then 4 else 0).

Definition range_has_ref (r : irange) : bool :=
  match r with
  | IList items => existsb (fun t => match t with VRef _ => true | VLit _ => false end) items
  | IFor b e => match b, e with VLit _, VLit _ => false | _, _ => true end
  end.
Fixpoint nested_ref_iter (inside : bool) (t : rtree) : bool :=
  match t with
  | RRole _ _ _ ch => existsb (nested_ref_iter inside) ch
  | RIncl _ _ _ _ _ ch => existsb (nested_ref_iter false) ch
  | RIter _ rng tpl => (inside && range_has_ref rng) || nested_ref_iter true tpl
  end.
Fixpoint iterated_incl (t : rtree) : bool :=
  match t with
  | RRole _ _ _ ch => existsb iterated_incl ch
  | RIncl _ _ _ _ _ ch => existsb iterated_incl ch
  | RIter _ _ tpl => match tpl with RIncl _ _ _ _ _ _ => true | _ => false end || iterated_incl tpl
  end.

Definition tag14 (c : c14_case) : N :=
  match c with
  | CGera h0 ops other keys _ _ _ _ _ =>
    100 + tag_bits keys (apply_hops ops h0)
  | CFlatStack hs _ => 200 + tag_bits (all_keys (concat hs)) (concat (rev hs))
  | CStage locals d v u keys _ => 300 + tag_bits keys ([locals] ++ u ++ v ++ d)
  | CTree env t ops (Some vs) =>
    400 + (if existsb (fun w => Nat.leb 3 (length (w_addr w))) vs then 8 else 0)
        + (if nested_ref_iter false t then 16 else 0)
        + (if iterated_incl t then 48
           else if existsb (fun w => negb (Nat.eqb (length (all_keys (sources (w_hid w)))) 0)) vs
                then 32 else 0)
        + fold_right N.lor 0
            (map (fun w => let p := observed_path env vs (w_addr w) in
                           tag_bits (all_keys (sources p)) (sources p)) vs)
  | CTree _ _ _ None => 499
  | CTask p special cd cv keys _ _ =>
    500 + (if Nat.leb 3 (length p) then 8 else 0)
        + tag_bits keys (special :: sources p ++ [raw_map cv; raw_map cd])
  | CCall p special keys _ =>
    600 + (if Nat.leb 3 (length p) then 8 else 0) + tag_bits keys (special :: sources p)
  end.

Definition report14 := report corr14 mon14 tag14.
