(* Model of the workflow loader: core/workflow/{aggregatorrole,iteratorrole,taskrole,callrole}.go
   ProcessTemplates, roleutils.go:MakeDisabledRoleCallback, iteratorrange.go, the staged sequence
   of configuration/template/fields.go (Sequence.Execute / VarStack.consolidated) on a fragment of
   the template language, and load.go (unmarshal + ProcessTemplates on the root).
   Definitions only.

   Template fragment: a field is a concatenation of pieces — literal text, {{ k }}, {{ k == 'l' }},
   {{ k != 'l' }} and ill-formed tags.  A reference to a variable that is not on the stack is a
   template error (expr: "unknown name").

   The loader is parametrised by three switches [flags] that select, at exactly three places, between
   what the code did before three repairs and what it does now (= what the property text asks for):
     fl_mask    : an evaluation error of `enabled` is reported as "role disabled" (roleutils.go;
                  repaired, C15-a: the stage error wins)
     fl_iterraw : an iterator container is kept or dropped by its template's unprocessed `enabled`
                  (iteratorrole.go IsEnabled; repaired, C15-b: the container is always kept)
     fl_count   : an aggregator is "empty" when its Roles slice is empty, iterator containers counted
                  (aggregatorrole.go; repaired, C15-d: emptiness is decided on GetRoles())
   [coded] (all three off) is the model of the code and the yardstick of the monitor; [legacy] (all
   three on) is the code before the repairs; the monitor classifies a deviation by the switches
   that reproduce it, which is how a regression of a repair is recognised. *)
From Verif Require Export Common.
Open Scope N_scope.

(* ---------- ASCII helpers (strings.TrimSpace / ToLower on ASCII) ---------- *)
Definition is_space (c : N) : bool := (c =? 32) || ((9 <=? c) && (c <=? 13)).
Fixpoint trim_left (l : str) : str :=
  match l with
  | c :: r => if is_space c then trim_left r else l
  | [] => []
  end.
Definition trim (l : str) : str := rev (trim_left (rev (trim_left l))).
Definition lower (c : N) : N := if (65 <=? c) && (c <=? 90) then c + 32 else c.

Definition s_true : str := [116;114;117;101].
Definition s_false : str := [102;97;108;115;101].
Definition s_one : str := [49].

(* roleBase.IsEnabled on the stored field *)
Definition is_true (s : str) : bool :=
  let t := map lower (trim s) in str_eqb t s_true || str_eqb t s_one.

(* ---------- template fragment ---------- *)
Inductive piece :=
| PLit (s : str)
| PVar (k : str)
| PEq (k l : str)
| PNe (k l : str)
| PBad (form : N).
Definition texpr := list piece.
Definition env := list (str * str).      (* first hit wins *)

Definition bool_str (b : bool) : str := if b then s_true else s_false.

Definition eval_piece (e : env) (p : piece) : option str :=
  match p with
  | PLit s => Some s
  | PVar k => assoc k e
  | PEq k l => match assoc k e with Some v => Some (bool_str (str_eqb v l)) | None => None end
  | PNe k l => match assoc k e with Some v => Some (bool_str (negb (str_eqb v l))) | None => None end
  | PBad _ => None
  end.

Fixpoint eval (e : env) (t : texpr) : option str :=
  match t with
  | [] => Some []
  | p :: r => match eval_piece e p, eval e r with
              | Some a, Some b => Some (a ++ b)
              | _, _ => None
              end
  end.

(* source text of a field (what stays in the field when it is never processed) *)
Definition t_open : str := [123;123;32].        (* "{{ " *)
Definition t_close : str := [32;125;125].       (* " }}" *)
Definition bad_text (form : N) : str :=
  if form =? 0 then [123;123;32;49;32;43;32;125;125]                     (* {{ 1 + }} *)
  else if form =? 1 then [123;123;32;61;61;32;39;97;39;32;125;125]       (* {{ == 'a' }} *)
  else if form =? 2 then [123;123;32;110;111;102;110;40;41;32;125;125]   (* {{ nofn() }} *)
  else [123;123;32;120;32;121;32;125;125].                               (* {{ x y }} *)
Definition show_piece (p : piece) : str :=
  match p with
  | PLit s => s
  | PVar k => t_open ++ k ++ t_close
  | PEq k l => t_open ++ k ++ [32;61;61;32;39] ++ l ++ [39] ++ t_close
  | PNe k l => t_open ++ k ++ [32;33;61;32;39] ++ l ++ [39] ++ t_close
  | PBad f => bad_text f
  end.
Definition show (t : texpr) : str := flat_map show_piece t.

Definition tfields := list (str * texpr).
Fixpoint evalmap (e : env) (m : tfields) : option env :=
  match m with
  | [] => Some []
  | (k, t) :: r => match eval e t, evalmap e r with
                   | Some v, Some r' => Some ((k, v) :: r')
                   | _, _ => None
                   end
  end.
Definition showmap (m : tfields) : env := map (fun kt => (fst kt, show (snd kt))) m.

(* ---------- iterator ranges (iteratorrange.go) ---------- *)
Definition is_json_ws (c : N) : bool := (c =? 32) || (c =? 9) || (c =? 10) || (c =? 13).
Fixpoint skip_ws (l : str) : str :=
  match l with
  | c :: r => if is_json_ws c then skip_ws r else l
  | [] => []
  end.
(* body of a JSON string without escapes, up to the closing quote *)
Fixpoint read_str (l : str) : option (str * str) :=
  match l with
  | [] => None
  | c :: r => if c =? 34 then Some ([], r)
              else if (c =? 92) || (c <? 32) then None
              else match read_str r with
                   | Some (s, rest) => Some (c :: s, rest)
                   | None => None
                   end
  end.
Definition at_end (l : str) : bool := match skip_ws l with [] => true | _ => false end.
Fixpoint read_items (fuel : nat) (l : str) : option (list str) :=
  match fuel with
  | O => None
  | S f =>
    match skip_ws l with
    | c :: r =>
      if c =? 34 then
        match read_str r with
        | Some (s, rest) =>
          match skip_ws rest with
          | d :: r2 => if d =? 44 then match read_items f r2 with
                                       | Some t => Some (s :: t)
                                       | None => None
                                       end
                       else if d =? 93 then (if at_end r2 then Some [s] else None)
                       else None
          | [] => None
          end
        | None => None
        end
      else None
    | [] => None
    end
  end.
Definition s_null : str := [110;117;108;108].
(* json.Unmarshal into []string, on lists of escape-free strings (and null) *)
Definition parse_strlist (s : str) : option (list str) :=
  match skip_ws s with
  | c :: r =>
    if c =? 91 then
      match skip_ws r with
      | d :: r2 => if d =? 93 then (if at_end r2 then Some [] else None)
                   else read_items (length r) r
      | [] => None
      end
    else if str_eqb (trim s) s_null then Some []
    else None
  | [] => None
  end.

(* strconv.Atoi / Itoa *)
Definition digit_val (c : N) : option N :=
  if (48 <=? c) && (c <=? 57) then Some (c - 48) else None.
Fixpoint digits_val (acc : N) (l : str) : option N :=
  match l with
  | [] => Some acc
  | c :: r => match digit_val c with
              | Some d => digits_val (acc * 10 + d) r
              | None => None
              end
  end.
Definition unsigned_val (l : str) : option N :=
  match l with [] => None | _ => digits_val 0 l end.
Definition atoi (s : str) : option Z :=
  match s with
  | [] => None
  | c :: r => if c =? 45 then option_map (fun n => (- Z.of_N n)%Z) (unsigned_val r)
              else if c =? 43 then option_map Z.of_N (unsigned_val r)
              else option_map Z.of_N (unsigned_val s)
  end.
Fixpoint n_digits (fuel : nat) (n : N) (acc : str) : str :=
  match fuel with
  | O => acc
  | S f => let acc' := (48 + n mod 10) :: acc in
           if n <? 10 then acc' else n_digits f (n / 10) acc'
  end.
Definition itoa_N (n : N) : str := n_digits (S (N.size_nat n)) n [].
Definition itoa (z : Z) : str :=
  if (z <? 0)%Z then 45 :: itoa_N (Z.abs_N z) else itoa_N (Z.to_N z).
Definition int_range (b e : Z) : list str :=
  map (fun i => itoa (b + Z.of_nat i)%Z) (seq 0 (Z.to_nat (e - b + 1))).

Inductive rangespec :=
| RExpr (e : texpr)             (* for: {range: e, var: x} *)
| RBeginEnd (b e : texpr).      (* for: {begin: b, end: e, var: x} *)
Record forspec := mkFor { f_range : rangespec; f_var : str }.

Definition range_vals (e : env) (fs : forspec) : option (list str) :=
  match f_range fs with
  | RExpr t => match eval e t with Some s => parse_strlist s | None => None end
  | RBeginEnd tb te =>
    match eval e tb, eval e te with
    | Some sb, Some se => match atoi sb, atoi se with
                          | Some zb, Some ze => Some (int_range zb ze)
                          | _, _ => None
                          end
    | _, _ => None
    end
  end.

(* ---------- role templates ---------- *)
Inductive kind := KTask | KCall | KAgg.
Definition kind_eqb (a b : kind) : bool :=
  match a, b with KTask, KTask | KCall, KCall | KAgg, KAgg => true | _, _ => false end.

(* r_s4: the further stage-4 fields of the role kind, labelled (task: load timeout trigger await;
   call: func return timeout trigger await); r_s5: constraint values, connect targets, bind global
   aliases, labelled by attribute / channel name. *)
Record rbase := mkBase {
  r_name : texpr; r_enabled : texpr;
  r_defaults : tfields; r_vars : tfields;
  r_s4 : tfields; r_s5 : tfields;
  r_crit : bool }.

(* a role with [Some for] is an iterator whose template is the rest of the role *)
Inductive role := Role (fo : option forspec) (k : kind) (b : rbase) (kids : list role).

(* flattened stacks of the parent: defaults, vars, user vars *)
Record ctx := mkCtx { cD : env; cV : env; cU : env }.
(* VarStack.consolidated: locals > user vars > vars > defaults *)
Definition stack (loc : env) (c : ctx) : env := loc ++ cU c ++ cV c ++ cD c.

Record flags := mkFlags { fl_mask : bool; fl_iterraw : bool; fl_count : bool }.
Definition coded : flags := mkFlags false false false.
Definition legacy : flags := mkFlags true true true.
Definition ideal : flags := coded.

(* what one role holds after its own template sequence *)
Record info := mkInfo {
  i_name : str; i_enabled : str;
  i_defs : env; i_vars : env;
  i_s4 : env; i_s5 : env }.
Definition set_enabled (i : info) (e : str) : info :=
  mkInfo (i_name i) e (i_defs i) (i_vars i) (i_s4 i) (i_s5 i).
Definition set_s4 (i : info) (s : env) : info :=
  mkInfo (i_name i) (i_enabled i) (i_defs i) (i_vars i) s (i_s5 i).

Inductive own_res := OwnErr | OwnDis (i : info) | OwnOk (i : info).

(* the role as it stays when the sequence stops after stage 0: fields unprocessed, locals
   written to vars *)
Definition raw_info (loc : env) (b : rbase) (en : str) : info :=
  mkInfo (show (r_name b)) en (showmap (r_defaults b)) (loc ++ showmap (r_vars b))
         (showmap (r_s4 b)) (showmap (r_s5 b)).

(* stages 1..5 (own user vars are empty at load time, so stage 3 has no field) *)
Definition stages (c : ctx) (loc : env) (b : rbase) (en : str) : option info :=
  match evalmap (stack loc c) (r_defaults b) with
  | None => None
  | Some D1 =>
    match evalmap (loc ++ cU c ++ cV c ++ (D1 ++ cD c)) (r_vars b) with
    | None => None
    | Some V1 =>
      let e4 := loc ++ cU c ++ (V1 ++ cV c) ++ (D1 ++ cD c) in
      match eval e4 (r_name b), evalmap e4 (r_s4 b), evalmap e4 (r_s5 b) with
      | Some n, Some s4, Some s5 => Some (mkInfo n en D1 (loc ++ V1) s4 s5)
      | _, _, _ => None
      end
    end
  end.

(* Sequence.Execute with MakeDisabledRoleCallback: after stage 0 the callback answers "role
   disabled" whenever the field is not true — also when the stage failed and left it unprocessed *)
Definition own (f : flags) (c : ctx) (loc : env) (b : rbase) : own_res :=
  match eval (stack loc c) (r_enabled b) with
  | None => if fl_mask f then OwnDis (raw_info loc b (show (r_enabled b))) else OwnErr
  | Some s => if is_true s
              then match stages c loc b s with Some i => OwnOk i | None => OwnErr end
              else OwnDis (raw_info loc b s)
  end.

Definition child_ctx (c : ctx) (i : info) : ctx :=
  mkCtx (i_defs i ++ cD c) (i_vars i ++ cV c) (cU c).

(* processed tree as stored: Roles slices with the iterator containers *)
Inductive onode :=
| ONode (k : kind) (i : info) (crit : bool) (kids : list onode)
| OIter (name en : str) (kids : list onode).
Inductive res := Err | Ok (n : onode).

Definition onode_kids (n : onode) : list onode :=
  match n with ONode _ _ _ ks => ks | OIter _ _ ks => ks end.

(* Role.IsEnabled as the parent's filter sees it *)
Definition node_enabled (f : flags) (n : onode) : bool :=
  match n with
  | ONode _ i _ _ => is_true (i_enabled i)
  | OIter _ en _ => if fl_iterraw f then is_true en else true
  end.

(* GetRoles: iterator containers are transparent *)
Fixpoint visible (n : onode) : list onode :=
  match n with
  | OIter _ _ ks => flat_map visible ks
  | ONode _ _ _ _ => [n]
  end.

Definition is_nil {A} (l : list A) : bool := match l with [] => true | _ => false end.
Definition agg_empty (f : flags) (ks : list onode) : bool :=
  if fl_count f then is_nil ks else is_nil (flat_map visible ks).

Fixpoint all_ok (l : list res) : option (list onode) :=
  match l with
  | [] => Some []
  | Err :: _ => None
  | Ok n :: r => match all_ok r with Some t => Some (n :: t) | None => None end
  end.

(* tail of aggregatorRole.ProcessTemplates: errors accumulated, disabled children filtered,
   self-disable when empty (the Roles slice keeps the iterator containers that generated nothing) *)
Definition join_agg (f : flags) (i : info) (crit : bool) (rs : list res) : res :=
  match all_ok rs with
  | None => Err
  | Some ns => let ks := filter (node_enabled f) ns in
               if agg_empty f ks then Ok (ONode KAgg (set_enabled i s_false) crit ks)
               else Ok (ONode KAgg i crit ks)
  end.
(* tail of iteratorRole.ProcessTemplates *)
Definition join_iter (f : flags) (name en : str) (rs : list res) : res :=
  match all_ok rs with
  | None => Err
  | Some ns => Ok (OIter name en (filter (node_enabled f) ns))
  end.

(* the stub repository of the harness: ResolveTaskClassIdentifier *)
Definition lbl_load : str := [108;111;97;100].
Definition cls_pre : str := [82;47;116;97;115;107;115;47].   (* R/tasks/ *)
Definition cls_post : str := [64;104].                       (* @h *)
Definition resolve_load (kv : str * str) : str * str :=
  if str_eqb (fst kv) lbl_load then (fst kv, cls_pre ++ snd kv ++ cls_post) else kv.
Definition fin_info (k : kind) (i : info) : info :=
  match k with KTask => set_s4 i (map resolve_load (i_s4 i)) | _ => i end.
Definition dis_info (k : kind) (i : info) : info :=
  match k with KAgg => set_enabled i s_false | _ => i end.

(* ProcessTemplates of any role; [loc] = Locals of a copy generated by an iterator *)
Fixpoint proc (f : flags) (r : role) (c : ctx) (loc : env) {struct r} : res :=
  match r with
  | Role fo k b kids =>
    let body := fun (loc : env) =>
      match own f c loc b with
      | OwnErr => Err
      | OwnDis i => Ok (ONode k (dis_info k i) (r_crit b) [])
      | OwnOk i =>
        match k with
        | KAgg => join_agg f i (r_crit b) (map (fun kid => proc f kid (child_ctx c i) []) kids)
        | _ => Ok (ONode k (fin_info k i) (r_crit b) [])
        end
      end in
    match fo with
    | None => body loc
    | Some fs =>
      match range_vals (stack [] c) fs with
      | None => Err
      | Some vals => join_iter f (show (r_name b)) (show (r_enabled b))
                               (map (fun v => body [(f_var fs, v)]) vals)
      end
    end
  end.

(* Load: the root is processed under the environment's three maps *)
Definition load (c : ctx) (r : role) : res := proc coded r c [].

(* ---------- what the model assumes about the source: which field is processed in which stage ----------
   compared (Load_proofs.stages_as_modelled) with the table the translator regenerates from the
   template.Sequence literals of the three ProcessTemplates on every run.  Kinds 0 task, 1 call,
   2 aggregator.  [own]/[stages] above: enabled in stage 0 with the "disabled" check right after
   it; defaults 1; vars 2; (own user vars 3: empty at load time); name and the kind's further
   fields 4; constraints and channel fields 5 (the call role's second pass over its already
   processed `enabled` in stage 5 changes nothing). *)
Definition sn_Enabled : str := [69;110;97;98;108;101;100].
Definition sn_Defaults : str := [68;101;102;97;117;108;116;115].
Definition sn_Vars : str := [86;97;114;115].
Definition sn_UserVars : str := [85;115;101;114;86;97;114;115].
Definition sn_Name : str := [78;97;109;101].
Definition sn_Load : str := [76;111;97;100;84;97;115;107;67;108;97;115;115].
Definition sn_Timeout : str := [84;105;109;101;111;117;116].
Definition sn_Trigger : str := [84;114;105;103;103;101;114].
Definition sn_Await : str := [65;119;97;105;116].
Definition sn_Func : str := [70;117;110;99;67;97;108;108].
Definition sn_Return : str := [82;101;116;117;114;110;86;97;114].
Definition sn_Constraints : str := [67;111;110;115;116;114;97;105;110;116;115].
Definition sn_BindConnect : str := [66;105;110;100;67;111;110;110;101;99;116].
Definition model_stage_prefix : list (N * list str) :=
  [(0, [sn_Enabled]); (1, [sn_Defaults]); (2, [sn_Vars]); (3, [sn_UserVars])].
Definition model_stage_table : list (N * list (N * list str)) :=
  [ (0, model_stage_prefix ++
        [(4, [sn_Name; sn_Load; sn_Timeout; sn_Trigger; sn_Await]);
         (5, [sn_Constraints; sn_BindConnect])]);
    (1, model_stage_prefix ++
        [(4, [sn_Name; sn_Func; sn_Return; sn_Timeout; sn_Trigger; sn_Await]);
         (5, [sn_Constraints; sn_BindConnect; sn_Enabled])]);
    (2, model_stage_prefix ++
        [(4, [sn_Name]); (5, [sn_Constraints; sn_BindConnect])]) ].
Definition model_stage_count : N := 6.
Definition model_disabled_check_stage : N := 0.

(* ---------- concurrency: work trees and schedules ----------
   Every role is processed by its own goroutine when the switches are on: a goroutine first runs
   the role's own sequence (reads: the frozen maps of its ancestors; writes: its own fields), then
   spawns its children and joins them.  A schedule is a list of positions; each entry lets the
   goroutine at that position perform its next action.  With all switches off the loader is the
   left-to-right depth-first schedule that gives up at the first failed child. *)
Inductive wt :=
| WTodo (c : ctx) (loc : env) (r : role)
| WAgg (i : info) (crit : bool) (ws : list wt)
| WIter (name en : str) (ws : list wt)
| WDone (r : res).

Definition is_done (w : wt) : bool := match w with WDone _ => true | _ => false end.
Definition done_res (w : wt) : res := match w with WDone r => r | _ => Err end.
Definition is_failed (w : wt) : bool := match w with WDone Err => true | _ => false end.

Definition start (f : flags) (c : ctx) (loc : env) (r : role) : wt :=
  match r with
  | Role (Some fs) k b kids =>
    match range_vals (stack [] c) fs with
    | None => WDone Err
    | Some vals => WIter (show (r_name b)) (show (r_enabled b))
                         (map (fun v => WTodo c [(f_var fs, v)] (Role None k b kids)) vals)
    end
  | Role None k b kids =>
    match own f c loc b with
    | OwnErr => WDone Err
    | OwnDis i => WDone (Ok (ONode k (dis_info k i) (r_crit b) []))
    | OwnOk i =>
      match k with
      | KAgg => WAgg i (r_crit b) (map (fun kid => WTodo (child_ctx c i) [] kid) kids)
      | _ => WDone (Ok (ONode k (fin_info k i) (r_crit b) []))
      end
    end
  end.

Definition apply_nth {A} (g : A -> A) : list A -> nat -> list A :=
  fix go (l : list A) (n : nat) : list A :=
    match l with
    | [] => []
    | x :: r => match n with O => g x :: r | S m => x :: go r m end
    end.

(* joining: all children finished -> combine; some child failed -> fail (sequential early exit) *)
Definition try_join (w : wt) (ws : list wt) (k : list res -> res) : wt :=
  if forallb is_done ws then WDone (k (map done_res ws))
  else if existsb is_failed ws then WDone Err
  else w.

Fixpoint step (f : flags) (p : list nat) (w : wt) {struct w} : wt :=
  match w with
  | WTodo c loc r => match p with [] => start f c loc r | _ => w end
  | WAgg i crit ws =>
    match p with
    | [] => try_join w ws (join_agg f i crit)
    | n :: p' => WAgg i crit (apply_nth (step f p') ws n)
    end
  | WIter nm en ws =>
    match p with
    | [] => try_join w ws (join_iter f nm en)
    | n :: p' => WIter nm en (apply_nth (step f p') ws n)
    end
  | WDone _ => w
  end.

Definition schedule := list (list nat).
Fixpoint run (f : flags) (s : schedule) (w : wt) : wt :=
  match s with
  | [] => w
  | p :: r => run f r (step f p w)
  end.

(* the result a work tree stands for *)
Fixpoint denote (f : flags) (w : wt) : res :=
  match w with
  | WTodo c loc r => proc f r c loc
  | WAgg i crit ws => join_agg f i crit (map (denote f) ws)
  | WIter nm en ws => join_iter f nm en (map (denote f) ws)
  | WDone r => r
  end.

(* ---------- views of a processed tree ---------- *)
(* all proper descendants, containers included *)
Fixpoint desc (n : onode) : list onode :=
  flat_map (fun k => k :: desc k) (onode_kids n).
(* the tree as the rest of the core sees it: containers dissolved *)
Fixpoint flat (n : onode) : list onode :=
  match n with
  | OIter _ _ ks => flat_map flat ks
  | ONode k i crit ks => [ONode k i crit (flat_map flat ks)]
  end.
(* every iterator container below (and including) n has at least one child *)
Fixpoint containers_nonempty (n : onode) : bool :=
  match n with
  | OIter _ _ ks => negb (is_nil ks) && forallb containers_nonempty ks
  | ONode _ _ _ ks => forallb containers_nonempty ks
  end.

(* a live template error: a field the loader has to evaluate fails.
   [we] = errors of `enabled` fields count *)
Inductive terr (we : bool) : ctx -> env -> role -> Prop :=
| TE_range : forall c loc fs k b kids,
    range_vals (stack [] c) fs = None -> terr we c loc (Role (Some fs) k b kids)
| TE_elem : forall c loc fs k b kids vals v,
    range_vals (stack [] c) fs = Some vals -> In v vals ->
    terr we c [(f_var fs, v)] (Role None k b kids) ->
    terr we c loc (Role (Some fs) k b kids)
| TE_enabled : forall c loc k b kids,
    we = true -> eval (stack loc c) (r_enabled b) = None -> terr we c loc (Role None k b kids)
| TE_field : forall c loc k b kids s,
    eval (stack loc c) (r_enabled b) = Some s -> is_true s = true -> stages c loc b s = None ->
    terr we c loc (Role None k b kids)
| TE_kid : forall c loc b kids s i kid,
    eval (stack loc c) (r_enabled b) = Some s -> is_true s = true -> stages c loc b s = Some i ->
    In kid kids -> terr we (child_ctx c i) [] kid ->
    terr we c loc (Role None KAgg b kids).

Definition literal (t : texpr) : bool :=
  forallb (fun p => match p with PLit _ => true | _ => false end) t.

(* ---------- nesting: the occurrences of role templates that a load processes ----------
   [occ c loc r c' loc' r']: while (r, c, loc) is processed, the template r' is processed under
   the parent maps c' with the locals loc' — r itself; every element of an iterator's range (the
   copy made for it carries the iteration variable as its only local); every child template of an
   aggregator copy that is enabled and whose own fields evaluate (the child sees the copy's
   defaults and vars — hence the iteration variables of all enclosing iterators — on top of the
   parent's).  Any depth, any mixture of iterators and aggregators. *)
Inductive occ : ctx -> env -> role -> ctx -> env -> role -> Prop :=
| Occ_here : forall c loc r, occ c loc r c loc r
| Occ_elem : forall c loc fs k b kids vals v c' loc' r',
    range_vals (stack [] c) fs = Some vals -> In v vals ->
    occ c [(f_var fs, v)] (Role None k b kids) c' loc' r' ->
    occ c loc (Role (Some fs) k b kids) c' loc' r'
| Occ_kid : forall c loc b kids s i kid c' loc' r',
    eval (stack loc c) (r_enabled b) = Some s -> is_true s = true -> stages c loc b s = Some i ->
    In kid kids -> occ (child_ctx c i) [] kid c' loc' r' ->
    occ c loc (Role None KAgg b kids) c' loc' r'.

(* the loaded tree and everything below it *)
Definition nodes (t : onode) : list onode := t :: desc t.

(* number of copies held by each iterator container, in preorder *)
Fixpoint profile (n : onode) : list N :=
  match n with
  | ONode _ _ _ ks => flat_map profile ks
  | OIter _ _ ks => N.of_nat (length ks) :: flat_map profile ks
  end.

(* ---------- canonical form compared with the dump of the implementation ---------- *)
Fixpoint str_leb (a b : str) : bool :=
  match a, b with
  | [], _ => true
  | _ :: _, [] => false
  | x :: a', y :: b' => if x <? y then true else if y <? x then false else str_leb a' b'
  end.
Fixpoint ins_kv (kv : str * str) (l : env) : env :=
  match l with
  | [] => [kv]
  | h :: r => if str_leb (fst kv) (fst h) then kv :: l else h :: ins_kv kv r
  end.
Fixpoint dedup (e : env) : env :=
  match e with
  | [] => []
  | kv :: r => kv :: filter (fun x => negb (str_eqb (fst x) (fst kv))) (dedup r)
  end.
Definition canon_env (e : env) : env := fold_right ins_kv [] (dedup e).
Definition canon_info (i : info) : info :=
  mkInfo (i_name i) (trim (i_enabled i)) (canon_env (i_defs i)) (canon_env (i_vars i))
         (i_s4 i) (i_s5 i).
Fixpoint canon (n : onode) : onode :=
  match n with
  | ONode k i crit ks => ONode k (canon_info i) crit (map canon ks)
  | OIter nm en ks => OIter nm en (map canon ks)
  end.

Definition kv_eqb := pair_eqb str_eqb str_eqb.
Definition env_eqb : env -> env -> bool := list_eqb kv_eqb.
Definition info_eqb (a b : info) : bool :=
  str_eqb (i_name a) (i_name b) && str_eqb (i_enabled a) (i_enabled b) &&
  env_eqb (i_defs a) (i_defs b) && env_eqb (i_vars a) (i_vars b) &&
  env_eqb (i_s4 a) (i_s4 b) && env_eqb (i_s5 a) (i_s5 b).
Fixpoint onode_eqb (a b : onode) {struct a} : bool :=
  let fix go (l m : list onode) {struct l} : bool :=
      match l, m with
      | [], [] => true
      | x :: l', y :: m' => onode_eqb x y && go l' m'
      | _, _ => false
      end in
  match a, b with
  | ONode k i c ks, ONode k' i' c' ks' =>
    kind_eqb k k' && info_eqb i i' && Bool.eqb c c' && go ks ks'
  | OIter n e ks, OIter n' e' ks' => str_eqb n n' && str_eqb e e' && go ks ks'
  | _, _ => false
  end.

Inductive outcome := OErr | OTree (t : onode).
Definition outcome_eqb (a b : outcome) : bool :=
  match a, b with
  | OErr, OErr => true
  | OTree x, OTree y => onode_eqb x y
  | _, _ => false
  end.
Definition outcome_of (r : res) : outcome :=
  match r with Err => OErr | Ok t => OTree (canon t) end.

(* the visible tree of an outcome: containers dissolved (the root is never a container) *)
Inductive voutcome := VErr | VTree (t : list onode).
Definition vis_of (o : outcome) : voutcome :=
  match o with OErr => VErr | OTree t => VTree (flat t) end.
Definition voutcome_eqb (a b : voutcome) : bool :=
  match a, b with
  | VErr, VErr => true
  | VTree x, VTree y => list_eqb onode_eqb x y
  | _, _ => false
  end.

(* ---------- correspondence cases ----------
   CLoad: environment maps, template, and what the implementation returned under the settings of
   the three switches, grouped: (bit mask of the settings that gave this outcome, outcome).
   CRace: the race detector reported a race at a site of the loader (thorough tier, -race build):
   1 iterator goroutines (iteratorrole.go), 2 aggregator goroutines' error accumulator
   (aggregatorrole.go), 3 anywhere else in core/workflow or configuration/template. *)
Inductive c15_case :=
| CLoad (c : ctx) (r : role) (obs : list (N * outcome))
| CRace (site : N)
| CSeq (inputs : list (ctx * role)) (steps : list (nat * list (N * outcome))).
(* CSeq: a history — ONE process loads inputs[i1], inputs[i2], ... one after the other (each under
   all switch settings, outcomes grouped as in CLoad); the same index may occur several times.
   The model has no state that outlives a load: every step is [load] of its input. *)

Definition obs_eqb : list (N * outcome) -> list (N * outcome) -> bool :=
  list_eqb (pair_eqb N.eqb outcome_eqb).
Definition input_at (inputs : list (ctx * role)) (i : nat) : ctx * role :=
  nth i inputs (mkCtx [] [] [], Role None KTask (mkBase [] [] [] [] [] [] true) []).
(* two steps of a history load the same input and report different outcomes *)
Fixpoint step_conflict (steps : list (nat * list (N * outcome))) : bool :=
  match steps with
  | [] => false
  | (i, o) :: r =>
    existsb (fun jo => Nat.eqb (fst jo) i && negb (obs_eqb o (snd jo))) r || step_conflict r
  end.

(* ---------- histories of loads in one process ----------
   [run_history ss h]: the process loads the inputs of h one after the other, the k-th under the
   schedule ss[k] of its role goroutines; None when a schedule does not finish its load. *)
Fixpoint run_history (ss : list schedule) (h : list (ctx * role)) : option (list res) :=
  match h, ss with
  | [], _ => Some []
  | (c, r) :: h', s :: ss' =>
    match run coded s (WTodo c [] r) with
    | WDone o => match run_history ss' h' with Some t => Some (o :: t) | None => None end
    | _ => None
    end
  | _ :: _, [] => None
  end.

Definition corr15 (k : c15_case) : bool :=
  match k with
  | CLoad c r obs =>
    let m := outcome_of (load c r) in
    negb (is_nil obs) && forallb (fun mo => outcome_eqb m (snd mo)) obs
  | CRace _ => true
  | CSeq inputs steps =>
    negb (is_nil steps) &&
    forallb (fun io =>
               let cr := input_at inputs (fst io) in
               let m := outcome_of (load (fst cr) (snd cr)) in
               Nat.ltb (fst io) (length inputs) && negb (is_nil (snd io)) &&
               forallb (fun mo => outcome_eqb m (snd mo)) (snd io)) steps
  end.

(* ---------- monitor: the property evaluated on what the implementation returned ----------
   0 holds
   1 the outcome depends on the setting of the concurrency switches
   2 the load succeeded and differs from the reference only by masking `enabled` errors
     (the behaviour before the repair of C15-a)
   3 ... only by dropping iterators whose template carries a non-literal `enabled`
     (before the repair of C15-b)
   4 ... only by keeping aggregators whose children are all empty iterator containers
     (before the repair of C15-d)
   5 an aggregator with no child roles at all is present below the root
   6 the load succeeded although a template error is live that is not an `enabled` error
   7 a role that is not enabled is present below the root
   8 the load failed although no template error is live
   9 any other difference to the reference tree
   10 ... and some iterator container holds a number of copies that no reading of the property
      gives it (an iterator expanded over a range that is not the one of its own scope)
   11/12/13 data race reported at site 1/2/3
   14 two loads of the same template with the same variables in one process gave different
      outcomes: the result of a load depends on what the process loaded before
   20 no observation *)
Definition obs_enabled_ok (t : onode) : bool :=
  forallb (fun n => match n with ONode _ i _ _ => is_true (i_enabled i) | OIter _ _ _ => true end)
          (desc t).
Definition obs_no_bare_agg (t : onode) : bool :=
  forallb (fun n => match n with ONode KAgg _ _ ks => negb (is_nil ks) | _ => true end) (desc t).

Definition ref_vis (f : flags) (c : ctx) (r : role) : voutcome :=
  vis_of (outcome_of (proc f r c [])).

(* the iterator containers of the loaded tree hold as many copies as those of a reference *)
Definition all_flags : list flags :=
  [coded; legacy; mkFlags true false false; mkFlags false true false; mkFlags false false true;
   mkFlags true true false; mkFlags true false true; mkFlags false true true].
Definition prof_is (f : flags) (c : ctx) (r : role) (t : onode) : bool :=
  match proc f r c [] with
  | Ok m => list_eqb N.eqb (profile t) (profile m)
  | Err => false
  end.

Definition mon_load (c : ctx) (r : role) (o : outcome) : N :=
  let direct := match o with
                | OErr => 0
                | OTree t => if negb (obs_enabled_ok t) then 7
                             else if negb (obs_no_bare_agg t) then 5 else 0
                end in
  if negb (direct =? 0) then direct
  else
    let v := vis_of o in
    let is f := voutcome_eqb v (ref_vis f c r) in
    if is ideal then 0
    else if is (mkFlags true false false) then 2
    else if is (mkFlags false true false) then 3
    else if is (mkFlags false false true) then 4
    else if is (mkFlags true true false) || is (mkFlags true false true) || is legacy then 2
    else if is (mkFlags false true true) then 3
    else match ref_vis ideal c r, v with
         | VErr, VTree _ => 6
         | VTree _, VErr => 8
         | _, _ => match o with
                   | OTree t => if existsb (fun f => prof_is f c r t) all_flags then 9 else 10
                   | OErr => 9
                   end
         end.

Definition mon15 (k : c15_case) : N :=
  match k with
  | CLoad c r obs =>
    match obs with
    | [] => 20
    | [(_, o)] => mon_load c r o
    | _ => 1
    end
  | CRace site => 10 + site
  | CSeq inputs steps =>
    if is_nil steps then 20
    else if step_conflict steps then 14
    else
      (fix first (l : list (nat * list (N * outcome))) : N :=
         match l with
         | [] => 0
         | (i, obs) :: r =>
           let cr := input_at inputs i in
           let c := match obs with
                    | [] => 20
                    | [(_, o)] => mon_load (fst cr) (snd cr) o
                    | _ => 1
                    end in
           if c =? 0 then first r else c
         end) steps
  end.

(* ---------- branch tag (input distribution) ----------
   bit 0 the model fails; bit 1 the template has an iterator; bit 2 some `enabled` is not the
   literal true; bit 3 the loader before the repairs of C15-a/b/d and the repaired loader differ on it; bit 4 something was pruned or
   expanded (visible roles <> template roles); bit 5 race case; bit 6 an iterator inside the
   template of an iterator has a range that is an expression (not a literal); bit 7 iterators are
   nested three deep or more; bit 8 a history of loads in one process (then bit 0 = some input
   fails, bit 1 = some input has an iterator, bit 9 = an input is loaded more than once) *)
Fixpoint role_count (r : role) : nat :=
  match r with Role _ _ _ kids => S (fold_right (fun k a => role_count k + a)%nat O kids) end.
Fixpoint has_for (r : role) : bool :=
  match r with Role fo _ _ kids => match fo with Some _ => true | None => false end || existsb has_for kids end.
Definition true_lit (t : texpr) : bool :=
  match t with [PLit s] => str_eqb s s_true | _ => false end.
Fixpoint has_cond (r : role) : bool :=
  match r with Role _ _ b kids => negb (true_lit (r_enabled b)) || existsb has_cond kids end.
Fixpoint vis_count (n : onode) : nat :=
  match n with
  | OIter _ _ ks => fold_right (fun k a => vis_count k + a)%nat O ks
  | ONode _ _ _ ks => S (fold_right (fun k a => vis_count k + a)%nat O ks)
  end.

(* an iterator inside the template of an iterator, its range given by an expression *)
Definition range_literal (fs : forspec) : bool :=
  match f_range fs with
  | RExpr t => literal t
  | RBeginEnd b e => literal b && literal e
  end.
Fixpoint nested_dep (inside : bool) (r : role) : bool :=
  match r with
  | Role fo _ _ kids =>
    match fo with
    | Some fs => (inside && negb (range_literal fs)) || existsb (nested_dep true) kids
    | None => existsb (nested_dep inside) kids
    end
  end.
Fixpoint for_depth (r : role) : nat :=
  match r with
  | Role fo _ _ kids =>
    (match fo with Some _ => 1 | None => 0 end + fold_right (fun k a => Nat.max (for_depth k) a) O kids)%nat
  end.

Definition tag15 (k : c15_case) : N :=
  match k with
  | CLoad c r _ =>
    let m := load c r in
    (match m with Err => 1 | Ok _ => 0 end)
    + (if has_for r then 2 else 0)
    + (if has_cond r then 4 else 0)
    + (if voutcome_eqb (ref_vis legacy c r) (ref_vis coded c r) then 0 else 8)
    + (match m with
       | Ok t => if Nat.eqb (vis_count t) (role_count r) then 0 else 16
       | Err => 0
       end)
    + (if nested_dep false r then 64 else 0)
    + (if Nat.leb 3 (for_depth r) then 128 else 0)
  | CRace _ => 32
  | CSeq inputs steps =>
    256 + (if existsb (fun cr => match load (fst cr) (snd cr) with Err => true | Ok _ => false end) inputs
           then 1 else 0)
        + (if existsb (fun cr => has_for (snd cr)) inputs then 2 else 0)
        + (if Nat.ltb (length inputs) (length steps) then 512 else 0)
  end.

Definition report15 := report corr15 mon15 tag15.
