(* Finite name types of the environment state machine (core/environment/environment.go) and of
   the ControlEnvironment operation types (core/protos/o2control.proto).  Definitions only.
   The translator (harness/cmd/translate/tr_envfsm.go) maps the string literals of the Go source
   to these constructors and fails on any name it does not know. *)
From Verif Require Export Common.
Open Scope N_scope.

Inductive estate := sSTANDBY | sDEPLOYED | sCONFIGURED | sRUNNING | sERROR | sDONE.

Inductive eevent :=
  eDEPLOY | eCONFIGURE | eRESET | eSTART_ACTIVITY | eSTOP_ACTIVITY | eEXIT | eGO_ERROR | eRECOVER.

(* pb.ControlEnvironmentRequest_Optype; [oOTHER] stands for any number outside the enum *)
Inductive optype :=
  oNOOP | oSTART_ACTIVITY | oSTOP_ACTIVITY | oCONFIGURE | oRESET | oGO_ERROR | oDEPLOY | oOTHER.

Definition all_states : list estate := [sSTANDBY; sDEPLOYED; sCONFIGURED; sRUNNING; sERROR; sDONE].
Definition all_events : list eevent :=
  [eDEPLOY; eCONFIGURE; eRESET; eSTART_ACTIVITY; eSTOP_ACTIVITY; eEXIT; eGO_ERROR; eRECOVER].
Definition all_optypes : list optype :=
  [oNOOP; oSTART_ACTIVITY; oSTOP_ACTIVITY; oCONFIGURE; oRESET; oGO_ERROR; oDEPLOY; oOTHER].

Definition estate_code (s : estate) : N :=
  match s with sSTANDBY => 0 | sDEPLOYED => 1 | sCONFIGURED => 2 | sRUNNING => 3 | sERROR => 4 | sDONE => 5 end.
Definition eevent_code (e : eevent) : N :=
  match e with
  | eDEPLOY => 0 | eCONFIGURE => 1 | eRESET => 2 | eSTART_ACTIVITY => 3 | eSTOP_ACTIVITY => 4
  | eEXIT => 5 | eGO_ERROR => 6 | eRECOVER => 7
  end.
Definition optype_code (o : optype) : N :=
  match o with
  | oNOOP => 0 | oSTART_ACTIVITY => 1 | oSTOP_ACTIVITY => 2 | oCONFIGURE => 3 | oRESET => 4
  | oGO_ERROR => 5 | oDEPLOY => 6 | oOTHER => 7
  end.

Definition estate_eqb (a b : estate) : bool :=
  match a, b with
  | sSTANDBY, sSTANDBY | sDEPLOYED, sDEPLOYED | sCONFIGURED, sCONFIGURED
  | sRUNNING, sRUNNING | sERROR, sERROR | sDONE, sDONE => true
  | _, _ => false
  end.
Definition eevent_eqb (a b : eevent) : bool :=
  match a, b with
  | eDEPLOY, eDEPLOY | eCONFIGURE, eCONFIGURE | eRESET, eRESET | eSTART_ACTIVITY, eSTART_ACTIVITY
  | eSTOP_ACTIVITY, eSTOP_ACTIVITY | eEXIT, eEXIT | eGO_ERROR, eGO_ERROR | eRECOVER, eRECOVER => true
  | _, _ => false
  end.
Definition optype_eqb (a b : optype) : bool := optype_code a =? optype_code b.

Definition mem_state (s : estate) (l : list estate) : bool := existsb (estate_eqb s) l.
Definition mem_event (e : eevent) (l : list eevent) : bool := existsb (eevent_eqb e) l.
