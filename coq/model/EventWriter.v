(* EventWriter — model of common/event/writer.go + fifobuffer.go (property C19).

   Four kinds of sequential processes share the state of one KafkaWriter:
     producers   WriteEvent / WriteEventWithTimestamp: convert, then send on toBatchMessagesChan
     batcher B   batchingLoop: range over the channel, Push into the FifoBuffer; when the channel
                 is closed and drained: send on batchingLoopDoneCh, ReleaseGoroutines, Done
     writer W    writingLoop: select { done: drain, Done, return ; default: sendBatch(PopMultiple) }
     closer C    Close: Add(2), close(channel), Wait
   Every process is deterministic, so a schedule is a list of "who moves next" labels; a label whose
   process is blocked (full channel, cond.Wait without wake-up, WaitGroup not yet zero) stutters.
   One label = one atomic step of the code at the granularity of channel operations, mutex
   critical sections of the FifoBuffer, and calls of the write function.  In particular the writer's
   `select` (decides default) and the following PopMultiple (takes the lock, finds the buffer empty,
   registers in cond.Wait) are two steps, and so are the batcher's done-signal and its Broadcast.

   The constants (channel capacity, batch sizes, whether the done branch drains, key source per
   event type, and the shape of the producers' hand-over: one plain blocking channel send)
   come from gen/Gen_EventWriter.v, regenerated from the source on every run.
   Definitions only; proofs are in proofs/EventWriter_proofs.v. *)
From Verif Require Import Common Gen_EventWriter EventRegistry.
Open Scope N_scope.

(* ---------- events, keys, messages ---------- *)
(* e_kind: 0 CoreStart, 1 MesosHeartbeat, 2 FrameworkEvent, 3 TaskEvent, 4 RoleEvent,
   5 EnvironmentEvent, 6 CallEvent, 7 IntegratedServiceEvent, 8 RunEvent, anything else: a value
   the type switch does not know.  e_tag identifies the event (chosen by its producer). *)
Record event := mkEvent { e_kind : N; e_tag : N; e_env : str; e_task : str }.

Definition nonempty_key (s : str) : option str :=
  match s with [] => None | _ :: _ => Some s end.

(* internalEventToKafkaEvent + kafkaEventToKafkaMessage: None = "unsupported event type" (the event
   is logged and dropped before the channel send); Some None = message without key. *)
Definition key_of (e : event) : option (option str) :=
  match assocN (e_kind e) ew_key_table with
  | None => None
  | Some src =>
    Some (if src =? 1 then nonempty_key (e_task e)
          else if src =? 2 then nonempty_key (e_env e)
          else None)
  end.

Record msg := mkMsg { m_prod : N; m_ev : event; m_key : option str }.

(* ---------- control states ---------- *)
Inductive bpc :=
| BIdle                (* at `for message := range chan` *)
| BHold (m : msg)      (* received m, about to Push *)
| BSignal              (* channel closed and drained; about to `done <- {}` *)
| BBcast               (* about to ReleaseGoroutines (lock, Broadcast, unlock) *)
| BWg                  (* about to runningWorkers.Done() *)
| BExit.

(* d = true: inside the drain loop of the done branch *)
Inductive wpc :=
| WSelect                          (* at the select *)
| WPop (d : bool)                  (* decided to call PopMultiple, lock not yet taken *)
| WWait (d : bool)                 (* inside cond.Wait *)
| WSend (d : bool) (b : list msg)  (* PopMultiple returned b, about to call the write function *)
| WInWrite (d : bool)              (* inside the write function (broker latency) *)
| WLen                             (* at `for Length() > 0` of the drain loop *)
| WWg                              (* about to runningWorkers.Done() *)
| WExit.

Inductive cpc := CNot | CAdded | CClosed | CReturned.

Record st := mkSt {
  chan : list msg;              (* toBatchMessagesChan, head = oldest *)
  closed : bool;                (* close(toBatchMessagesChan) happened *)
  buf : list msg;               (* FifoBuffer.buffer *)
  woken : bool;                 (* a Signal/Broadcast reached the writer registered in cond.Wait *)
  done_sig : bool;              (* a token sits in batchingLoopDoneCh *)
  released : bool;              (* FifoBuffer.released: ReleaseGoroutines has been called *)
  wg : Z;                       (* runningWorkers counter *)
  bp : bpc; wp : wpc; cp : cpc;
  delivered : list (list msg);  (* batches handed to the write function, oldest first *)
  accepted : list msg;          (* ghost: messages put into the channel, in that order *)
  panicked : bool               (* a producer sent on the closed channel *)
}.

Definition init : st :=
  mkSt [] false [] false false false 0%Z BIdle WSelect CNot [] [] false.

Inductive label := LPub (p : N) (e : event) | LB | LW | LC.

Definition waiting (w : wpc) : bool := match w with WWait _ => true | _ => false end.
Definition pop_max (d : bool) : nat := N.to_nat (if d then ew_drain_batch_max else ew_batch_max).
Definition after (d : bool) : wpc := if d then WLen else WSelect.

(* The hand-over of WriteEventWithTimestamp as read from writer.go on this run: exactly one send
   on toBatchMessagesChan, a plain statement (no select case, no go / defer, no loop, no stored
   closure), no select and no go statement in WriteEvent / WriteEventWithTimestamp, and the value
   sent is the message the conversion produced before the send. *)
Definition pub_sync : bool :=
  ew_pub_single_send && ew_pub_plain_send && ew_pub_no_select && ew_pub_no_go && ew_pub_convert_first.

(* WriteEventWithTimestamp: conversion first (an unsupported value returns before the send), then
   the channel send: panics on a closed channel, blocks (stutters) on a full one — provided the
   hand-over is that plain blocking send.  With any other hand-over (a non-blocking send with a
   fallback, a send from a spawned goroutine, ...) WriteEvent returns on a full channel although
   the message is not inside the writer: it counts as accepted and is nowhere in the pipeline. *)
Definition step_pub (p : N) (e : event) (s : st) : st :=
  let '(mkSt ch cl bf wk dn rl g b w c dl ac pn) := s in
  match key_of e with
  | None => s
  | Some k =>
    if cl then mkSt ch cl bf wk dn rl g b w c dl ac true
    else if Nlen ch <? ew_chan_cap
         then let m := mkMsg p e k in mkSt (ch ++ [m]) cl bf wk dn rl g b w c dl (ac ++ [m]) pn
         else if pub_sync then s
         else mkSt ch cl bf wk dn rl g b w c dl (ac ++ [mkMsg p e k]) pn
  end.

Definition step_B (s : st) : st :=
  let '(mkSt ch cl bf wk dn rl g b w c dl ac pn) := s in
  match b with
  | BIdle =>
    match ch with
    | m :: r => mkSt r cl bf wk dn rl g (BHold m) w c dl ac pn
    | [] => if cl then mkSt ch cl bf wk dn rl g BSignal w c dl ac pn else s
    end
  | BHold m => mkSt ch cl (bf ++ [m]) (wk || waiting w) dn rl g BIdle w c dl ac pn   (* Push: append, Signal *)
  | BSignal => mkSt ch cl bf wk true rl g BBcast w c dl ac pn
  | BBcast => mkSt ch cl bf (wk || waiting w) dn (ew_release_sticky || rl) g BWg w c dl ac pn
      (* ReleaseGoroutines: released = true (when the code has the flag), Broadcast *)
  | BWg => mkSt ch cl bf wk dn rl (g - 1)%Z BExit w c dl ac pn
  | BExit => s
  end.

Definition step_W (s : st) : st :=
  let '(mkSt ch cl bf wk dn rl g b w c dl ac pn) := s in
  match w with
  | WSelect =>
    if dn then mkSt ch cl bf wk false rl g b (if ew_drain_on_done then WLen else WWg) c dl ac pn
    else mkSt ch cl bf wk dn rl g b (WPop false) c dl ac pn
  | WPop d =>
    match bf with
    | [] => if rl then mkSt ch cl bf wk dn rl g b (after d) c dl ac pn   (* released: returns nothing at once *)
            else mkSt ch cl bf false dn rl g b (WWait d) c dl ac pn
    | _ :: _ => mkSt ch cl (skipn (pop_max d) bf) wk dn rl g b (WSend d (firstn (pop_max d) bf)) c dl ac pn
    end
  | WWait d =>
    if wk then
      match bf with
      | [] => mkSt ch cl bf false dn rl g b (after d) c dl ac pn   (* "released": returns nothing *)
      | _ :: _ => mkSt ch cl (skipn (pop_max d) bf) false dn rl g b (WSend d (firstn (pop_max d) bf)) c dl ac pn
      end
    else s
  | WSend d bt =>
    match bt with
    | [] => mkSt ch cl bf wk dn rl g b (after d) c dl ac pn        (* sendBatch skips an empty batch *)
    | _ :: _ => mkSt ch cl bf wk dn rl g b (WInWrite d) c (dl ++ [bt]) ac pn
    end
  | WInWrite d => mkSt ch cl bf wk dn rl g b (after d) c dl ac pn
  | WLen =>
    match bf with
    | [] => mkSt ch cl bf wk dn rl g b WWg c dl ac pn
    | _ :: _ => mkSt ch cl bf wk dn rl g b (WPop true) c dl ac pn
    end
  | WWg => mkSt ch cl bf wk dn rl (g - 1)%Z b WExit c dl ac pn
  | WExit => s
  end.

Definition step_C (s : st) : st :=
  let '(mkSt ch cl bf wk dn rl g b w c dl ac pn) := s in
  match c with
  | CNot => mkSt ch cl bf wk dn rl (g + 2)%Z b w CAdded dl ac pn
  | CAdded => mkSt ch true bf wk dn rl g b w CClosed dl ac pn
  | CClosed => if (g =? 0)%Z then mkSt ch cl bf wk dn rl g b w CReturned dl ac pn else s
  | CReturned => s
  end.

Definition step (l : label) (s : st) : st :=
  match l with
  | LPub p e => step_pub p e s
  | LB => step_B s
  | LW => step_W s
  | LC => step_C s
  end.

Definition run (sched : list label) (s : st) : st := fold_left (fun s l => step l s) sched s.

(* which processes can move (a label that cannot move stutters) *)
Definition b_can (s : st) : bool :=
  match bp s with
  | BIdle => match chan s with [] => closed s | _ :: _ => true end
  | BExit => false
  | _ => true
  end.
Definition w_can (s : st) : bool :=
  match wp s with WWait _ => woken s | WExit => false | _ => true end.
Definition c_can (s : st) : bool :=
  match cp s with CNot | CAdded => true | CClosed => (wg s =? 0)%Z | CReturned => false end.
Definition can (l : label) (s : st) : bool :=
  match l with LPub _ _ => true | LB => b_can s | LW => w_can s | LC => c_can s end.

(* messages that are inside the pipeline *)
Definition inflight (w : wpc) : list msg := match w with WSend _ b => b | _ => [] end.
Definition hand (b : bpc) : list msg := match b with BHold m => [m] | _ => [] end.
Definition pending (s : st) : list msg := inflight (wp s) ++ buf s ++ hand (bp s) ++ chan s.

Definition publish_enabled (s : st) : bool := negb (closed s) && (Nlen (chan s) <? ew_chan_cap).

(* the state in which Close would wait for ever: the batcher has signalled, broadcast and left;
   the writer sits in cond.Wait of the non-draining PopMultiple and nobody is left to wake it.
   Reachable in the code before the `released` flag was added to FifoBuffer (the writer decided
   `default:` in its select, the batcher then signalled, broadcast and left, and only then the
   writer entered PopMultiple); unreachable now (C19_no_lost_wakeup). *)
Definition lost_wakeup (s : st) : Prop :=
  cp s = CClosed /\ bp s = BExit /\ wp s = WWait false /\ woken s = false /\
  done_sig s = true /\ buf s = [] /\ chan s = [] /\ concat (delivered s) = accepted s.

(* number of steps the three service processes can still make without a new publication *)
Definition b_rank (s : st) : nat :=
  match bp s with
  | BIdle => 2 * length (chan s) + 7
  | BHold _ => 2 * length (chan s) + 8
  | BSignal => 6 | BBcast => 2 | BWg => 1 | BExit => 0
  end.
Definition w_rank (w : wpc) : nat :=
  match w with
  | WSend _ _ => 4 | WInWrite _ => 3 | WSelect => 2 | WLen => 2
  | WPop _ => 1 | WWg => 1 | WWait _ => 0 | WExit => 0
  end.
Definition c_rank (c : cpc) : nat :=
  match c with CNot => 3 | CAdded => 2 | CClosed => 1 | CReturned => 0 end.
Definition b2n (b : bool) : nat := if b then 1 else 0.
Definition credits (s : st) : nat :=
  (* messages not yet popped *)
  length (chan s) + length (hand (bp s)) + length (buf s)
  (* wake-ups still to come: one per Push, one Broadcast; tokens still to come or present *)
  + length (chan s) + length (hand (bp s))
  + match bp s with BIdle | BHold _ | BSignal => 2 | BBcast => 1 | _ => 0 end
  + b2n (woken s) + b2n (done_sig s).
(* a writer that is about to enter PopMultiple while the done token is present may come back
   empty-handed once (released buffer) before it consumes the token *)
Definition w_extra (s : st) : nat :=
  if done_sig s then match wp s with WPop false => 3 | _ => 0 end else 0.
Definition measure (s : st) : nat :=
  b_rank s + 6 * credits s + w_rank (wp s) + w_extra s + c_rank (cp s).

(* ---------- the coarse schedules the harness can force ---------- *)
(* The harness holds the writer inside the write function (a gate), publishes, lets the batcher
   and the writer run until nothing moves, releases the gate, calls Close at a chosen moment.
   [settle]: batcher first, then the writer unless it is inside the write function, then Close.
   It can also stall the batching loop (it takes the FifoBuffer mutex, so the loop stops at its
   next Push) while producers publish, until the channel is full and the producers wait: [OFull]. *)
Definition in_write (s : st) : bool := match wp s with WInWrite _ => true | _ => false end.

Fixpoint settle (fuel : nat) (s : st) : list label :=
  match fuel with
  | O => []
  | S f =>
    if b_can s then LB :: settle f (step LB s)
    else if w_can s && negb (in_write s) then LW :: settle f (step LW s)
    else if match cp s with CClosed => (wg s =? 0)%Z | _ => false end then LC :: settle f (step LC s)
    else []
  end.
Definition settle_fuel (s : st) : nat := 64 + 6 * (length (chan s) + length (buf s)).

Inductive op :=
| OPub (p : N) (e : event)          (* one WriteEvent, returned before the next operation *)
| OBurst (l : list (N * event))     (* concurrent WriteEvents, listed in the order they were accepted *)
| ORelease                          (* the write function returns *)
| OClose                            (* Close is called (in its own goroutine) *)
| OFull (l : list (N * event)).     (* the batching loop is stalled at its Push while these WriteEvents
                                       are issued concurrently (listed in the order they were accepted);
                                       when nothing moves any more the stall ends *)

Definition pub_label (pe : N * event) : label := LPub (fst pe) (snd pe).
Definition supported (e : event) : bool := match key_of e with Some _ => true | None => false end.

(* While the batching loop is stalled it can still receive ONE message (BIdle -> BHold); then it
   waits for the mutex inside Push.  A publication that finds the channel full waits — this is
   the enabledness of Publish, [publish_enabled] — and so do all those accepted after it.
   Result: the labels, the publications still waiting, and how many WriteEvent calls (of
   supported events, on the open channel) have returned. *)
Fixpoint stalled (l : list (N * event)) (s : st) : list label * list (N * event) * N :=
  match l with
  | [] => ([], [], 0)
  | pe :: r =>
    if supported (snd pe) && negb (closed s) && negb (publish_enabled s) then ([], l, 0)
    else
      let s1 := step (pub_label pe) s in
      let tk := match bp s1 with
                | BIdle => match chan s1 with _ :: _ => [LB] | [] => [] end
                | _ => []
                end in
      match stalled r (run tk s1) with
      | (ls, rest, n) =>
        (pub_label pe :: tk ++ ls, rest,
         n + (if supported (snd pe) && negb (closed s) then 1 else 0))
      end
  end.

(* The stall is over: a waiting publication gets in as soon as the batching loop has made room,
   which takes it at most two steps (Push, receive). *)
Definition make_room (s : st) : list label :=
  if publish_enabled s || closed s then []
  else if publish_enabled (step LB s) then [LB] else [LB; LB].

Fixpoint resumed (l : list (N * event)) (s : st) : list label :=
  match l with
  | [] => []
  | pe :: r =>
    let ls := (if supported (snd pe) then make_room s else []) ++ [pub_label pe] in
    ls ++ resumed r (run ls s)
  end.

Definition full_labels (l : list (N * event)) (s : st) : list label :=
  match stalled l s with
  | (ls, rest, _) => ls ++ resumed rest (run ls s)
  end.
Definition stalled_returns (l : list (N * event)) (s : st) : N := snd (stalled l s).

(* compact notation for long bursts: [n] consecutive publications of producer [p], tags t0, t0+1, ... *)
Fixpoint run_of (k : N) (env task : str) (p t0 : N) (n : nat) : list (N * event) :=
  match n with
  | O => []
  | S m => (p, mkEvent k t0 env task) :: run_of k env task p (N.succ t0) m
  end.
Definition expand_runs (k : N) (env task : str) (runs : list (N * N * N)) : list (N * event) :=
  flat_map (fun r => match r with (p, t0, n) => run_of k env task p t0 (N.to_nat n) end) runs.

Definition op_labels (o : op) (s : st) : list label :=
  match o with
  | OPub p e => [LPub p e]
  | OBurst l => map (fun pe => LPub (fst pe) (snd pe)) l
  | ORelease => if in_write s then [LW] else []
  | OClose => match cp s with CNot => [LC; LC] | _ => [] end
  | OFull l => full_labels l s
  end.

Definition coarse_labels (o : op) (s : st) : list label :=
  let l1 := op_labels o s in
  let s1 := run l1 s in
  l1 ++ settle (settle_fuel s1) s1.

Fixpoint coarse_sched (ops : list op) (s : st) : list label :=
  match ops with
  | [] => []
  | o :: r => let l := coarse_labels o s in l ++ coarse_sched r (run l s)
  end.

Definition init_labels : list label := settle (settle_fuel init) init.
Definition init_settled : st := run init_labels init.

(* observed message: producer, tag, kind, key *)
Definition omsg := (N * N * N * option str)%type.
Definition omsg_of (m : msg) : omsg := (m_prod m, e_tag (m_ev m), e_kind (m_ev m), m_key m).
(* per operation: result code; batches that reached the write function (as decoded when the write
   function was entered); Close returned; batches whose write function returned during this
   operation (the very same slice decoded again at return: what the broker really saw); for an
   OFull operation: (number of WriteEvent calls that had returned when nothing moved any more
   with the batching loop stalled, capacity of the channel); (0, 0) for the other operations *)
Definition opobs := (N * list (list omsg) * bool * list (list omsg) * (N * N))%type.
Definition o_res (o : opobs) : N := fst (fst (fst (fst o))).
Definition o_batches (o : opobs) : list (list omsg) := snd (fst (fst (fst o))).
Definition o_closed (o : opobs) : bool := snd (fst (fst o)).
Definition o_left (o : opobs) : list (list omsg) := snd (fst o).
Definition o_stall (o : opobs) : N * N := snd o.

(* compact notation for long observed batches: runs of consecutive tags of one producer, all of
   event type k and with the same key *)
Fixpoint omsg_run (k : N) (key : option str) (p t0 : N) (n : nat) : list omsg :=
  match n with
  | O => []
  | S m => (p, t0, k, key) :: omsg_run k key p (N.succ t0) m
  end.
Definition runs_batch (k : N) (key : option str) (runs : list (N * N * N)) : list omsg :=
  flat_map (fun r => match r with (p, t0, n) => omsg_run k key p t0 (N.to_nat n) end) runs.

Definition is_returned (s : st) : bool := match cp s with CReturned => true | _ => false end.

(* result code of an operation: 0 returned; 1 nothing to do; 2 panicked (send on closed
   channel); 3 blocked (full channel) *)
Definition op_res (o : op) (s : st) : N :=
  match o with
  | OPub p e =>
    match key_of e with
    | None => 0
    | Some _ => if closed s then 2 else if Nlen (chan s) <? ew_chan_cap then 0 else 3
    end
  | OBurst l =>
    if closed s && existsb (fun pe => match key_of (snd pe) with Some _ => true | None => false end) l
    then 2 else 0
  | ORelease => if in_write s then 0 else 1
  | OClose => match cp s with CNot => 0 | _ => 1 end
  | OFull l => if closed s && existsb (fun pe => supported (snd pe)) l then 2 else 0
  end.

Definition obs_of (o : op) (s s' : st) : opobs :=
  (op_res o s,
   map (map omsg_of) (skipn (length (delivered s)) (delivered s')),
   is_returned s' && negb (is_returned s),
   match o with
   | ORelease => if in_write s then [map omsg_of (last (delivered s) [])] else []
   | _ => []
   end,
   match o with
   | OFull l => (stalled_returns l s, ew_chan_cap)
   | _ => (0, 0)
   end).

Fixpoint coarse_obs (ops : list op) (s : st) : list opobs :=
  match ops with
  | [] => []
  | o :: r => let s' := run (coarse_labels o s) s in
              let ob := obs_of o s s' in ob :: coarse_obs r s'
  end.

Definition run_model (ops : list op) : list opobs := coarse_obs ops init_settled.

(* state after a forced schedule *)
Definition coarse_end (ops : list op) (s : st) : st :=
  fold_left (fun s o => run (coarse_labels o s) s) ops s.

(* ---------- a full channel (capacity 10000) without running 10000 quadratic steps ---------- *)
(* For the long OFull schedules the prediction is computed in closed form; C19_stalled_returns_
   closed_form and C19_full_accepts_all_in_order (props/C19.v) prove that this is what the
   schedule [full_labels] does in the model, from every reachable state that meets [full_pre_ok]. *)
Definition msg_of_pub (pe : N * event) : msg :=
  mkMsg (fst pe) (snd pe) (match key_of (snd pe) with Some k => k | None => None end).
(* the batching loop is idle at its range, the channel is empty and open *)
Definition full_pre_ok (s : st) : bool :=
  match chan s, bp s with [], BIdle => negb (closed s) | _, _ => false end.
(* WriteEvent calls that return while the batching loop is stalled: the capacity of the channel
   plus the one message the loop holds; all of them if they are fewer *)
Definition full_returns (l : list (N * event)) : N := N.min (Nlen l) (ew_chan_cap + 1).

(* ---------- comparison of observations ---------- *)
Definition omsg_eqb (a b : omsg) : bool :=
  match a, b with
  | (p, t, k, key), (p', t', k', key') =>
    (p =? p') && (t =? t') && (k =? k') && option_eqb str_eqb key key'
  end.
Definition opobs_eqb (a b : opobs) : bool :=
  match a, b with
  | (r, bs, c, l, (n, k)), (r', bs', c', l', (n', k')) =>
    (r =? r') && list_eqb (list_eqb omsg_eqb) bs bs' && Bool.eqb c c' &&
    list_eqb (list_eqb omsg_eqb) l l' && (n =? n') && (k =? k')
  end.

(* ---------- cases written by the harness ---------- *)
Inductive c19_case :=
| CSched (ops : list op) (observed : list opobs)   (* a forced schedule and what the code did *)
| CFull (pre : list op) (l : list (N * event)) (o : opobs)
   (* the forced schedule  pre ++ [OFull l; OClose; ORelease; ...; ORelease]  (as many releases as
      it takes for Close to return; pre is short and leaves the channel empty), with the
      observations of all its operations merged into one: worst result code, every batch at
      entry of the write function, Close returned, every batch at return, and the stall
      observation of the OFull operation *)
| CReg (ops : list rop) (handed : list N) (registered : list (N * N)) (leaked : N) (pubs : N)
       (flat : list (N * N)) (res : N)
   (* the per-topic writer registry of core/the driven through EventWriterWithTopic and
      ClearEventWriters (model: EventRegistry).  ops: the calls in the order the harness lists
      them — calls of one group were issued concurrently behind the held registry lock —, the
      last one is the final ClearEventWriters; handed: per call the identity (+1) of the writer
      it returned, 0 for a Clear; registered: the registry (topic, identity + 1) just before the
      final Clear; leaked: writingLoop / batchingLoop goroutines left after the final Clear;
      pubs: events whose WriteEvent returned; flat: (producer, tag) in the order the events
      reached the write functions of all writers; res: 0, or 9 = something did not settle *)
| CCrash (kind : N)
   (* the process running the writer died while the harness ran a case (the harness recovers a
      panic of a WriteEvent call in the calling goroutine, so this is a panic or fatal error in a
      goroutine the writer itself started); kind 1: "send on closed channel", 0: anything else *)
| CRace (mode : N) (trials : N) (hangs : N) (lost : N).
   (* unforced races of Close against the writer: mode 1 = right after construction, 2 = against
      the return of the write function; hangs = trials in which Close never returned with the
      batcher gone and the writer in cond.Wait; lost = trials in which Close returned with an
      accepted event undelivered *)

Fixpoint distinctN (l seen : list N) : list N :=
  match l with
  | [] => seen
  | x :: r => if memN x seen then distinctN r seen else distinctN r (x :: seen)
  end.

(* ---------- registry cases ---------- *)
Definition rop_topic (o : rop) : option N := match o with RGet t => Some t | RClear => None end.

(* model: every call runs to completion in turn (the projection compared is the same for every
   schedule: C19_registry_same_writer_for_all_producers); identities are compared up to renaming *)
Definition reg_registered_pred (ops : list rop) (handed : list N) : list (N * N) :=
  let pre := removelast ops in
  let s := reg_end pre in
  let tr := combine (reg_results pre) handed in
  map (fun e => (fst e, match assocN (snd e + 1) tr with Some h => h | None => 0 end)) (r_reg s).

Definition pairs_subset (a b : list (N * N)) : bool :=
  forallb (fun x => existsb (fun y => (fst x =? fst y) && (snd x =? snd y)) b) a.

Definition corr_reg (ops : list rop) (handed : list N) (registered : list (N * N))
           (leaked pubs : N) (flat : list (N * N)) (res : N) : bool :=
  list_eqb N.eqb (canon (reg_results ops)) (canon handed) &&
  pairs_subset (reg_registered_pred ops handed) registered &&
  pairs_subset registered (reg_registered_pred ops handed) &&
  (* after ClearEventWriters every writer ever built is closed (C19_registry_clear_closes_all),
     a closed writer has delivered everything it accepted and its loops are gone (C19_flush) *)
  (leaked =? 0) && (Nlen flat =? pubs) && (res =? 0).

(* monitor, on the observation alone *)
Fixpoint reg_same_writer (ops : list rop) (handed : list N) (cur : list (N * N)) : bool :=
  match ops, handed with
  | RClear :: r, _ :: h => reg_same_writer r h []
  | RGet t :: r, w :: h =>
    match assocN t cur with
    | Some w' => (w =? w') && reg_same_writer r h cur
    | None => reg_same_writer r h ((t, w) :: cur)
    end
  | _, _ => true
  end.

(* the calls since the last Clear that is not the final one *)
Fixpoint reg_last_round (ops : list rop) (handed : list N) (acc : list (N * N)) : list (N * N) :=
  match ops, handed with
  | RClear :: [], _ => acc
  | RClear :: r, _ :: h => reg_last_round r h []
  | RGet t :: r, w :: h => reg_last_round r h ((t, w) :: acc)
  | _, _ => acc
  end.

Fixpoint pair_increasing (p : N) (last : option N) (l : list (N * N)) : bool :=
  match l with
  | [] => true
  | (p', t) :: r =>
    if p =? p' then
      match last with
      | Some x => (x <? t) && pair_increasing p (Some t) r
      | None => pair_increasing p (Some t) r
      end
    else pair_increasing p last r
  end.

Definition mon_reg (ops : list rop) (handed : list N) (registered : list (N * N))
           (leaked pubs : N) (flat : list (N * N)) (res : N) : N :=
  let round := reg_last_round ops handed [] in
  (* 13: two producers of one topic (no ClearEventWriters in between) were handed different writers *)
  if negb (reg_same_writer ops handed []) then 13
  (* 14: a writer handed out is not the registered writer of its topic *)
  else if negb (pairs_subset round registered) then 14
  (* 15: writer goroutines are left after ClearEventWriters: a writer that was handed out was never closed *)
  else if 0 <? leaked then 15
  (* 4: shutdown completed although an accepted event never reached the broker *)
  else if Nlen flat <? pubs then 4
  (* 1: an event reached the broker twice *)
  else if pubs <? Nlen flat then 1
  (* 2: per-producer order *)
  else if negb (forallb (fun p => pair_increasing p None flat) (distinctN (map fst flat) [])) then 2
  else if res =? 9 then 8
  else 0.

Definition corr19 (c : c19_case) : bool :=
  match c with
  | CSched ops obs => list_eqb opobs_eqb (run_model ops) obs
  | CFull pre l o =>
    let s0 := coarse_end pre init_settled in
    match o with
    | (r, bs, c, _, (n, k)) =>
      full_pre_ok s0 && forallb (fun pe => supported (snd pe)) l &&
      (r =? 0) && c && (n =? full_returns l) && (k =? ew_chan_cap) &&
      (* Close returned: everything accepted, in the order of acceptance (C19_flush,
         C19_full_accepts_all_in_order) *)
      list_eqb omsg_eqb (concat bs) (map omsg_of (accepted s0 ++ map msg_of_pub l))
    end
  | CReg ops handed registered leaked pubs flat res =>
    corr_reg ops handed registered leaked pubs flat res
  | CCrash _ => false
    (* the only panic of the model is a producer's own send on the closed channel
       (C19_panic_only_after_close), and that one stays in the calling goroutine *)
  | CRace _ _ hangs _ =>
    (* with the released flag the model has no hanging schedule (C19_close_terminates); without
       it both outcomes are behaviours of the model *)
    if ew_release_sticky then hangs =? 0 else true
  end.

(* ---------- the property evaluated on what the implementation did ---------- *)
Definition pubs_of (o : op) : list (N * event) :=
  match o with OPub p e => [(p, e)] | OBurst l => l | OFull l => l | _ => [] end.
Definition is_close (o : op) : bool := match o with OClose => true | _ => false end.

Fixpoint before_close (ops : list op) : list op :=
  match ops with
  | [] => []
  | o :: r => if is_close o then [] else o :: before_close r
  end.

Definition all_batches (obs : list opobs) : list (list omsg) := flat_map o_batches obs.
Definition all_left (obs : list opobs) : list (list omsg) := flat_map o_left obs.
Definition close_returned (obs : list opobs) : bool := existsb o_closed obs.
(* what the broker saw: the content at return of the write function where it has returned,
   the content at entry for a batch still inside the write function *)
Definition seen_batches (obs : list opobs) : list (list omsg) :=
  all_left obs ++ skipn (length (all_left obs)) (all_batches obs).

Definition same_id (p t : N) (m : omsg) : bool :=
  match m with (p', t', _, _) => (p =? p') && (t =? t') end.
Definition same_pub (m : omsg) (pe : N * event) : bool :=
  match m with (p, t, k, _) => (p =? fst pe) && (t =? e_tag (snd pe)) && (k =? e_kind (snd pe)) end.

Fixpoint no_dup_ids (l : list omsg) : bool :=
  match l with
  | [] => true
  | (p, t, _, _) :: r => negb (existsb (same_id p t) r) && no_dup_ids r
  end.

(* tags of producer p strictly increase along l *)
Fixpoint increasing_from (p : N) (last : option N) (l : list omsg) : bool :=
  match l with
  | [] => true
  | (p', t, _, _) :: r =>
    if p =? p' then
      match last with
      | Some x => (x <? t) && increasing_from p (Some t) r
      | None => increasing_from p (Some t) r
      end
    else increasing_from p last r
  end.
Definition producers_of (l : list omsg) : list N := distinctN (map (fun m => fst (fst (fst m))) l) [].
Definition order_ok (l : list omsg) : bool :=
  forallb (fun p => increasing_from p None l) (producers_of l).

Definition is_event_kind (k : N) : bool := k <=? 8.
Definition env_scoped_kind (k : N) : bool := (4 <=? k) && (k <=? 8).

(* the documented key: environment id for role/environment/call/integrated-service/run events,
   task id for task events, none for meta events; an empty id gives no key *)
Definition documented_key (e : event) : option str :=
  if env_scoped_kind (e_kind e) then nonempty_key (e_env e)
  else if e_kind e =? 3 then nonempty_key (e_task e)
  else None.

Definition key_of_delivered (l : list omsg) (pe : N * event) : option (option str) :=
  match find (fun m => same_pub m pe) l with
  | Some (_, _, _, key) => Some key
  | None => None
  end.

(* (event, key it carried at the broker) for every published event that reached the broker *)
Definition delivered_keys (flat : list omsg) (pubs : list (N * event)) : list (event * option str) :=
  flat_map (fun pe => match key_of_delivered flat pe with
                      | Some k => [(snd pe, k)]
                      | None => []
                      end) pubs.

(* Linear-time shortcuts for long schedules (a full channel is 10000 messages).  Each implies the
   quadratic check it stands in front of, so the monitor decides exactly what it decided before:
   - [lockstep flat pubs]: flat is, in order, a subsequence of pubs (every message matched with a
     publication of its own) => every message was published;
   - [order_ok flat] (tags of each producer strictly increase) => no identity occurs twice;
   - [early_ok]: a publication that matches the next message in line has reached the broker;
   - [keys_walk]: same, for the key it carried (the first match is the only one once code 1 is excluded). *)
Fixpoint lockstep (flat : list omsg) (pubs : list (N * event)) {struct flat} : bool :=
  match flat with
  | [] => true
  | m :: fr =>
    (fix skip (ps : list (N * event)) : bool :=
       match ps with
       | [] => false
       | pe :: pr => if same_pub m pe then lockstep fr pr else skip pr
       end) pubs
  end.

Fixpoint early_ok (early : list (N * event)) (cur all : list omsg) : bool :=
  match early with
  | [] => true
  | pe :: r =>
    if negb (is_event_kind (e_kind (snd pe))) then early_ok r cur all
    else match cur with
         | m :: cr => if same_pub m pe then early_ok r cr all
                      else existsb (fun m => same_pub m pe) all && early_ok r cur all
         | [] => existsb (fun m => same_pub m pe) all && early_ok r cur all
         end
  end.

Definition key_slow (all : list omsg) (pe : N * event) : list (event * option str) :=
  match key_of_delivered all pe with Some k => [(snd pe, k)] | None => [] end.

Fixpoint keys_walk (pubs : list (N * event)) (cur all : list omsg) : list (event * option str) :=
  match pubs with
  | [] => []
  | pe :: r =>
    match cur with
    | m :: cr => if same_pub m pe then (snd pe, snd m) :: keys_walk r cr all
                 else key_slow all pe ++ keys_walk r cur all
    | [] => key_slow all pe ++ keys_walk r cur all
    end
  end.

Definition mon_sched (ops : list op) (obs : list opobs) : N :=
  let batches := seen_batches obs in
  let flat := concat batches in
  let pubs := flat_map pubs_of ops in
  let early := flat_map pubs_of (before_close ops) in
  let dkeys := keys_walk pubs flat flat in
  let scoped := filter (fun a => env_scoped_kind (e_kind (fst a))) dkeys in
  (* 9: a batch changed while the write function was working on it (its content at return differs
        from its content at entry) *)
  if negb (list_eqb (list_eqb omsg_eqb)
                    (firstn (length (all_left obs)) (all_batches obs)) (all_left obs)) then 9
  (* 4: shutdown completed, but an event accepted before Close was called never reached the broker *)
  else if close_returned obs && negb (early_ok early flat flat) then 4
  (* 1: something reached the broker twice, or was never published, or is not what was published *)
  else if negb (if order_ok flat then true else no_dup_ids flat) ||
          negb (if lockstep flat pubs then true
                else forallb (fun m => existsb (same_pub m) pubs) flat) then 1
  (* 2: a producer's events reached the broker in another order than it published them *)
  else if negb (order_ok flat) then 2
  (* 3: batch size outside 1..100 *)
  else if negb (forallb (fun b => (1 <=? Nlen b) && (Nlen b <=? 100)) batches) then 3
  (* 5: two events about the same environment carry different keys *)
  else if negb (forallb (fun a => forallb (fun b =>
            negb (str_eqb (e_env (fst a)) (e_env (fst b))) || option_eqb str_eqb (snd a) (snd b))
            scoped) scoped) then 5
  (* 6: a key is not the documented one *)
  else if negb (forallb (fun a => option_eqb str_eqb (snd a) (documented_key (fst a))) dkeys) then 6
  (* 11: with the batching loop stalled, more WriteEvent calls returned than the channel has room
         for (its capacity, plus the one message the stalled loop holds): an event was accepted
         without being inside the writer *)
  else if existsb (fun o => snd (o_stall o) + 1 <? fst (o_stall o)) obs then 11
  (* 7: a producer was kept waiting while the broker did not answer *)
  else if existsb (fun o => o_res o =? 3) obs then 7
  (* 8: an operation did not settle although the model says it does (result code 9) *)
  else if existsb (fun o => o_res o =? 9) obs then 8
  else 0.

Definition mon19 (c : c19_case) : N :=
  match c with
  | CSched ops obs => mon_sched ops obs
  | CFull pre l o => mon_sched (pre ++ [OFull l; OClose]) [o]
  | CReg ops handed registered leaked pubs flat res =>
    mon_reg ops handed registered leaked pubs flat res
  | CCrash _ => 12
  | CRace _ _ hangs lost => if 0 <? lost then 4 else if 0 <? hangs then 10 else 0
  end.

(* ---------- which decision points a case exercised ---------- *)
(* state of the model when Close is called *)
Fixpoint state_at_close (ops : list op) (s : st) : option st :=
  match ops with
  | [] => None
  | o :: r => if is_close o then Some s else state_at_close r (run (coarse_labels o s) s)
  end.

Definition tag19 (c : c19_case) : N :=
  match c with
  | CRace mode _ _ _ => 20 + mode
  | CCrash kind => 50 + kind
  | CReg ops _ _ _ _ _ _ =>
    (* 60: one topic; +1: several topics; +2: the registry was cleared and used again *)
    60 + (if 1 <? Nlen (distinctN (flat_map (fun o => match o with RGet t => [t] | RClear => [] end) ops) [])
          then 1 else 0)
       + (if 1 <? Nlen (filter (fun o => match o with RClear => true | _ => false end) ops) then 2 else 0)
  | CFull _ l o => if fst (o_stall o) <? Nlen l then 41 else 40
      (* 41: the channel was full and producers waited for the batching loop; 40: the burst fitted *)
  | CSched ops obs =>
    let full := (if existsb (fun b => Nlen b =? 100) (all_batches obs) then 10 else 0) +
                (* the channel was full and producers waited for the batching loop *)
                (if existsb (fun o => (0 <? snd (o_stall o)) && (snd (o_stall o) <? fst (o_stall o))) obs
                 then 30 else 0) in
    match state_at_close ops init_settled with
    | None => 0
    | Some s =>
      full +
      (if negb (in_write s) then (match accepted s with [] => 1 | _ => 2 end)  (* writer idle *)
       else match buf s with
            | [] => 3                                    (* in the write function, buffer empty *)
            | _ => if Nlen (buf s) <=? 100 then 4 else 5 (* one / several batches left to flush *)
            end)
    end
  end.

Definition report19 := report corr19 mon19 tag19.
