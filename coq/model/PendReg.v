(* PendReg.v — the registry of calls pending await (Environment.callsPendingAwait: await trigger -> weight ->
   calls) that handleHooks fills when it starts a call and cancelCallsPendingAwait (teardown) walks.  The
   model of C06 (Teardown.v) counts pending calls; this file says why counting is enough: registering a call
   never drops a call already registered, so the teardown's walk reaches every call that was started.
   Whether handleHooks stores a fresh per-trigger map only when there is none (or an empty one) is read off
   the source (gen/Gen_PendReg.v, reg_fresh_only_when_empty); a registration that stores a fresh map
   whenever the (trigger, weight) slot is empty is the other behaviour modelled (seeded change C06-6). *)
From Coq Require Import List NArith ZArith Bool.
From Verif Require Import Common Gen_PendReg.
Import ListNotations.
Open Scope N_scope.

Definition wmap := list (Z * list N).          (* weight -> calls *)
Definition registry := list (N * wmap).        (* await trigger -> weights *)

Fixpoint wm_get (w : Z) (m : wmap) : list N :=
  match m with [] => [] | (w', l) :: r => if Z.eqb w w' then l else wm_get w r end.
Fixpoint wm_add (w : Z) (c : N) (m : wmap) : wmap :=
  match m with
  | [] => [(w, [c])]
  | (w', l) :: r => if Z.eqb w w' then (w', l ++ [c]) :: r else (w', l) :: wm_add w c r
  end.
Fixpoint rg_get (n : N) (r : registry) : wmap :=
  match r with [] => [] | (n', m) :: t => if N.eqb n n' then m else rg_get n t end.
Fixpoint rg_set (n : N) (m : wmap) (r : registry) : registry :=
  match r with
  | [] => [(n, m)]
  | (n', m') :: t => if N.eqb n n' then (n, m) :: t else (n', m') :: rg_set n m t
  end.

Definition wm_calls (m : wmap) : list N := flat_map snd m.
(* what cancelCallsPendingAwait walks *)
Definition all_calls (r : registry) : list N := flat_map (fun p => wm_calls (snd p)) r.

Definition register_mode (careful : bool) (n : N) (w : Z) (c : N) (r : registry) : registry :=
  let m := rg_get n r in
  let m' := if careful then m else match wm_get w m with [] => [] | _ => m end in
  rg_set n (wm_add w c m') r.

Definition register := register_mode reg_fresh_only_when_empty.

(* calls started one after the other: (await trigger, await weight, call) *)
Fixpoint register_all (l : list (N * Z * N)) (r : registry) : registry :=
  match l with
  | [] => r
  | (n, w, c) :: t => register_all t (register n w c r)
  end.
