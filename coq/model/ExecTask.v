(* ExecTask — model of the executor's task life cycles (property C17):
     executor/executable/basictaskcommon.go, basictask.go, hooktask.go   (basic and hook tasks)
     executor/executable/controllabletask.go                              (controllable tasks)
     executor/handlers.go, actions.go (activeTasks bookkeeping of LAUNCH / KILL / MESSAGE)

   Two labelled transition systems, [bstep] (basic / hook) and [cstep] (controllable).  One action =
   one atomic step of one goroutine at the granularity of: a request handler up to its first
   blocking point, a timer firing, the child dying, [Wait] returning in the reaper (which then polls
   pendingFinalTaskStateCh and reports), one wake-up of the Kill goroutine after one of its sleeps.
   A schedule is a list of actions; an action that is not enabled stutters.  The behaviour of the
   child process (how it ends, whether it ignores TERM/INT, whether it forked, whether the device
   accepts transitions, whether it leaves on DONE) is the oracle [beh].

   What the executor tells the agent / does to the child is the output list of a step:
     OStatus   a task status update            OEvent  BASIC_TASK_TERMINATED device event
     OResp     the answer to a request         OPid    AnnounceTaskPID message
     OSig      a signal sent to the child      OWait   a sleep of the Kill goroutine (milliseconds)
     ODisc     the KILL handler returned an error (event loop ends, the executor re-subscribes)
     OCrash    a nil dereference: the executor process dies

   The model follows the code after the repairs of C17-a/b/c/d/f/g/h/i (fix: commits): KILL stops
   the RUNNING timer and, for a basic task, kills the group; ensureBasicTaskKilled never blocks and
   sweeps the group of a reaped child; ControllableTask.Kill refuses without a client and sweeps the
   process group when it returns; the start-up poll of Launch notices a Kill (C17-e) and its
   wrong-start-state and start-up-timeout branches sweep the group and wait (C17-k, C17-m).  Left as they are (recorded): KILL
   before the dial returned (C17-j), KILL of a running hook (C17-b).  A START while the previous
   command still runs is refused (C17-l).

   OS facts taken as given (named in props.d/C17.json): SIGKILL kills; a signal to the group reaches
   every member; kill(2) on a group that only holds zombies succeeds; a zombie still "exists" for
   pidExists until Wait reaps it; nobody but the executor's reaper reaps the direct child.

   Constants and the nil-guard flag come from gen/Gen_ExecTask.v, regenerated from the source on
   every run.  Definitions only; proofs are in proofs/ExecTask_proofs.v. *)
From Verif Require Import Common Gen_ExecTask.
Open Scope N_scope.

(* ---------- vocabulary ---------- *)
(* OTHERST: any other (terminal) Mesos task state; the modelled code never sends one *)
Inductive status := RUNNING | FINISHED | FAILED | KILLED | OTHERST.
Definition terminal (s : status) : bool := match s with RUNNING => false | _ => true end.
Definition status_eqb (a b : status) : bool :=
  match a, b with
  | RUNNING, RUNNING | FINISHED, FINISHED | FAILED, FAILED | KILLED, KILLED | OTHERST, OTHERST => true
  | _, _ => false
  end.

Inductive sig := TERM | INT | KILL9.
Inductive tgt := ToPid | ToGroup.
Inductive death := DExit (code : N) | DSig.       (* exit(code) / killed by a signal *)
Inductive pstate := PRun | PZombie (d : death) | PReaped (d : death).
Inductive req := RConf | RStart | RStop | RReset | RTrigger.

Inductive out :=
| OStatus (s : status)
| OEvent (voluntary : bool) (exitcode : Z) (final : status)
| OResp (r : req) (ok : bool)
| OPid
| OSig (t : tgt) (s : sig)
| OWait (ms : N)
| ODisc
| OCrash.

(* the child's behaviour *)
Record beh := mkBeh {
  bh_death : death;            (* how it ends when it ends by itself *)
  bh_ign : bool;               (* ignores TERM and INT *)
  bh_fork : bool;              (* has a child of its own in the group, immune to TERM/INT *)
  bh_trans_ok : bool;          (* controllable: the device accepts transitions *)
  bh_exit_on_done : option N;  (* controllable: leaves by itself with this code once in DONE *)
  bh_bad_start : bool;         (* controllable: reports ERROR instead of STANDBY at start *)
  bh_walk_ok : bool            (* controllable: the teardown walk of Kill reaches DONE (false: the device
                                  acknowledges a teardown step without moving, or refuses it) *)
}.

Inductive action :=
| ALaunch | AKill | AReq (r : req)
| ATimer                       (* the TASK_RUNNING timer of doLaunch fires *)
| AExit (i : nat)              (* child i ends by itself *)
| AReap (i : nat)              (* Wait returns in the reaper of child i *)
| ADialOk | ADialTimeout       (* controllable: NewClient returns a client / nil *)
| APollTick | APollReady | APollBad | APollTimeout   (* controllable: one iteration of the start-up poll *)
| ADoneExit                    (* controllable: the device, in DONE, leaves by itself *)
| AKillStep.                   (* controllable: the Kill goroutine wakes up from its current sleep *)

(* status the reaper reports when nobody posted one: err == nil iff exit code 0 *)
Definition default_final (d : death) : status :=
  match d with DExit 0 => FINISHED | _ => FAILED end.
Definition exit_code (d : death) : Z :=
  match d with DExit n => Z.of_N n | DSig => (-1)%Z end.

(* ====================================================================================== *)
(* basic and hook tasks                                                                    *)
(* ====================================================================================== *)
Record child := mkChild { ch_st : pstate; ch_gc : bool }.

Record bst := mkB {
  b_launched : bool;
  b_active : bool;             (* present in activeTasks *)
  b_timer : bool;              (* the TASK_RUNNING timer is armed *)
  b_cmd : option nat;          (* t.taskCmd: index of the child it refers to; None = nil *)
  b_children : list child;     (* every child started so far *)
  b_pending : option status;   (* pendingFinalTaskStateCh (capacity 1) *)
  b_blocked : nat;             (* STOP handlers blocked in the send on the full channel *)
  b_crashed : bool
}.

Definition binit : bst := mkB false false false None [] None 0 false.

Definition set_children (s : bst) (l : list child) : bst :=
  mkB (b_launched s) (b_active s) (b_timer s) (b_cmd s) l (b_pending s) (b_blocked s) (b_crashed s).
Definition set_pending (s : bst) (p : option status) : bst :=
  mkB (b_launched s) (b_active s) (b_timer s) (b_cmd s) (b_children s) p (b_blocked s) (b_crashed s).
Definition set_blocked (s : bst) (n : nat) : bst :=
  mkB (b_launched s) (b_active s) (b_timer s) (b_cmd s) (b_children s) (b_pending s) n (b_crashed s).
Definition bcrash (s : bst) : bst :=
  mkB (b_launched s) (b_active s) (b_timer s) (b_cmd s) (b_children s) (b_pending s) (b_blocked s) true.

Fixpoint upd {A} (i : nat) (x : A) (l : list A) : list A :=
  match l, i with
  | [], _ => []
  | _ :: r, O => x :: r
  | y :: r, S j => y :: upd j x r
  end.

(* kill(-pgid, sig) finds a process: the leader not yet reaped (running or zombie) or the forked child *)
Definition group_has_proc (c : child) : bool :=
  match ch_st c with PReaped _ => ch_gc c | _ => true end.
Definition kill_group (c : child) : child :=
  mkChild (match ch_st c with PRun => PZombie DSig | x => x end) false.
Definition child_live (c : child) : bool :=
  match ch_st c with PRun => true | _ => ch_gc c end.

(* ensureBasicTaskKilled of a basic task (after the repairs C17-d/h/i): a child that has been
   reaped (ProcessState != nil) only has its process group swept; otherwise TASK_KILLED is posted
   on the pending channel without blocking and the group gets SIGKILL.  No answer is part of it. *)
Definition ensure_killed (s : bst) : bst * list out :=
  match b_cmd s with
  | None => (s, [])
  | Some i =>
    match nth_error (b_children s) i with
    | None => (s, [])
    | Some c =>
      match ch_st c with
      | PReaped _ =>
        (set_children s (upd i (kill_group c) (b_children s)), [OSig ToGroup KILL9])
      | PRun | PZombie _ =>                                     (* ProcessState is still nil *)
        if et_stop_guards_nil
        then (set_children (match b_pending s with Some _ => s | None => set_pending s (Some KILLED) end)
                           (upd i (kill_group c) (b_children s)), [OSig ToGroup KILL9])
        else (bcrash s, [OCrash])
      end
    end
  end.

Definition stop_basic (s : bst) : bst * list out :=
  let '(s1, o) := ensure_killed s in
  if b_crashed s1 then (s1, o) else (s1, o ++ [OResp RStop true]).

Definition reaped (c : child) : bool := match ch_st c with PReaped _ => true | _ => false end.

(* the command of the last START has been started and not yet waited for (ProcessState == nil):
   a further START of a basic task is refused (repair C17-l) *)
Definition cmd_unreaped (s : bst) : bool :=
  match b_cmd s with
  | Some i => match nth_error (b_children s) i with Some c => negb (reaped c) | None => false end
  | None => false
  end.

Definition start_child (b : beh) (s : bst) : bst :=
  mkB (b_launched s) (b_active s) (b_timer s) (Some (length (b_children s)))
      (b_children s ++ [mkChild PRun (bh_fork b)]) (b_pending s) (b_blocked s) (b_crashed s).

Definition breq (b : beh) (hook : bool) (s : bst) (r : req) : bst * list out :=
  if negb (b_active s) then (s, [])                       (* "no active task": logged, no answer *)
  else match r with
       | RTrigger => if hook then (start_child b s, [OResp RTrigger true])
                     else (s, [])                         (* "TriggerHook for non-hook task": no answer *)
       | RStart => if hook then (s, [OResp RStart true])
                   else if cmd_unreaped s then (s, [OResp RStart false])
                   else (start_child b s, [OResp RStart true])
       | RStop => if hook then (s, [OResp RStop true]) else stop_basic s
       | RConf => (s, [OResp RConf true])
       | RReset => (s, [OResp RReset true])
       end.

Definition breap (s : bst) (i : nat) : bst * list out :=
  match nth_error (b_children s) i with
  | Some (mkChild (PZombie d) gc) =>
    let s1 := set_children s (upd i (mkChild (PReaped d) gc) (b_children s)) in
    match b_pending s1 with
    | None => (s1, [OEvent true (exit_code d) (default_final d)])
    | Some p => (set_pending s1 None, [OEvent false (exit_code d) p])
    end
  | _ => (s, [])
  end.

Definition bstep (b : beh) (hook : bool) (s : bst) (a : action) : bst * list out :=
  if b_crashed s then (s, [])
  else match a with
  | ALaunch =>
    if b_launched s then (s, [])
    else (mkB true true true None (b_children s) (b_pending s) (b_blocked s) false, [])
  | ATimer =>
    if b_timer s
    then (mkB (b_launched s) (b_active s) false (b_cmd s) (b_children s) (b_pending s) (b_blocked s) false,
          [OStatus RUNNING])
    else (s, [])
  | AKill =>
    if b_active s
    then (* the RUNNING timer is stopped; a basic task's group is killed (no-op for hooks); handle dropped *)
      let '(s1, o1) := if hook then (s, []) else ensure_killed s in
      if b_crashed s1 then (s1, o1)
      else (mkB (b_launched s1) false false None (b_children s1) (b_pending s1) (b_blocked s1) false,
            o1 ++ [OStatus FINISHED])
    else (s, [ODisc])                                       (* "invalid task ID" *)
  | AReq r => breq b hook s r
  | AExit i =>
    match nth_error (b_children s) i with
    | Some (mkChild PRun gc) => (set_children s (upd i (mkChild (PZombie (bh_death b)) gc) (b_children s)), [])
    | _ => (s, [])
    end
  | AReap i => breap s i
  | _ => (s, [])
  end.

Fixpoint brun (b : beh) (hook : bool) (s : bst) (l : list action) : bst * list out :=
  match l with
  | [] => (s, [])
  | a :: r => let '(s1, o1) := bstep b hook s a in
              let '(s2, o2) := brun b hook s1 r in (s2, o1 ++ o2)
  end.

(* ====================================================================================== *)
(* controllable tasks                                                                      *)
(* ====================================================================================== *)
Inductive cphase := CNone | CDial | CPoll | CWait | CEnd.
(* where the Kill goroutine (or the doTermIntKill of the failed dial) sleeps *)
Inductive kpc := KNone | KDone | KInt | KKill | KFin | KBlocked.

Record cst := mkC {
  c_phase : cphase;
  c_rpc : bool;                (* t.rpc != nil *)
  c_active : bool;
  c_pending : option status;
  c_kpc : kpc;
  c_tgt : tgt;                 (* what the escalation signals: the reported pid or the group *)
  c_proc : pstate;             (* the device process *)
  c_gc : bool;                 (* its forked child is alive *)
  c_done : bool;               (* the device was walked down to DONE *)
  c_crashed : bool
}.

Definition cinit : cst := mkC CNone false false None KNone ToPid PRun false false false.

Definition ccrash (s : cst) : cst :=
  mkC (c_phase s) (c_rpc s) (c_active s) (c_pending s) (c_kpc s) (c_tgt s) (c_proc s) (c_gc s) (c_done s) true.

Definition dies_of (b : beh) (sg : sig) : bool :=
  match sg with KILL9 => true | _ => negb (bh_ign b) end.

(* effect of kill(target, sg) on the device process and on its forked child *)
Definition deliver (b : beh) (t : tgt) (sg : sig) (s : cst) : cst :=
  mkC (c_phase s) (c_rpc s) (c_active s) (c_pending s) (c_kpc s) (c_tgt s)
      (match c_proc s with PRun => if dies_of b sg then PZombie DSig else PRun | x => x end)
      (match t, sg with ToGroup, KILL9 => false | _, _ => c_gc s end)
      (c_done s) (c_crashed s).

(* pidExists: signal 0 reaches the process (a zombie counts) until Wait has reaped it *)
Definition pid_exists (s : cst) : bool :=
  match c_proc s with PReaped _ => false | _ => true end.

(* when Kill returns (KFin) it sweeps the process group with SIGKILL (repair C17-g); the
   doTermIntKill of a failed dial (c_tgt = ToGroup) signals the group all along *)
Definition set_kpc (s : cst) (k : kpc) : cst :=
  mkC (c_phase s) (c_rpc s) (match k with KFin => false | _ => c_active s end) (c_pending s) k
      (c_tgt s) (c_proc s)
      (match k, c_tgt s with KFin, ToPid => false | _, _ => c_gc s end) (c_done s) (c_crashed s).

Definition send_sig (b : beh) (sg : sig) (next : kpc) (s : cst) : cst * list out :=
  (set_kpc (deliver b (c_tgt s) sg s) next, [OSig (c_tgt s) sg]).

(* one wake-up of the escalation: after DONE_TIMEOUT / SIGTERM_TIMEOUT / SIGINT_TIMEOUT *)
Definition kill_step (b : beh) (s : cst) : cst * list out :=
  match c_kpc s with
  | KDone =>
    if pid_exists s then let '(s1, o) := send_sig b TERM KInt s in (s1, OWait et_done_ms :: o)
    else (set_kpc s KFin, [OWait et_done_ms])                    (* "task terminated on its own" *)
  | KInt =>
    if pid_exists s then let '(s1, o) := send_sig b INT KKill s in (s1, OWait et_sigterm_ms :: o)
    else (set_kpc s KFin, [OWait et_sigterm_ms])
  | KKill =>
    if pid_exists s then let '(s1, o) := send_sig b KILL9 KFin s in (s1, OWait et_sigint_ms :: o)
    else (set_kpc s KFin, [OWait et_sigint_ms])
  | _ => (s, [])
  end.

(* ControllableTask.Kill up to its first sleep *)
Definition ckill (b : beh) (s : cst) : cst * list out :=
  if negb (c_active s) then (s, [ODisc])
  else if negb (c_rpc s)     (* no client (not dialled yet, or a Kill is under way): Kill returns an error,
                                the KILL handler then drops the task from activeTasks (repair C17-f) *)
  then (mkC (c_phase s) false false (c_pending s) (c_kpc s) (c_tgt s) (c_proc s) (c_gc s) (c_done s) false, [])
  else
    let alive := match c_proc s with PRun => true | _ => false end in
    let in_wait := match c_phase s with CWait => true | _ => false end in
    let walked := alive && bh_trans_ok b && bh_walk_ok b && in_wait in
    match c_pending s with
    | Some _ => (mkC (c_phase s) false (c_active s) (c_pending s) KBlocked ToPid (c_proc s) (c_gc s) (c_done s) false, [])
    | None =>
      if walked
      then (mkC (c_phase s) false true (Some FINISHED) KDone ToPid (c_proc s) (c_gc s) true false, [])
      else
        let s1 := mkC (c_phase s) false true (Some KILLED) KNone ToPid (c_proc s) (c_gc s) (c_done s) false in
        if pid_exists s1 then send_sig b TERM KInt s1 else (set_kpc s1 KFin, [])
    end.

(* one iteration of the start-up poll.  When Kill has closed the client (t.rpc == nil) the loop
   stops polling and waits for the process Kill is terminating, like the reaper (repair C17-e) *)
Definition poll_guard (s : cst) (k : cst * list out) : cst * list out :=
  match c_phase s with
  | CPoll => if c_rpc s then k
             else (mkC CWait false (c_active s) (c_pending s) (c_kpc s) (c_tgt s) (c_proc s) (c_gc s)
                       (c_done s) false, [])
  | _ => (s, [])
  end.

Definition is_run (p : pstate) : bool := match p with PRun => true | _ => false end.

Definition cstep (b : beh) (s : cst) (a : action) : cst * list out :=
  if c_crashed s then (s, [])
  else match a with
  | ALaunch =>
    match c_phase s with
    | CNone => (mkC CDial false true None KNone ToPid PRun (bh_fork b) false false, [])
    | _ => (s, [])
    end
  | ADialOk =>
    match c_phase s with
    | CDial => (mkC CPoll true (c_active s) (c_pending s) (c_kpc s) (c_tgt s) (c_proc s) (c_gc s) (c_done s) false, [])
    | _ => (s, [])
    end
  | ADialTimeout =>
    match c_phase s with
    | CDial =>     (* TASK_FAILED, then doTermIntKill(-pid) in the launch goroutine *)
      let s1 := mkC CEnd false false (c_pending s) KNone ToGroup (c_proc s) (c_gc s) (c_done s) false in
      let '(s2, o) := send_sig b TERM KInt s1 in (s2, OStatus FAILED :: o)
    | _ => (s, [])
    end
  | APollTick => poll_guard s (s, [])
  | APollReady =>
    poll_guard s
      (if is_run (c_proc s) && negb (bh_bad_start b)
       then (mkC CWait true (c_active s) (c_pending s) (c_kpc s) (c_tgt s) (c_proc s) (c_gc s) (c_done s) false,
             [OStatus RUNNING; OPid])
       else (s, []))
  | APollBad =>
    poll_guard s
      (if is_run (c_proc s) && bh_bad_start b
       then (mkC CEnd true false (c_pending s) (c_kpc s) (c_tgt s) (PReaped DSig) false (c_done s) false,
             [OSig ToPid KILL9; OSig ToGroup KILL9; OStatus FAILED])   (* pid, then the group; waited for (repair C17-k) *)
       else (s, []))
  | APollTimeout =>
    poll_guard s      (* TASK_FAILED, client dropped, SIGKILL to the group, Wait (repair C17-m) *)
      (mkC CEnd false false (c_pending s) (c_kpc s) (c_tgt s)
           (match c_proc s with PRun => PReaped DSig | PZombie d => PReaped d | x => x end) false (c_done s) false,
       [OStatus FAILED; OSig ToGroup KILL9])
  | AExit _ =>
    match c_phase s, c_proc s with
    | CNone, _ => (s, [])
    | _, PRun => (mkC (c_phase s) (c_rpc s) (c_active s) (c_pending s) (c_kpc s) (c_tgt s)
                      (PZombie (bh_death b)) (c_gc s) (c_done s) false, [])
    | _, _ => (s, [])
    end
  | ADoneExit =>
    match c_done s, bh_exit_on_done b, c_proc s with
    | true, Some n, PRun => (mkC (c_phase s) (c_rpc s) (c_active s) (c_pending s) (c_kpc s) (c_tgt s)
                                 (PZombie (DExit n)) (c_gc s) (c_done s) false, [])
    | _, _, _ => (s, [])
    end
  | AReap _ =>
    match c_phase s, c_proc s with
    | CWait, PZombie d =>
      let final := match c_pending s with Some p => p | None => default_final d end in
      (mkC CEnd false false None (c_kpc s) (c_tgt s) (PReaped d) (c_gc s) (c_done s) false, [OStatus final])
    | _, _ => (s, [])
    end
  | AKill => ckill b s
  | AKillStep => kill_step b s
  | AReq r =>
    if negb (c_active s) then (s, [])
    else if negb (c_rpc s) then (s, [])        (* "cannot unmarshal transition: RPC is down": no answer *)
    else match r with
         | RTrigger => (s, [])
         | _ => (s, [OResp r (is_run (c_proc s) && bh_trans_ok b &&
                              match c_phase s with CWait => true | _ => false end)])
         end
  | ATimer => (s, [])
  end.

Fixpoint crun (b : beh) (s : cst) (l : list action) : cst * list out :=
  match l with
  | [] => (s, [])
  | a :: r => let '(s1, o1) := cstep b s a in
              let '(s2, o2) := crun b s1 r in (s2, o1 ++ o2)
  end.

(* ====================================================================================== *)
(* the soft-teardown loop of ControllableTask.Kill                                         *)
(* ====================================================================================== *)
(* `for reachedState != "DONE" { cmd := nextTransition(reachedState); Commit; on error, empty event
   or time-out break; reachedState = newState }`.  The device's answers are an oracle: per request
   None (transport error / no answer within KILL_TRANSITION_TIMEOUT) or Some (ok, reported state).
   doTransition (executorcmd/client.go) turns an answer into success only if it is ok AND — flag
   et_transition_checks_dst, read from the source — the reported state is the destination. *)
Inductive dstate := DRunning | DConfigured | DStandby | DError | DDone | DOther.
Definition dstate_eqb (a b : dstate) : bool :=
  match a, b with
  | DRunning, DRunning | DConfigured, DConfigured | DStandby, DStandby
  | DError, DError | DDone, DDone | DOther, DOther => true
  | _, _ => false
  end.
Definition next_dst (s : dstate) : option dstate :=
  match s with
  | DRunning => Some DConfigured          (* STOP *)
  | DConfigured => Some DStandby          (* RESET *)
  | DStandby | DError => Some DDone       (* EXIT *)
  | DDone | DOther => None                (* no event: the loop gives up *)
  end.
Definition accept_reply (dst : dstate) (r : option (bool * dstate)) : option dstate :=
  match r with
  | Some (true, st) => if et_transition_checks_dst then (if dstate_eqb st dst then Some st else None) else Some st
  | _ => None
  end.
(* returns the state the loop ends in and whether it has ended within [fuel] iterations *)
Fixpoint teardown_walk (fuel : nat) (st : dstate) (replies : nat -> option (bool * dstate)) (k : nat)
  : dstate * bool :=
  match st with
  | DDone => (st, true)
  | _ =>
    match fuel with
    | O => (st, false)
    | S f =>
      match next_dst st with
      | None => (st, true)
      | Some dst =>
        match accept_reply dst (replies k) with
        | None => (st, true)
        | Some st' => teardown_walk f st' replies (S k)
        end
      end
    end
  end.

(* ====================================================================================== *)
(* the property on a trace                                                                 *)
(* ====================================================================================== *)
Fixpoint statuses (t : list out) : list status :=
  match t with
  | [] => []
  | OStatus s :: r => s :: statuses r
  | _ :: r => statuses r
  end.

(* at most one terminal status and nothing after it *)
Fixpoint status_ok (l : list status) : bool :=
  match l with
  | [] => true
  | s :: r => if terminal s then match r with [] => true | _ => false end else status_ok r
  end.

Definition count_terminal (l : list status) : nat := length (filter terminal l).

Fixpoint has_crash (t : list out) : bool :=
  match t with [] => false | OCrash :: _ => true | _ :: r => has_crash r end.

Fixpoint sigs (t : list out) : list sig :=
  match t with [] => [] | OSig _ s :: r => s :: sigs r | _ :: r => sigs r end.

Fixpoint waited (t : list out) : N :=
  match t with [] => 0 | OWait n :: r => n + waited r | _ :: r => waited r end.

(* ====================================================================================== *)
(* harness schedules: what the correspondence harness can realise                          *)
(* ====================================================================================== *)
Inductive kind := KBasic | KHook | KCtl.

Inductive hact :=
| HLaunch | HTimer | HReq (r : req) | HExit | HKill | HSettle | HListen | HReady
| HStarve.      (* the task never becomes ready: the dial resp. the start-up poll times out *)

(* eager reaping: every zombie is reaped (in index order) *)
Fixpoint reap_all (s : bst) (n : nat) (i : nat) : bst * list out :=
  match n with
  | O => (s, [])
  | S m => let '(s1, o1) := breap s i in
           let '(s2, o2) := reap_all s1 m (S i) in (s2, o1 ++ o2)
  end.
Definition bsettle (s : bst) : bst * list out :=
  if b_crashed s then (s, []) else reap_all s (length (b_children s)) 0.

Fixpoint exit_all (b : beh) (hook : bool) (s : bst) (n : nat) (i : nat) : bst :=
  match n with
  | O => s
  | S m => exit_all b hook (fst (bstep b hook s (AExit i))) m (S i)
  end.

Definition bhstep (b : beh) (hook : bool) (s : bst) (h : hact) : bst * list out :=
  let '(s1, o1) :=
    match h with
    | HLaunch => bstep b hook s ALaunch
    | HTimer => bstep b hook s ATimer
    | HReq r => bstep b hook s (AReq r)
    | HKill => bstep b hook s AKill
    | HExit => (exit_all b hook s (length (b_children s)) 0, [])
    | _ => (s, [])
    end in
  let '(s2, o2) := bsettle s1 in (s2, o1 ++ o2).

(* eager internal steps of a controllable task, in the order their real delays impose:
   the poll loop (500 ms), the device leaving on DONE (at once), the reaper (at once),
   the next wake-up of the escalation (seconds) *)
Definition csettle1 (b : beh) (s : cst) : option (cst * list out) :=
  if c_crashed s then None
  else match c_phase s, c_rpc s with
  | CPoll, false => Some (cstep b s APollTick)
  | _, _ =>
    match c_done s, bh_exit_on_done b, c_proc s with
    | true, Some _, PRun => Some (cstep b s ADoneExit)
    | _, _, _ =>
      match c_phase s, c_proc s with
      | CWait, PZombie _ => Some (cstep b s (AReap 0))
      | _, _ =>
        match c_kpc s with
        | KDone | KInt | KKill => Some (cstep b s AKillStep)
        | _ => None
        end
      end
    end
  end.

Fixpoint csettle (b : beh) (fuel : nat) (s : cst) : cst * list out :=
  match fuel with
  | O => (s, [])
  | S f => match csettle1 b s with
           | None => (s, [])
           | Some (s1, o1) => let '(s2, o2) := csettle b f s1 in (s2, o1 ++ o2)
           end
  end.

(* the internal steps that follow within milliseconds: the device leaving on DONE, the reaper *)
Definition cquick1 (b : beh) (s : cst) : option (cst * list out) :=
  if c_crashed s then None
  else match c_done s, bh_exit_on_done b, c_proc s with
  | true, Some _, PRun => Some (cstep b s ADoneExit)
  | _, _, _ =>
    match c_phase s, c_proc s with
    | CWait, PZombie _ => Some (cstep b s (AReap 0))
    | _, _ => None
    end
  end.
Fixpoint cquick (b : beh) (fuel : nat) (s : cst) : cst * list out :=
  match fuel with
  | O => (s, [])
  | S f => match cquick1 b s with
           | None => (s, [])
           | Some (s1, o1) => let '(s2, o2) := cquick b f s1 in (s2, o1 ++ o2)
           end
  end.

Definition chstep (b : beh) (s : cst) (h : hact) : cst * list out :=
  let '(s1, o1) :=
    match h with
    | HLaunch => cstep b s ALaunch
    | HTimer => (s, [])
    | HReq r => cstep b s (AReq r)
    | HKill => cstep b s AKill
    | HExit => cstep b s (AExit 0)
    | HListen => let '(s1, o1) := cstep b s ADialOk in
                 let '(s2, o2) := cstep b s1 APollTick in (s2, o1 ++ o2)
    | HReady => if bh_bad_start b then cstep b s APollBad else cstep b s APollReady
    | HSettle => csettle b 12 s
    | HStarve =>
      match c_phase s with
      | CDial => let '(s1, o1) := cstep b s ADialTimeout in      (* then its escalation runs to the end *)
                 let '(s2, o2) := csettle b 12 s1 in (s2, o1 ++ o2)
      | CPoll => cstep b s APollTimeout
      | _ => (s, [])
      end
    end in
  let '(s2, o2) := cquick b 4 s1 in (s2, o1 ++ o2).

(* ---------- what a run of a harness schedule lets the harness see ---------- *)
Record mobs := mkMobs {
  mo_statuses : list status;
  mo_before_kill : N;                        (* number of statuses seen when the first KILL is sent
                                                (all of them when there is no KILL) *)
  mo_events : list (bool * Z * status);
  mo_resps : list (req * option bool);       (* per request, in order: None = never answered *)
  mo_pids : N;
  mo_sigs : list sig;                        (* TERM / INT received by the main child *)
  mo_disc : N;
  mo_crashed : bool;
  mo_main_alive : bool;
  mo_gc_alive : bool
}.

Fixpoint events_of (t : list out) : list (bool * Z * status) :=
  match t with [] => [] | OEvent v e f :: r => (v, e, f) :: events_of r | _ :: r => events_of r end.
Fixpoint count_pid (t : list out) : N :=
  match t with [] => 0 | OPid :: r => 1 + count_pid r | _ :: r => count_pid r end.
Fixpoint count_disc (t : list out) : N :=
  match t with [] => 0 | ODisc :: r => 1 + count_disc r | _ :: r => count_disc r end.
Fixpoint soft_sigs (t : list out) : list sig :=
  match t with
  | [] => []
  | OSig _ TERM :: r => TERM :: soft_sigs r
  | OSig _ INT :: r => INT :: soft_sigs r
  | _ :: r => soft_sigs r
  end.
(* per step: (outputs of the step, the request it carried) *)
Fixpoint bhrun (b : beh) (hook : bool) (s : bst) (l : list hact) : bst * list (hact * list out * bool) :=
  match l with
  | [] => (s, [])
  | h :: r => let '(s1, o1) := bhstep b hook s h in
              let '(s2, t) := bhrun b hook s1 r in
              (s2, (h, o1, Nat.ltb (b_blocked s) (b_blocked s1)) :: t)
  end.
Fixpoint chrun (b : beh) (s : cst) (l : list hact) : cst * list (hact * list out * bool) :=
  match l with
  | [] => (s, [])
  | h :: r => let '(s1, o1) := chstep b s h in
              let '(s2, t) := chrun b s1 r in (s2, (h, o1, false) :: t)
  end.

Definition flat (t : list (hact * list out * bool)) : list out := flat_map (fun x => snd (fst x)) t.

Fixpoint before_kill (t : list (hact * list out * bool)) : N :=
  match t with
  | [] => 0
  | (HKill, _, _) :: _ => 0
  | (_, o, _) :: r => Nlen (statuses o) + before_kill r
  end.

(* answers per request, in order of issue.  A request is answered in its own step (the first
   OResp of the step) unless its handler blocked; a blocked STOP handler that a later reaper lets
   through answers in that later step: such late answers (every further OResp RStop) go to the
   blocked requests in the order they blocked (the channel's send queue is FIFO). *)
Inductive rstate := RAnswered (ok : bool) | RDropped | RBlocked.

Definition req_eqb (a b : req) : bool :=
  match a, b with
  | RConf, RConf | RStart, RStart | RStop, RStop | RReset, RReset | RTrigger, RTrigger => true
  | _, _ => false
  end.

Fixpoint first_resp (t : list out) : option bool * list out :=
  match t with
  | [] => (None, [])
  | OResp _ ok :: r => (Some ok, r)
  | x :: r => let '(a, r') := first_resp r in (a, x :: r')
  end.
Fixpoint late_resps (t : list out) : list bool :=
  match t with [] => [] | OResp _ ok :: r => ok :: late_resps r | _ :: r => late_resps r end.
Fixpoint fill_blocked (acc : list (req * rstate)) (ok : bool) : list (req * rstate) :=
  match acc with
  | [] => []
  | (r, RBlocked) :: t => (r, RAnswered ok) :: t
  | x :: t => x :: fill_blocked t ok
  end.

(* one step: h, its outputs, whether the number of blocked handlers grew in it *)
Definition assign_step (acc : list (req * rstate)) (st : hact * list out * bool) : list (req * rstate) :=
  let '(h, o, grew) := st in
  match h with
  | HReq r =>
    let '(own, rest) := first_resp o in
    let acc1 := fold_left fill_blocked (late_resps rest) acc in
    acc1 ++ [(r, match own with
                 | Some ok => if grew then RBlocked else RAnswered ok
                 | None => if grew then RBlocked else RDropped
                 end)]
  | _ => fold_left fill_blocked (late_resps o) acc
  end.
Definition resp_view (x : req * rstate) : req * option bool :=
  (fst x, match snd x with RAnswered ok => Some ok | _ => None end).
Definition assign_resps (t : list (hact * list out * bool)) : list (req * option bool) :=
  map resp_view (fold_left assign_step t []).

Definition model_obs (k : kind) (b : beh) (l : list hact) : mobs :=
  match k with
  | KCtl =>
    let '(s, t) := chrun b cinit l in
    let o := flat t in
    mkMobs (statuses o) (before_kill t) (events_of o) (assign_resps t)
           (count_pid o) (soft_sigs o) (count_disc o) (c_crashed s)
           (is_run (c_proc s)) (c_gc s)
  | _ =>
    let hook := match k with KHook => true | _ => false end in
    let '(s, t) := bhrun b hook binit l in
    let o := flat t in
    mkMobs (statuses o) (before_kill t) (events_of o) (assign_resps t)
           (count_pid o) [] (count_disc o) (b_crashed s)
           (existsb (fun c => is_run (ch_st c)) (b_children s))
           (existsb ch_gc (b_children s))
  end.

(* ====================================================================================== *)
(* cases written by the harness                                                            *)
(* ====================================================================================== *)
(* what the implementation did: same shape as [mobs]; o_resps carries, per request in order of
   issue, whether it was answered and whether the answer reported success *)
Record c17_case := mkCase {
  k_kind : kind;
  k_beh : beh;
  k_sched : list hact;
  k_obs : mobs;
  k_kill_ms : option N            (* KILL request -> whole process group gone, milliseconds *)
}.

Definition sig_eqb (a b : sig) : bool :=
  match a, b with TERM, TERM | INT, INT | KILL9, KILL9 => true | _, _ => false end.
Definition ev_eqb (a b : bool * Z * status) : bool :=
  Bool.eqb (fst (fst a)) (fst (fst b)) && Z.eqb (snd (fst a)) (snd (fst b)) && status_eqb (snd a) (snd b).
Definition resp_eqb (a b : req * option bool) : bool :=
  req_eqb (fst a) (fst b) && option_eqb Bool.eqb (snd a) (snd b).

Fixpoint resps_eqb (flags : list bool) (a b : list (req * option bool)) : bool :=
  match a, b with
  | [], [] => true
  | x :: a', y :: b' =>
    let f := match flags with f :: _ => f | [] => false end in
    (if f then req_eqb (fst x) (fst y) &&
               match snd x, snd y with Some _, Some _ => true | None, None => true | _, _ => false end
     else resp_eqb x y) && resps_eqb (tl flags) a' b'
  | _, _ => false
  end.

(* the executor died: the device event of the very step that crashed is sent by the reaper
   goroutine while the released handler goroutine panics, so it may or may not get out *)
Fixpoint events_upto_crash (m o : list (bool * Z * status)) : bool :=
  match m, o with
  | [], [] => true
  | [_], [] => true
  | x :: m', y :: o' => ev_eqb x y && events_upto_crash m' o'
  | _, _ => false
  end.

Definition obs_eqb (flags : list bool) (m o : mobs) : bool :=
  list_eqb status_eqb (mo_statuses m) (mo_statuses o) &&
  N.eqb (mo_before_kill m) (mo_before_kill o) &&
  (if mo_crashed m then events_upto_crash (mo_events m) (mo_events o)
   else list_eqb ev_eqb (mo_events m) (mo_events o)) &&
  resps_eqb flags (mo_resps m) (mo_resps o) &&
  N.eqb (mo_pids m) (mo_pids o) &&
  list_eqb sig_eqb (mo_sigs m) (mo_sigs o) &&
  N.eqb (mo_disc m) (mo_disc o) &&
  Bool.eqb (mo_crashed m) (mo_crashed o) &&
  (mo_crashed m ||      (* after a crash the children die with the executor (PDEATHSIG): not compared *)
   (Bool.eqb (mo_main_alive m) (mo_main_alive o) && Bool.eqb (mo_gc_alive m) (mo_gc_alive o))).

Definition corr17 (c : c17_case) : bool :=
  obs_eqb [] (model_obs (k_kind c) (k_beh c) (k_sched c)) (k_obs c).

(* ---------- the property evaluated on what the implementation did ---------- *)
Fixpoint before_first (f : hact -> bool) (g : hact -> bool) (l : list hact) : bool :=
  (* an f-step occurs before the first g-step (or there is no g-step) *)
  match l with
  | [] => false
  | h :: r => if g h then false else if f h then true else before_first f g r
  end.
Definition is_kill (h : hact) := match h with HKill => true | _ => false end.
Definition is_timer (h : hact) := match h with HTimer => true | _ => false end.
Definition is_ready (h : hact) := match h with HReady => true | _ => false end.
Definition is_listen (h : hact) := match h with HListen => true | _ => false end.
Definition is_exit (h : hact) := match h with HExit => true | _ => false end.
Definition is_settle (h : hact) := match h with HSettle => true | _ => false end.
Definition is_stop (h : hact) := match h with HReq RStop => true | _ => false end.
Definition is_starter (h : hact) :=
  match h with HReq RStart => true | HReq RTrigger => true | _ => false end.

Fixpoint count_kills_before_settle (l : list hact) : nat :=
  (* KILL requests issued back to back after the first one, before the escalation was left to finish *)
  match l with
  | [] => O
  | HKill :: r => S (count_kills_before_settle r)
  | HSettle :: _ => O
  | _ :: r => count_kills_before_settle r
  end.
Fixpoint from_first_kill (l : list hact) : list hact :=
  match l with [] => [] | HKill :: r => HKill :: r | _ :: r => from_first_kill r end.

Fixpoint drop {A} (n : nat) (l : list A) : list A :=
  match n, l with O, _ => l | S m, [] => [] | S m, _ :: r => drop m r end.

(* last request that decides about the current child: a STOP answered ok with no START after it *)
Fixpoint last_is_stop (l : list hact) (acc : bool) : bool :=
  match l with
  | [] => acc
  | HReq RStop :: r => last_is_stop r true
  | HReq RStart :: r => last_is_stop r false
  | HKill :: r => last_is_stop r false
  | _ :: r => last_is_stop r acc
  end.
Fixpoint starts (l : list hact) : nat :=
  match l with [] => O | HReq RStart :: r => S (starts r) | _ :: r => starts r end.

(* every request issued while the task was launched and not yet killed *)
Fixpoint unanswered_active (hook : bool) (l : list hact) (resps : list (req * option bool))
         (launched killed : bool) : bool :=
  match l with
  | [] => false
  | HLaunch :: r => unanswered_active hook r resps true killed
  | HKill :: r => unanswered_active hook r resps launched true
  | HReq q :: r =>
    match resps with
    | [] => false
    | (_, a) :: rs =>
      (launched && negb killed && match a with None => true | Some _ => false end &&
       (hook || negb (req_eqb q RTrigger)))     (* a trigger sent to a non-hook task is dropped by design *)
      || unanswered_active hook r rs launched killed
    end
  | _ :: r => unanswered_active hook r resps launched killed
  end.

(* did a STOP, before any KILL, post a final state that nobody will consume?  That is the case when
   the child it refers to had already been reaped after a death by signal: its own ([sigdeath]) or
   the SIGKILL of an earlier STOP.  (Classification of the input, used to keep the class of the
   recorded finding narrow.) *)
Inductive curst := CuNone | CuRun | CuExit | CuSig.
Fixpoint stale_posted (sigdeath : bool) (cur : curst) (l : list hact) : bool :=
  match l with
  | [] => false
  | HReq RStart :: r => stale_posted sigdeath CuRun r
  | HExit :: r =>
    stale_posted sigdeath (match cur with CuRun => if sigdeath then CuSig else CuExit | x => x end) r
  | HReq RStop :: r =>
    match cur with
    | CuRun => stale_posted sigdeath CuSig r
    | CuSig => true
    | _ => stale_posted sigdeath cur r
    end
  | HKill :: _ => false
  | _ :: r => stale_posted sigdeath cur r
  end.

(* a START while the child of the previous START has neither been stopped nor left: the command
   handle is overwritten and the earlier child is out of the executor's reach (protocol misuse) *)
Fixpoint double_start (cur : bool) (l : list hact) : bool :=
  match l with
  | [] => false
  | HReq RStart :: r => if cur then true else double_start true r
  | HReq RStop :: r => double_start false r
  | HExit :: r => double_start false r
  | HKill :: _ => false
  | _ :: r => double_start cur r
  end.

(* 0 = the property holds on this observation; codes documented in props.d/C17.json *)
Definition mon17 (c : c17_case) : N :=
  let o := k_obs c in
  let l := k_sched c in
  let sts := mo_statuses o in
  let ctl := match k_kind c with KCtl => true | _ => false end in
  let basic := match k_kind c with KBasic => true | _ => false end in
  let killed := existsb is_kill l in
  let stale := stale_posted (match bh_death (k_beh c) with DSig => true | _ => false end) CuNone l in
  if mo_crashed o then
    if ctl && killed && negb (before_first is_ready is_kill l) then
      if before_first is_listen is_kill l then 5                             (* KILL during the start-up poll *)
      else 19                                                                (* KILL before the dial returned *)
    else if ctl && Nat.leb 2 (count_kills_before_settle (from_first_kill l)) then 6   (* second KILL during the first *)
    else if basic && killed && stale then 17   (* a blocked STOP handler released after KILL dropped the handle *)
    else 10
  else if Nat.ltb 1 (count_terminal sts) then 1
  else if negb (status_ok sts) then
    if negb ctl && before_first is_kill is_timer l then 2                    (* killed before the RUNNING timer *)
    else 12
  else if killed &&
          (let n := N.to_nat (mo_before_kill o) in
           negb (existsb terminal (firstn n sts)) && existsb (status_eqb FAILED) (drop n sts)) then 3
  else if negb ctl && unanswered_active (negb basic) l (mo_resps o) false false then
    if basic && stale then 11
    else 14
  else if negb ctl && killed && (mo_main_alive o || mo_gc_alive o) then
    if basic then (if double_start false l then 22 else 4) else 18           (* KILL left the child running *)
  else if ctl && killed && negb (before_first is_listen is_kill l) && mo_main_alive o then 20   (* KILL before the dial: refused *)
  else if ctl && killed && existsb is_settle (from_first_kill l) && mo_main_alive o &&
          existsb (status_eqb FAILED) (firstn (N.to_nat (mo_before_kill o)) sts) &&
          negb (existsb (status_eqb RUNNING) (firstn (N.to_nat (mo_before_kill o)) sts)) then 23   (* failed at start-up, left running *)
  else if ctl && killed && existsb is_settle (from_first_kill l) && mo_main_alive o then 8
  else if ctl && killed && existsb is_settle (from_first_kill l) && mo_gc_alive o &&
          negb (existsb terminal (firstn (N.to_nat (mo_before_kill o)) sts)) then 7
  (* the task had already failed at start-up when KILL came: left over by Launch, not by Kill.  (A
     task that was up and left by itself before the KILL is not a kill / stop path: not judged.) *)
  else if ctl && killed && existsb is_settle (from_first_kill l) && mo_gc_alive o &&
          negb (existsb (status_eqb RUNNING) (firstn (N.to_nat (mo_before_kill o)) sts)) then 21
  else if basic && negb killed && last_is_stop l false && Nat.leb (starts l) 1 &&
          (mo_main_alive o || mo_gc_alive o) then
    if negb (mo_main_alive o) && existsb is_exit l then 13                  (* main had left, its child stays *)
    else 9
  else if ctl && match k_kill_ms c with
                 | Some ms => et_done_ms + et_sigterm_ms + et_sigint_ms + 2500 <? ms
                 | None => false
                 end then 15
  else if negb (list_eqb sig_eqb (mo_sigs o) [] || list_eqb sig_eqb (mo_sigs o) [TERM] ||
                list_eqb sig_eqb (mo_sigs o) [TERM; INT]) then 16
  else 0.

(* branch tag: kind, and what the model says happens *)
Definition tag17 (c : c17_case) : N :=
  let m := model_obs (k_kind c) (k_beh c) (k_sched c) in
  (match k_kind c with KBasic => 100 | KHook => 200 | KCtl => 300 end) +
  (if mo_crashed m then 32 else 0) +
  (if existsb (fun x => match snd x with None => true | _ => false end) (mo_resps m) then 16 else 0) +
  (if mo_main_alive m || mo_gc_alive m then 8 else 0) +
  (if existsb terminal (mo_statuses m) then 4 else 0) +
  (match mo_events m with [] => 0 | _ => 2 end) +
  (match mo_sigs m with [] => 0 | _ => 1 end).

Definition report17 := report corr17 mon17 tag17.
