(* Teardown.v — environments over the roster of Ownership.v:
     core/environment/manager.go : CreateEnvironment (detector snapshot at entry, pre-deployment Cleanup,
                                   template load, detector check, insertion, DEPLOY, CONFIGURE, failure tail),
                                   TeardownEnvironment (release of the non-hook tasks, DESTROY / after_DESTROY
                                   hooks by weight, release message overwritten per weight, cancellation of the
                                   calls pending await, second release, DONE, removal from the map)
     core/server.go              : ControlEnvironment (GO_ERROR fallback), DestroyEnvironment (STOP / RESET first,
                                   forced retry), doTeardownAndCleanup, CleanupTasks / doCleanupTasks
   One atomic step per API request, except creation, which is the two steps [OSnap] (entry: snapshot of the
   active detectors + pre-deployment cleanup) and [OFinish] (everything after the workflow template was
   loaded), so that histories can interleave other requests between them.  [OCreate] is the two run
   back to back (a creation that nothing overlaps).
   Behaviour outside the modelled code enters as oracle fields of the operations: how each launched task
   reports in ([r_launch]), which tasks refuse CONFIGURE ([r_cfgerr]), whether the first critical task
   refuses a transition ([fail] / [tfail]), which stage of the creation fails ([c_fail]).
   Definitions only; shared by C04 and C06 (one case type, two monitors). *)
From Verif Require Import Common Ownership Gen_TdOrder Gen_AcqRoster.
Open Scope N_scope.

(* ---------- environment states ---------- *)
Definition ES_STANDBY : N := 0.
Definition ES_DEPLOYED : N := 1.
Definition ES_CONFIGURED : N := 2.
Definition ES_RUNNING : N := 3.
Definition ES_ERROR : N := 4.
Definition ES_DONE : N := 5.

(* ---------- workflow roles ---------- *)
Inductive rkind :=
| RPlain                               (* task role without trigger *)
| RHookTask (after : bool) (w : Z)     (* task role with trigger DESTROY+w / after_DESTROY+w *)
| RHookCall (after : bool) (w : Z)     (* call role with trigger DESTROY+w / after_DESTROY+w *)
| RPend                                (* call role started at before_CONFIGURE, awaited at a moment that never comes *)
| RLeave (st : N)                      (* call role started at leave_<environment state st>, awaited at a moment that never comes *)
| RNone.                               (* a task role whose task was not launched but claimed (see [finish]) *)

Record role := mkRole {
  r_kind : rkind;
  r_crit : bool;
  r_launch : N;      (* oracle: 0 reports TASK_RUNNING, 1 TASK_FAILED after launch, 2 stays staging *)
  r_cfgerr : bool;   (* oracle: answers CONFIGURE with an error *)
  r_ch : N           (* plain task role: task class + host as one code; 0 = a class no other role loads *)
}.

Definition is_task_role (r : role) : bool :=
  match r_kind r with RPlain | RHookTask _ _ => true | _ => false end.
Definition is_hook_task (r : role) : bool :=
  match r_kind r with RHookTask _ _ => true | _ => false end.
Definition is_hook_call (r : role) : bool :=
  match r_kind r with RHookCall _ _ => true | _ => false end.
Definition is_pend (r : role) : bool :=
  match r_kind r with RPend => true | _ => false end.

(* the task launched for role number [i] of environment [e] *)
Definition tid_of (e i : N) : tid := (e, i).

Fixpoint index_from {A} (i : N) (l : list A) : list (N * A) :=
  match l with
  | [] => []
  | x :: r => (i, x) :: index_from (N.succ i) r
  end.
Definition iroles (rs : list role) : list (N * role) := index_from 0 rs.

Record env := mkEnv {
  e_id : N;
  e_dets : list N;
  e_state : N;
  e_roles : list role;
  e_bound : bool;     (* acquireTasks succeeded: every task role points to its task *)
  e_pend : N          (* calls started and neither awaited nor cancelled *)
}.

Definition set_estate (s : N) (x : env) : env :=
  mkEnv (e_id x) (e_dets x) s (e_roles x) (e_bound x) (e_pend x).
Definition set_bound (x : env) : env :=
  mkEnv (e_id x) (e_dets x) (e_state x) (e_roles x) true (e_pend x).
Definition set_pend (p : N) (x : env) : env :=
  mkEnv (e_id x) (e_dets x) (e_state x) (e_roles x) (e_bound x) p.

Record st := mkSt {
  s_envs : list env;                 (* environment.Manager.m *)
  s_roster : roster;                 (* task.Manager.roster *)
  s_snaps : list (N * list N)        (* creations in flight: the detector snapshot each one took *)
}.
Definition st0 : st := mkSt [] [] [].

Definition find_env (e : N) (l : list env) : option env :=
  find (fun x => N.eqb (e_id x) e) l.
Definition remove_env (e : N) (l : list env) : list env :=
  filter (fun x => negb (N.eqb (e_id x) e)) l.
Definition upd_env (e : N) (f : env -> env) (l : list env) : list env :=
  map (fun x => if N.eqb (e_id x) e then f x else x) l.
Definition remove_snap (e : N) (l : list (N * list N)) : list (N * list N) :=
  filter (fun p => negb (N.eqb (fst p) e)) l.

Definition active_dets (l : list env) : list N := flat_map e_dets l.

Definition task_iroles (x : env) : list (N * role) :=
  filter (fun ir => is_task_role (snd ir)) (iroles (e_roles x)).

(* env.Workflow().GetTasks(): the tasks the task roles point to *)
Definition bound_tids (x : env) : list tid :=
  if e_bound x then map (fun ir => tid_of (e_id x) (fst ir)) (task_iroles x) else [].

Definition pend_roles (x : env) : N := Nlen (filter is_pend (e_roles x)).

(* calls started by the leave_<st> hooks: they run on every event that leaves state st (also one that
   then fails, also GO_ERROR) and in TeardownEnvironment for the state the environment is in *)
Definition leave_cnt (x : env) (st : N) : N :=
  Nlen (filter (fun r => match r_kind r with RLeave s => N.eqb s st | _ => false end) (e_roles x)).
Definition add_pend (n : N) (x : env) : env := set_pend (e_pend x + n) x.
Definition leave_upd (st : N) (x : env) : env := add_pend (leave_cnt x st) x.

(* the order of the steps of TeardownEnvironment, from gen/Gen_TdOrder.v (regenerated from the source):
   [before a b] = step a stands before step b *)
Fixpoint step_idx (a : N) (l : list N) : nat :=
  match l with [] => 0 | y :: r => if N.eqb y a then 0 else S (step_idx a r) end.
Definition before (a b : N) : bool := Nat.ltb (step_idx a td_steps) (step_idx b td_steps).

(* ---------- DESTROY / after_DESTROY hooks ---------- *)
Definition hook_weight (after : bool) (r : role) : option Z :=
  match r_kind r with
  | RHookTask a w => if Bool.eqb a after then Some w else None
  | RHookCall a w => if Bool.eqb a after then Some w else None
  | _ => None
  end.

(* GetHooksMapForTrigger(trigger)[w]: task roles contribute only once they have a task *)
Definition hooks_at (x : env) (after : bool) (w : Z) : list (N * role) :=
  filter (fun ir => match hook_weight after (snd ir) with
                    | Some w' => Z.eqb w w' && (is_hook_call (snd ir) || e_bound x)
                    | None => false
                    end) (iroles (e_roles x)).

Fixpoint insZ (x : Z) (l : list Z) : list Z :=   (* sorted insertion without duplicates *)
  match l with
  | [] => [x]
  | y :: r => if Z.eqb x y then l else if Z.ltb x y then x :: l else y :: insZ x r
  end.

Definition all_weights (x : env) : list Z :=
  fold_right insZ []
    (flat_map (fun ir => match r_kind (snd ir) with
                         | RHookTask _ w => if e_bound x then [w] else []
                         | RHookCall _ w => [w]
                         | _ => []
                         end) (iroles (e_roles x))).

(* hooksMapForDestroy: the DESTROY map with the after_DESTROY hooks merged in per weight, as the source
   does it (gen/Gen_TdOrder.v, td_after_extends): appended after the DESTROY hooks of that weight, or —
   the older code, `m[k] = v` — replacing them *)
Definition merged_at (x : env) (w : Z) : list (N * role) :=
  if td_after_extends then hooks_at x false w ++ hooks_at x true w
  else match hooks_at x true w with
       | [] => hooks_at x false w
       | a => a
       end.
Definition merged (x : env) : list (list (N * role)) := map (merged_at x) (all_weights x).

Definition group_calls (e : N) (g : list (N * role)) : list tid :=
  map (fun ir => tid_of e (fst ir)) (filter (fun ir => is_hook_call (snd ir)) g).
Definition group_tasks (e : N) (g : list (N * role)) : list tid :=
  map (fun ir => tid_of e (fst ir)) (filter (fun ir => is_hook_task (snd ir)) g).

Definition active_in (r : roster) (id : tid) : bool :=
  match find_task id r with Some t => t_active t | None => false end.

(* ---------- TeardownEnvironment ---------- *)
Record tdres := mkTd {
  td_st : st;
  td_ok : bool;
  td_calls : list tid;         (* DESTROY call hooks invoked, in order *)
  td_trigs : list tid;         (* DESTROY hook tasks triggered, in order *)
  td_hookr : option roster;    (* the roster at the moment the DESTROY hooks ran, if they did *)
  td_left : N                  (* calls of the environment still pending and not cancelled at the end *)
}.

Definition teardown (force : bool) (e : N) (s : st) : tdres :=
  match find_env e (s_envs s) with
  | None => mkTd s false [] [] None 0
  | Some x =>
      if N.eqb (e_state x) ES_DONE then mkTd s false [] [] None 0
      else if negb force && negb (N.eqb (e_state x) ES_STANDBY || N.eqb (e_state x) ES_DEPLOYED)
      then mkTd s false [] [] None 0
      else
        (* leave_<state> hooks (step 1) start calls; cancelCallsPendingAwait (step 4) sweeps what is
           pending at that moment: whatever is started after the sweep stays *)
        let started := leave_cnt x (e_state x) in
        let left := if before 4 1 then started else 0 in
        let groups := merged x in
        let hooktids := flat_map (group_tasks e) groups in
        let torelease := filter (fun id => negb (mem_tid id hooktids)) (bound_tids x) in
        let '(r1, n1) := release e torelease (s_roster s) in
        if negb (N.eqb n1 0)
        then mkTd (mkSt (upd_env e (add_pend started) (s_envs s)) r1 (s_snaps s)) false [] [] None (e_pend x + started)
        else
          let calls := flat_map (group_calls e) groups in
          (* task hooks of each weight, only those whose role is still ACTIVE *)
          let trig_groups := map (fun g => filter (active_in r1) (group_tasks e g)) groups in
          let trigs := concat trig_groups in
          (* the second release names the DESTROY hook tasks of every weight, ACTIVE or not *)
          let lastmsg := hooktids in
          let envs1 := upd_env e (set_pend left) (s_envs s) in       (* cancelCallsPendingAwait *)
          let '(r2, n2) := release e lastmsg r1 in
          if negb (N.eqb n2 0) then mkTd (mkSt envs1 r2 (s_snaps s)) false calls trigs (Some r1) left
          else mkTd (mkSt (remove_env e (s_envs s)) r2 (s_snaps s)) true calls trigs (Some r1) left
  end.

(* ---------- outputs of one step ---------- *)
Record out := mkOut {
  o_rc : N;              (* 0 = the request returned success, 1 = it returned an error *)
  o_kills : list tid;    (* KILL calls *)
  o_cmds : list tid;     (* targets of transition commands *)
  o_calls : list tid;
  o_trigs : list tid;
  o_pend : N;            (* destroy only: live pending calls left in the environment object *)
  o_launch : list tid    (* tasks launched (ACCEPT) *)
}.
Definition out_rc (rc : N) : out := mkOut rc [] [] [] [] 0 [].

(* ---------- transitions driven by the API ---------- *)
Definition ev_src_dst (ev : N) : option (N * N * N) :=   (* environment src, dst; task dst *)
  if N.eqb ev 1 then Some (ES_DEPLOYED, ES_CONFIGURED, TS_CONFIGURED)        (* CONFIGURE *)
  else if N.eqb ev 2 then Some (ES_CONFIGURED, ES_RUNNING, TS_RUNNING)       (* START_ACTIVITY *)
  else if N.eqb ev 3 then Some (ES_RUNNING, ES_CONFIGURED, TS_CONFIGURED)    (* STOP_ACTIVITY *)
  else if N.eqb ev 4 then Some (ES_CONFIGURED, ES_DEPLOYED, TS_STANDBY)      (* RESET *)
  else None.

(* the task that refuses when the oracle says the transition fails: the first critical plain
   task of the environment that is still active *)
Definition fail_target (x : env) (r : roster) : option tid :=
  match filter (fun ir => match r_kind (snd ir) with RPlain => r_crit (snd ir) | _ => false end &&
                          active_in r (tid_of (e_id x) (fst ir)))
               (iroles (e_roles x)) with
  | [] => None
  | ir :: _ => Some (tid_of (e_id x) (fst ir))
  end.

(* workflow.GetActiveTasks + transitionTasks: result roster, targets, success *)
Definition transition (x : env) (dst : N) (fail : bool) (r : roster) : roster * list tid * bool :=
  let e := e_id x in
  let targets := active_owned_in e (bound_tids x) r in
  let refuse := if fail then fail_target x r else None in
  (command e targets (match refuse with Some t => [t] | None => [] end) dst r, targets,
   match refuse with None => true | Some _ => false end).

Definition with_roster (s : st) (r : roster) : st := mkSt (s_envs s) r (s_snaps s).
Definition with_envs (s : st) (l : list env) : st := mkSt l (s_roster s) (s_snaps s).

(* ---------- creation ---------- *)
Record cspec := mkSpec {
  c_dets : list N;     (* detectors of the FLP hosts of the workflow *)
  c_fail : N;          (* 0 none, 1 template file missing, 2 template error, 3 host without detector,
                          4 a critical role no agent can take, 5 the DEPLOY transition gave up on its timeout
                          although every task reported in (its status notification was lost: the
                          non-blocking fan-out of workflow status changes drops what nobody is waiting for),
                          6 partial deployment failure: a critical role is offered its host but fails a further
                          constraint; every other task role is launched, in each of the three deployment
                          attempts of acquireTasks *)
  c_roles : list role;
  c_refuse : list N;   (* oracle: numbers of the roles for whose task the master refuses KILL calls *)
  c_reuse : bool       (* the option reuseUnlockedTasks at the time of the creation *)
}.

Definition launch_task (e : N) (rf : list N) (ir : N * role) : task :=
  mkTask (tid_of e (fst ir)) (Some e) (N.eqb (r_launch (snd ir)) 0)
         (if N.eqb (r_launch (snd ir)) 1 then TS_ERROR else TS_STANDBY) true
         (if memN (fst ir) rf then 1 else 0) (r_ch (snd ir)).

(* the tasks launched by deployment attempt [a] (0, 1, 2) of a deployment that acquireTasks retries:
   attempt a of role i is task i + a * (number of roles); they never get a parent *)
Definition att_id (e : N) (n a : N) (ir : N * role) : tid := tid_of e (fst ir + a * n).
Definition att_task (e : N) (n a : N) (ir : N * role) : task :=
  mkTask (att_id e n a ir) None (N.eqb (r_launch (snd ir)) 0) TS_STANDBY true 0 (r_ch (snd ir)).

(* the attempts whose tasks acquireTasks writes to the roster *)
Definition roster_attempts : list N :=
  (if acq_roster_retry then [0; 1] else []) ++ (if acq_roster_unconditional then [2] else []).

(* entry of CreateEnvironment *)
Definition snap (e : N) (missing : bool) (s : st) : st * out :=
  if missing then (s, out_rc 1)
  else
    let '(r', k) := cleanup (s_roster s) in
    (mkSt (s_envs s) r' ((e, active_dets (s_envs s)) :: remove_snap e (s_snaps s)), mkOut 0 k [] [] [] 0 []).

(* failure tail of CreateEnvironment: GO_ERROR, forced teardown, KillTasks(envTasks) *)
Definition create_tail (x : env) (s : st) (cmds : list tid) (launched : list tid) : st * out :=
  let t := teardown true (e_id x) s in
  let '(r', k) := kill_tasks (bound_tids x) (s_roster (td_st t)) in
  (with_roster (td_st t) r', mkOut 1 k cmds (td_calls t) (td_trigs t) (td_left t) launched).

Definition finish0 (e : N) (c : cspec) (s : st) : st * out :=
  match assocN e (s_snaps s) with
  | None => (s, out_rc 1)
  | Some snapdets =>
      let s0 := mkSt (s_envs s) (s_roster s) (remove_snap e (s_snaps s)) in
      if N.leb 1 (c_fail c) && N.leb (c_fail c) 3 then (s0, out_rc 1)
      else if existsb (fun d => memN d snapdets) (c_dets c) then (s0, out_rc 1)
      else
        let x0 := mkEnv e (c_dets c) ES_STANDBY (c_roles c) false 0 in
        if N.eqb (c_fail c) 4 then
          let xe := set_estate ES_ERROR (leave_upd ES_STANDBY (leave_upd ES_STANDBY x0)) in
          create_tail xe (with_envs s0 (s_envs s0 ++ [xe])) [] []
        else if N.eqb (c_fail c) 6 then
          (* three attempts, each launches every task role; the tasks of every attempt are written to the
             roster, unowned (the deployment failed): those of an attempt that is retried before the retry,
             those of the last one at the end, whether or not the deployment succeeded (the two facts of
             gen/Gen_AcqRoster.v, read from the source on every run) *)
          let xe := set_estate ES_ERROR (leave_upd ES_STANDBY (leave_upd ES_STANDBY x0)) in
          let trs := task_iroles (set_bound x0) in
          let n := Nlen (c_roles c) in
          let last := flat_map (fun a => map (att_task e n a) trs) roster_attempts in
          create_tail xe (mkSt (s_envs s0 ++ [xe]) (s_roster s0 ++ last) (s_snaps s0)) []
                      (map (att_id e n 0) trs ++ map (att_id e n 1) trs ++ map (att_id e n 2) trs)
        else
          let x1 := set_bound x0 in
          let launched := map (fun ir => tid_of e (fst ir)) (task_iroles x1) in
          let r1 := s_roster s0 ++ map (launch_task e (c_refuse c)) (task_iroles x1) in
          if existsb (fun r => is_task_role r && N.eqb (r_launch r) 1) (c_roles c) || N.eqb (c_fail c) 5 then
            let xe := set_estate ES_ERROR (leave_upd ES_STANDBY (leave_upd ES_STANDBY x1)) in
            create_tail xe (mkSt (s_envs s0 ++ [xe]) r1 (s_snaps s0)) [] launched
          else
            (* CONFIGURE *)
            let targets := active_owned_in e (bound_tids x1) r1 in
            let refuse := map (fun ir => tid_of e (fst ir))
                              (filter (fun ir => r_cfgerr (snd ir)) (task_iroles x1)) in
            let r2 := command e targets refuse TS_CONFIGURED r1 in
            let x2 := add_pend (pend_roles x1) (leave_upd ES_DEPLOYED (leave_upd ES_STANDBY x1)) in
            if existsb (fun r => is_task_role r && r_crit r && r_cfgerr r) (c_roles c) then
              let xe := set_estate ES_ERROR (leave_upd ES_DEPLOYED x2) in
              create_tail xe (mkSt (s_envs s0 ++ [xe]) r2 (s_snaps s0)) targets launched
            else
              (mkSt (s_envs s0 ++ [set_estate ES_CONFIGURED x2]) r2 (s_snaps s0),
               mkOut 0 [] targets [] [] 0 launched)
  end.

(* ---- reuseUnlockedTasks: acquireTasks satisfies a descriptor with a running task of the roster that is
   claimable (IsClaimable), of the wanted class, on the wanted host, instead of launching one.  The role of
   a claimed task never receives the status update the DEPLOY transition waits for (SetTask does not push
   one), so a creation that claimed anything gives up on its deploy timeout; its failure tail releases and
   KILLs the claimed tasks with the launched ones.  [claims]: (role number, claimed task), at most one role
   per class + host code in a workflow. *)
Definition claims (c : cspec) (r : roster) : list (N * tid) :=
  flat_map (fun ir => match r_kind (snd ir) with
                      | RPlain => if N.eqb (r_ch (snd ir)) 0 then []
                                  else match first_claimable (r_ch (snd ir)) r with
                                       | Some id => [(fst ir, id)]
                                       | None => []
                                       end
                      | _ => []
                      end) (iroles (c_roles c)).

Definition blank_role : role := mkRole RNone false 0 false 0.
Definition without_claimed (cl : list (N * tid)) (c : cspec) : cspec :=
  mkSpec (c_dets c) 5
         (map (fun ir => if memN (fst ir) (map fst cl) then blank_role else snd ir) (iroles (c_roles c)))
         (c_refuse c) false.

Definition finish (e : N) (c : cspec) (s : st) : st * out :=
  match assocN e (s_snaps s) with
  | None => finish0 e c s
  | Some snapdets =>
      let cl := claims c (s_roster s) in
      if negb (c_reuse c) || negb (N.eqb (c_fail c) 0 || N.eqb (c_fail c) 5) ||
         existsb (fun d => memN d snapdets) (c_dets c) ||
         match cl with [] => true | _ => false end
      then finish0 e c s
      else
        let '(s2, u2) := finish0 e (without_claimed cl c) s in
        let '(r3, k3) := kill_tasks (map snd cl) (s_roster s2) in
        (with_roster s2 r3,
         mkOut (o_rc u2) (o_kills u2 ++ k3) (o_cmds u2) (o_calls u2) (o_trigs u2) (o_pend u2) (o_launch u2))
  end.

Definition out_seq (a b : out) : out :=
  mkOut (o_rc b) (o_kills a ++ o_kills b) (o_cmds a ++ o_cmds b)
        (o_calls a ++ o_calls b) (o_trigs a ++ o_trigs b) (o_pend b) (o_launch a ++ o_launch b).

(* ---------- ControlEnvironment ---------- *)
Definition go_error (e : N) (s : st) : st * N :=
  (* GO_ERROR is possible from STANDBY, DEPLOYED, CONFIGURED, RUNNING; otherwise the state is
     forced to ERROR and the request reports the error *)
  match find_env e (s_envs s) with
  | None => (s, 1)
  | Some x =>
      let rc := if N.leb (e_state x) ES_RUNNING then 0 else 1 in
      (with_envs s (upd_env e (fun y => set_estate ES_ERROR
                                          (if N.leb (e_state y) ES_RUNNING then leave_upd (e_state y) y else y))
                            (s_envs s)), rc)
  end.

Definition control (e : N) (ev : N) (fail : bool) (s : st) : st * out :=
  match find_env e (s_envs s) with
  | None => (s, out_rc 1)
  | Some x =>
      match ev_src_dst ev with
      | None => (s, out_rc 1)
      | Some (src, dst, tdst) =>
          if negb (N.eqb (e_state x) src) then
            let '(s', _) := go_error e s in (s', out_rc 1)   (* the error of the requested transition is returned *)
          else
            let pend' := e_pend x + leave_cnt x src + (if N.eqb ev 1 then pend_roles x else 0) in
            let s1 := with_envs s (upd_env e (set_pend pend') (s_envs s)) in
            let '(r', targets, ok) := transition x tdst fail (s_roster s) in
            if ok then
              (mkSt (upd_env e (set_estate dst) (s_envs s1)) r' (s_snaps s), mkOut 0 [] targets [] [] 0 [])
            else
              let '(s2, _) := go_error e (with_roster s1 r') in
              (s2, mkOut 1 [] targets [] [] 0 [])
      end
  end.

(* ---------- DestroyEnvironment ---------- *)
(* doTeardownAndCleanup; [x] is the environment as it was when the request arrived (its workflow,
   hence its task list, outlives the teardown) *)
Definition dtc (force keep : bool) (x : env) (s : st) : st * out :=
  let e := e_id x in
  let t1 := teardown force e s in
  let t := if td_ok t1 || force then t1
           else let t2 := teardown true e (td_st t1) in
                mkTd (td_st t2) (td_ok t2) (td_calls t1 ++ td_calls t2) (td_trigs t1 ++ td_trigs t2) (td_hookr t2) (td_left t2) in
  let left := match find_env e (s_envs (td_st t)) with Some x' => e_pend x' | None => td_left t end in
  if negb (td_ok t) then (td_st t, mkOut 1 [] [] (td_calls t) (td_trigs t) left [])
  else if keep then (td_st t, mkOut 0 [] [] (td_calls t) (td_trigs t) left [])
  else
    let '(r', k) := match bound_tids x with
                    | [] => cleanup (s_roster (td_st t))          (* doCleanupTasks with no ids *)
                    | ids => kill_tasks ids (s_roster (td_st t))
                    end in
    (* a KILL call that the master refused makes the request report an error - the environment is gone *)
    let err := match bound_tids x with
               | [] => cleanup_err (s_roster (td_st t))
               | ids => kill_tasks_err ids (s_roster (td_st t))
               end in
    (with_roster (td_st t) r', mkOut (if err then 1 else 0) k [] (td_calls t) (td_trigs t) left []).

(* after the optional STOP_ACTIVITY: [go_on] = it did not fail *)
Definition destroy_tail (e : N) (x : env) (keep : bool) (s1 : st) (o1 : out) (go_on tf : bool) : st * out :=
  if negb go_on then let '(s2, o2) := dtc true false x s1 in (s2, out_seq o1 o2)
  else
    match find_env e (s_envs s1) with
    | None => (s1, out_rc 1)
    | Some x1 =>
        let st1 := e_state x1 in
        if negb (N.eqb st1 ES_CONFIGURED || N.eqb st1 ES_DEPLOYED || N.eqb st1 ES_STANDBY)
        then let '(s2, o2) := dtc true false x s1 in (s2, out_seq o1 o2)
        else if N.eqb st1 ES_CONFIGURED then
          (* RESET *)
          let '(r', targets, ok) := transition x1 TS_STANDBY tf (s_roster s1) in
          let o1' := out_seq o1 (mkOut 0 [] targets [] [] 0 []) in
          if ok then
            let s2 := mkSt (upd_env e (fun y => set_estate ES_DEPLOYED (leave_upd ES_CONFIGURED y)) (s_envs s1)) r' (s_snaps s1) in
            let '(s3, o3) := dtc false keep x s2 in (s3, out_seq o1' o3)
          else
            let '(s3, o3) := dtc true false x (mkSt (upd_env e (leave_upd ES_CONFIGURED) (s_envs s1)) r' (s_snaps s1)) in
            (s3, out_seq o1' o3)
        else
          let '(s3, o3) := dtc false keep x s1 in (s3, out_seq o1 o3)
    end.

Definition destroy (e : N) (force allow keep tfail : bool) (s : st) : st * out :=
  match find_env e (s_envs s) with
  | None => (s, out_rc 1)
  | Some x =>
      if force then dtc true keep x s
      else
        (* STOP_ACTIVITY first when allowed in RUNNING *)
        if allow && N.eqb (e_state x) ES_RUNNING then
          let '(r', targets, ok) := transition x TS_CONFIGURED tfail (s_roster s) in
          if ok
          then destroy_tail e x keep
                 (mkSt (upd_env e (fun y => set_estate ES_CONFIGURED (leave_upd ES_RUNNING y)) (s_envs s)) r' (s_snaps s))
                 (mkOut 0 [] targets [] [] 0 []) true false
          else destroy_tail e x keep
                 (mkSt (upd_env e (leave_upd ES_RUNNING) (s_envs s)) r' (s_snaps s))
                 (mkOut 0 [] targets [] [] 0 []) false false
        else destroy_tail e x keep s (out_rc 0) true tfail
  end.

(* ---------- requests ---------- *)
Inductive op :=
| OSnap (e : N) (missing : bool)
| OFinish (e : N) (c : cspec)
| OCreate (e : N) (c : cspec)
| OControl (e : N) (ev : N) (fail : bool)
| ODestroy (e : N) (force allow keep tfail : bool)
| OCleanup
| OKill (ids : list tid)
| ODies (t : tid)
| OFail (ids : list tid)    (* the executor (or the agent) running exactly these tasks failed *)
| ORefuse (ids : list tid)  (* from now on the master refuses the KILL calls for these tasks *)
| ORelock (t : tid)         (* the executor of a task that had been reported failed sends TASK_RUNNING for it *)
| ONop                      (* a request that is still waiting (its effect comes later) / the end of a held request *)
| OCleanupStale (ids : list tid)  (* a Cleanup that waited acts on the list of unlocked tasks it computed before *)
| ORecon.                   (* the master answers a reconciliation: TASK_RUNNING, agent id, no executor id, for every running task *)

Definition step (s : st) (o : op) : st * out :=
  match o with
  | OSnap e missing => snap e missing s
  | OFinish e c => finish e c s
  | OCreate e c =>
      if N.eqb (c_fail c) 1 then snap e true s
      else let '(s1, o1) := snap e false s in
           let '(s2, o2) := finish e c s1 in (s2, out_seq o1 o2)
  | OControl e ev fail => control e ev fail s
  | ODestroy e force allow keep tfail => destroy e force allow keep tfail s
  | OCleanup => let '(r', k) := cleanup (s_roster s) in
                (with_roster s r', mkOut (if cleanup_err (s_roster s) then 1 else 0) k [] [] [] 0 [])
  | OKill ids => let '(r', k) := kill_tasks ids (s_roster s) in
                 (with_roster s r', mkOut (if kill_tasks_err ids (s_roster s) then 1 else 0) k [] [] [] 0 [])
  | ODies t => (with_roster s (task_dies t (s_roster s)), out_rc 0)
  | OFail ids => (with_roster s (fail_tasks ids (s_roster s)), out_rc 0)
  | ORefuse ids => (with_roster s (refuse_tasks ids (s_roster s)), out_rc 0)
  | ORelock t => (with_roster s (relock_task t (s_roster s)), out_rc 0)
  | ONop => (s, out_rc 0)
  | OCleanupStale ids => let '(r', k) := stale_cleanup ids (s_roster s) in
                         (with_roster s r', mkOut 0 k [] [] [] 0 [])
  | ORecon => (with_roster s (recon_tasks (s_roster s)), out_rc 0)
  end.

(* the environment a request is issued for *)
Definition op_env (o : op) : option N :=
  match o with
  | OSnap e _ | OFinish e _ | OCreate e _ | OControl e _ _ | ODestroy e _ _ _ _ => Some e
  | _ => None
  end.

Fixpoint run (s : st) (ops : list op) : st :=
  match ops with
  | [] => s
  | o :: r => run (fst (step s o)) r
  end.

(* ---------- canonical observation after each request ---------- *)
Record envobs := mkEO { eo_id : N; eo_state : N; eo_dets : list N; eo_pend : N }.
Record obs := mkObs {
  ob_rc : N;
  ob_envs : list envobs;      (* GetEnvironments, by id *)
  ob_roster : list task;      (* GetTasks / roster, by id *)
  ob_adets : list N;          (* GetActiveDetectors *)
  ob_kills : list tid;
  ob_cmds : list tid;
  ob_calls : list tid;
  ob_trigs : list tid;
  ob_early : N;               (* DESTROY hooks started while a non-hook task was still owned *)
  ob_pend : N;                (* after a destroy: calls of that environment still pending and not cancelled *)
  ob_launch : list tid;       (* tasks launched during the request *)
  ob_leak : list tid          (* tasks launched so far that run at the master, are in no roster and were never sent KILL *)
}.

Fixpoint ins_eo (x : envobs) (l : list envobs) : list envobs :=
  match l with
  | [] => [x]
  | y :: r => if N.leb (eo_id x) (eo_id y) then x :: l else y :: ins_eo x r
  end.

(* the state field of a task that is not ACTIVE is not compared: the core writes it from one goroutine
   per update, so a late CONFIGURE reply can overwrite the ERROR of a task that died meanwhile *)
Definition norm_task (t : task) : task :=
  if t_active t then mkTask (t_id t) (t_owner t) true (t_state t) (t_idok t) 0 (t_ch t)
  else mkTask (t_id t) (t_owner t) false 9 (t_idok t) 0 (t_ch t).

Definition observe (s : st) (o : out) : obs :=
  mkObs (o_rc o)
        (fold_right ins_eo []
           (map (fun x => mkEO (e_id x) (e_state x) (dedupN (sortN (e_dets x))) (e_pend x)) (s_envs s)))
        (sort_roster (map norm_task (s_roster s)))
        (dedupN (sortN (active_dets (s_envs s))))
        (sort_tids (o_kills o)) (sort_tids (o_cmds o)) (o_calls o) (sort_tids (o_trigs o)) 0 (o_pend o)
        (sort_tids (o_launch o)) [].

(* tasks launched in a step that are neither KILLed in it nor in the roster after it stay unknown to
   the task manager for ever: nothing can select them for a KILL later *)
Definition new_leak (s' : st) (u : out) : list tid :=
  filter (fun id => negb (mem_tid id (o_kills u)) &&
                    negb (existsb (fun t => tid_eqb (t_id t) id) (s_roster s'))) (o_launch u).

Definition with_leak (l : list tid) (o : obs) : obs :=
  mkObs (ob_rc o) (ob_envs o) (ob_roster o) (ob_adets o) (ob_kills o) (ob_cmds o) (ob_calls o) (ob_trigs o)
        (ob_early o) (ob_pend o) (ob_launch o) (sort_tids l).

Fixpoint run_obs_from (leak : list tid) (s : st) (ops : list op) : list obs :=
  match ops with
  | [] => []
  | o :: r => let '(s', u) := step s o in
              let leak' := leak ++ new_leak s' u in
              with_leak leak' (observe s' u) :: run_obs_from leak' s' r
  end.
Definition run_obs (s : st) (ops : list op) : list obs := run_obs_from [] s ops.

Definition listN_eqb := list_eqb N.eqb.
Definition tids_eqb := list_eqb tid_eqb.
Definition eo_eqb (a b : envobs) : bool :=
  N.eqb (eo_id a) (eo_id b) && N.eqb (eo_state a) (eo_state b) &&
  listN_eqb (eo_dets a) (eo_dets b) && N.eqb (eo_pend a) (eo_pend b).
Definition obs_eqb (a b : obs) : bool :=
  N.eqb (ob_rc a) (ob_rc b) && list_eqb eo_eqb (ob_envs a) (ob_envs b) &&
  list_eqb task_eqb (ob_roster a) (ob_roster b) && listN_eqb (ob_adets a) (ob_adets b) &&
  tids_eqb (ob_kills a) (ob_kills b) && tids_eqb (ob_cmds a) (ob_cmds b) &&
  tids_eqb (ob_calls a) (ob_calls b) && tids_eqb (ob_trigs a) (ob_trigs b) &&
  N.eqb (ob_early a) (ob_early b) && N.eqb (ob_pend a) (ob_pend b) &&
  tids_eqb (ob_launch a) (ob_launch b) && tids_eqb (ob_leak a) (ob_leak b).

(* ---------- cases written by the harness ---------- *)
Record hcase := mkCase { h_ops : list op; h_obs : list obs }.

Definition corr_h (c : hcase) : bool := list_eqb obs_eqb (run_obs st0 (h_ops c)) (h_obs c).
