(* C05 — tasks are placed only where constraints and resources allow.
   Executable model of the placement code of /repo, definitions only:
     core/task/constraint/attributes.go   Attributes.Get / Attributes.Satisfy
     core/task/constraint/constraints.go  Constraints.MergeParent
     core/workflow/rolebase.go            roleBase.getConstraints
     core/task/match.go                   BuildDescriptorConstraints, GetWantsForDescriptor,
                                          Resources.Satisfy
     core/task/channel/inbound.go         MergeInbound
     core/task/taskclass/port/range.go    RangesFromExpression
     mesos-go api/v1/lib/ranges.go        Ranges.Sort/Squash/Remove/Min/Size/Compare,
                                          Value_Ranges.Subtract, resources.Ports
     core/task/scheduler.go               resourceOffers (machine_id pre-matching, per-offer
                                          loops, decline set), makeTaskForMesosResources
   The code is modelled as it is, not as it should be.  Strings are byte lists ([str]),
   scalars (cpus, mem) are thousandths (Mesos fixed-point precision), ports are [N]. *)
From Verif Require Import Common Gen_Placement.
Open Scope N_scope.

(* ================================================================ constraints *)

Record cstr := mkC { c_attr : str; c_val : str; c_op : N }.   (* c_op 0 = Equals *)

Definition cstr_eqb (a b : cstr) : bool :=
  str_eqb (c_attr a) (c_attr b) && str_eqb (c_val a) (c_val b) && N.eqb (c_op a) (c_op b).

(* offer attributes: (name, text value) in offer order; a non-text attribute has value [] *)
Definition attrs := list (str * str).

(* Attributes.Get: the first attribute with that name *)
Fixpoint attr_get (name : str) (a : attrs) : option str :=
  match a with
  | [] => None
  | (n, v) :: r => if str_eqb n name then Some v else attr_get name r
  end.

(* strings.Split(s, sep) for a one-byte separator *)
Fixpoint split_on (sep : N) (s : str) : list str :=
  match s with
  | [] => [[]]
  | c :: r => if N.eqb c sep then [] :: split_on sep r
              else match split_on sep r with
                   | h :: t => (c :: h) :: t
                   | [] => [[c]]
                   end
  end.

Definition comma : N := 44.
Definition has_comma (s : str) : bool := existsb (N.eqb comma) s.

(* the loop of Attributes.Satisfy with its named result [ok] *)
Fixpoint satisfy_loop (a : attrs) (cts : list cstr) (ok : bool) : bool :=
  match cts with
  | [] => ok
  | c :: r =>
    if N.eqb (c_op c) 0 then
      match attr_get (c_attr c) a with
      | Some v =>
        if has_comma v && mem_str (c_val c) (split_on comma v) then satisfy_loop a r true
        else if str_eqb v (c_val c) then satisfy_loop a r true
        else false
      | None => false
      end
    else satisfy_loop a r ok        (* unsupported operator: skipped, ok unchanged *)
  end.

(* Attributes.Satisfy.  A nil attribute slice with non-empty constraints returns false, which
   is also what the loop gives on an empty list, so nil and empty are not distinguished. *)
Definition satisfy (a : attrs) (cts : list cstr) : bool :=
  match cts with
  | [] => true
  | _ => satisfy_loop a cts false
  end.

(* ---- specification side (used by the monitor and by the theorems) ---- *)

(* one constraint is satisfied: the attribute exists and its value, or one of its
   comma-separated values, is the required one *)
Definition sat1 (a : attrs) (c : cstr) : bool :=
  match attr_get (c_attr c) a with
  | Some v => mem_str (c_val c) (v :: split_on comma v)
  | None => false
  end.
Definition is_equals (c : cstr) : bool := N.eqb (c_op c) 0.
Definition sat_all (a : attrs) (cts : list cstr) : bool := forallb (sat1 a) cts.

(* ---- Constraints.MergeParent ---- *)
Fixpoint replace_first (c : cstr) (l : list cstr) : option (list cstr) :=
  match l with
  | [] => None
  | p :: r => if str_eqb (c_attr c) (c_attr p) then Some (c :: r)
              else match replace_first c r with
                   | Some r' => Some (p :: r')
                   | None => None
                   end
  end.
Definition merge_one (merged : list cstr) (c : cstr) : list cstr :=
  match replace_first c merged with
  | Some m => m
  | None => merged ++ [c]
  end.
Definition merge_parent (own parent : list cstr) : list cstr := fold_left merge_one own parent.

(* roleBase.getConstraints through the parent chain; [levels] = own constraint lists, the task
   role first, the top-level role last.  The top-level role merges its own list over the empty
   list (repaired C05-e: an attribute it names twice collapses as in any other role). *)
Fixpoint get_constraints (levels : list (list cstr)) : list cstr :=
  match levels with
  | [] => []
  | l :: r => merge_parent l (get_constraints r)
  end.

(* BuildDescriptorConstraints: role constraints merged over the class constraints (if the class
   is known) *)
Definition desc_constraints (levels : list (list cstr)) (class_cts : option (list cstr)) : list cstr :=
  match class_cts with
  | Some k => merge_parent (get_constraints levels) k
  | None => get_constraints levels
  end.

(* ---- specification: nearest definition ---- *)
(* the definition of attribute [a] inside one list: the last entry for [a] *)
Fixpoint level_def (a : str) (l : list cstr) : option str :=
  match l with
  | [] => None
  | c :: r => match level_def a r with
              | Some v => Some v
              | None => if str_eqb (c_attr c) a then Some (c_val c) else None
              end
  end.
(* first entry for [a] (how a merged list is read) *)
Fixpoint lookup_c (a : str) (l : list cstr) : option str :=
  match l with
  | [] => None
  | c :: r => if str_eqb (c_attr c) a then Some (c_val c) else lookup_c a r
  end.
Fixpoint nearest (a : str) (levels : list (list cstr)) : option str :=
  match levels with
  | [] => None
  | l :: r => match level_def a l with
              | Some v => Some v
              | None => nearest a r
              end
  end.
Definition attrs_of (l : list cstr) : list str := map c_attr l.
Definition nodup_attrs (l : list cstr) : bool := nodupb str_eqb (attrs_of l).
Definition all_levels (levels : list (list cstr)) (class_cts : option (list cstr)) :=
  match class_cts with Some k => levels ++ [k] | None => levels end.

(* ================================================================ port ranges (mesos-go) *)

Definition range := (N * N)%type.
Definition ranges := list range.

Definition range_eqb (a b : range) : bool := N.eqb (fst a) (fst b) && N.eqb (snd a) (snd b).
Definition ranges_eqb : ranges -> ranges -> bool := list_eqb range_eqb.

(* Ranges.Less: by Begin, then End *)
Definition range_leb (a b : range) : bool :=
  (fst a <? fst b) || (N.eqb (fst a) (fst b) && (snd a <=? snd b)).

Fixpoint rinsert (r : range) (l : ranges) : ranges :=
  match l with
  | [] => [r]
  | h :: t => if range_leb r h then r :: l else h :: rinsert r t
  end.
(* Ranges.Sort (the order among equal elements is immaterial) *)
Definition rsort (l : ranges) : ranges := fold_right rinsert [] l.

(* Ranges.Squash: the loop with the last squashed range [cur] *)
Fixpoint squash_go (cur : range) (rest : ranges) : ranges :=
  match rest with
  | [] => [cur]
  | x :: r =>
    if 1 + snd cur <? fst x then cur :: squash_go x r
    else if snd cur <=? snd x then squash_go (fst cur, snd x) r
    else squash_go cur r
  end.
Definition squash (l : ranges) : ranges :=
  match l with
  | [] => []
  | c :: r => squash_go c r
  end.
Definition canon (l : ranges) : ranges := squash (rsort l).

(* Ranges.Remove (then Squash) *)
Fixpoint remove_raw (l : ranges) (lo hi : N) : ranges :=
  match l with
  | [] => []
  | (b, e) :: r =>
    if (lo <=? b) && (e <=? hi) then remove_raw r lo hi
    else if (b <? lo) && (hi <? e) then (b, lo - 1) :: (hi + 1, e) :: remove_raw r lo hi
    else if (e <? lo) || (hi <? b) then (b, e) :: remove_raw r lo hi
    else if hi <? e then (hi + 1, e) :: remove_raw r lo hi
    else (b, lo - 1) :: remove_raw r lo hi
  end.
Definition rremove (l : ranges) (lo hi : N) : ranges := squash (remove_raw l lo hi).

(* Ranges.Min: panics on the empty list (None) *)
Definition rmin (l : ranges) : option N :=
  match l with
  | [] => None
  | (b, _) :: _ => Some b
  end.

(* Ranges.Size *)
Definition rsize (l : ranges) : N := fold_right (fun r acc => 1 + (snd r - fst r) + acc) 0 l.

(* equiv() re-sorts and re-squashes lists of two or more ranges *)
Definition renorm (l : ranges) : ranges :=
  match l with
  | _ :: _ :: _ => canon l
  | _ => l
  end.
Definition within (a b : range) : bool := (fst b <=? fst a) && (snd a <=? snd b).
(* Ranges.Compare: 0 equivalent, 1 "subset" (Go's -1), 2 otherwise (Go's 1) *)
Definition rcompare (x y : ranges) : N :=
  let x' := renorm x in
  let y' := renorm y in
  if ranges_eqb x' y' then 0
  else if forallb (fun a => existsb (within a) y') x' then 1
  else 2.

(* membership of a port *)
Definition inr (p : N) (l : ranges) : bool :=
  existsb (fun r => (fst r <=? p) && (p <=? snd r)) l.
Definition valid_ranges (l : ranges) : bool := forallb (fun r => fst r <=? snd r) l.

(* The "ports" resource of an offer while it is being processed: None = no such resource (never
   offered, or deleted by Subtract1 when it became empty), Some raw = its ranges as stored. *)
Definition portres := option ranges.

(* resources.Ports: (ranges, ok) *)
Definition ports_of (pr : portres) : option ranges :=
  match pr with
  | None => None
  | Some raw => Some (match raw with [] => [] | _ => canon raw end)
  end.

(* remainingResourcesInOffer.Subtract(ports [p,p]) *)
Definition subtract_port (pr : portres) (p : N) : portres :=
  match pr with
  | None => None
  | Some raw =>
    match rremove (renorm raw) p p with
    | [] => None
    | a => Some a
    end
  end.

(* ================================================================ RangesFromExpression *)

Definition is_space (c : N) : bool :=
  N.eqb c 32 || N.eqb c 9 || N.eqb c 10 || N.eqb c 11 || N.eqb c 12 || N.eqb c 13.
Fixpoint trim_left (s : str) : str :=
  match s with
  | c :: r => if is_space c then trim_left r else s
  | [] => []
  end.
Definition trim_space (s : str) : str := rev (trim_left (rev (trim_left s))).

Definition is_digit (c : N) : bool := (48 <=? c) && (c <=? 57).
Definition two64 : N := 18446744073709551616.
(* strconv.ParseUint(s, 10, 64) *)
Fixpoint digits_val (s : str) (acc : N) : option N :=
  match s with
  | [] => Some acc
  | c :: r => if is_digit c then digits_val r (acc * 10 + (c - 48)) else None
  end.
Definition parse_uint (s : str) : option N :=
  match s with
  | [] => None
  | _ => match digits_val s 0 with
         | Some n => if n <? two64 then Some n else None
         | None => None
         end
  end.

Definition dash : N := 45.
Definition parse_item (piece : str) : option range :=
  match split_on dash (trim_space piece) with
  | [a] => match parse_uint a with Some n => Some (n, n) | None => None end
  | [a; b] => match parse_uint a, parse_uint b with
              | Some x, Some y => Some (x, y)
              | _, _ => None
              end
  | _ => None
  end.
Fixpoint parse_items (pieces : list str) : option ranges :=
  match pieces with
  | [] => Some []
  | p :: r => match parse_item p with
              | Some x => match parse_items r with
                          | Some xs => Some (x :: xs)
                          | None => None
                          end
              | None => None
              end
  end.
(* RangesFromExpression: None = error *)
Definition parse_ranges (s : str) : option ranges :=
  match trim_space s with
  | [] => Some []
  | _ => parse_items (split_on comma s)
  end.

(* printing, for the round-trip theorem *)
Fixpoint dec_fuel (fuel : nat) (n : N) : str :=
  match fuel with
  | O => []
  | S f => if n <? 10 then [48 + n] else dec_fuel f (n / 10) ++ [48 + n mod 10]
  end.
Definition dec (n : N) : str := dec_fuel 40 n.
Definition print_item (r : range) : str :=
  if N.eqb (fst r) (snd r) then dec (fst r) else dec (fst r) ++ [dash] ++ dec (snd r).
Fixpoint print_ranges (l : ranges) : str :=
  match l with
  | [] => []
  | [r] => print_item r
  | r :: t => print_item r ++ [comma] ++ print_ranges t
  end.

(* ================================================================ wants, Resources.Satisfy *)

Record chan := mkChan { ch_name : N; ch_tcp : bool }.
Definition chan_eqb (a b : chan) : bool := N.eqb (ch_name a) (ch_name b) && Bool.eqb (ch_tcp a) (ch_tcp b).

(* channel.MergeInbound(hp, lp): lp entries whose name is not yet present are appended *)
Fixpoint merge_inbound_go (acc lp : list chan) : list chan :=
  match lp with
  | [] => acc
  | v :: r => if existsb (fun c => N.eqb (ch_name c) (ch_name v)) acc then merge_inbound_go acc r
              else merge_inbound_go (acc ++ [v]) r
  end.
Definition merge_inbound (hp lp : list chan) : list chan := merge_inbound_go hp lp.

(* a task class as far as placement is concerned *)
Record klass := mkClass {
  k_cts : list cstr;
  k_cpu : N;               (* wants.cpu, thousandths *)
  k_mem : N;               (* wants.memory, thousandths *)
  k_static : ranges;       (* wants.ports as parsed by RangesFromExpression *)
  k_bind : list chan;
  k_controllable : bool    (* control mode neither basic nor hook: the control port is handed over *)
}.

(* Resources.Satisfy on (cpus, mem, ports) of the remaining offer.
   availMem is uint64(sum): the fraction of the offered memory is dropped. *)
Definition res_satisfy (cpu mem : option N) (pr : portres)
           (wcpu wmem : N) (static : ranges) (nchans : N) : bool :=
  match cpu with
  | None => false
  | Some c =>
    if c <? wcpu then false else
    match mem with
    | None => false
    | Some m =>
      if (m / 1000) * 1000 <? wmem then false else
      match ports_of pr with
      | None => false
      | Some av =>
        let ws := canon static in
        if negb (N.eqb (rcompare ws av) 1) then false
        else if rsize av - rsize ws <? nchans then false
        else true
      end
    end
  end.

(* ================================================================ one OFFERS round *)

Record offer := mkOffer {
  o_id : N;
  o_agent : N;
  o_attrs : attrs;
  o_cpu : option N;
  o_mem : option N;
  o_ports : portres;
  o_execs : N                (* number of executor ids in the offer *)
}.

Record desc := mkDesc {
  d_id : N;
  d_levels : list (list cstr);     (* own constraints, task role first, top-level role last *)
  d_rbind : list chan;             (* inbound channels collected from the roles *)
  d_class : option klass           (* None: class unknown to the manager *)
}.

Definition d_constraints (d : desc) : list cstr :=
  desc_constraints (d_levels d) (option_map k_cts (d_class d)).

Record task := mkTask {
  t_desc : desc;
  t_dyn : list (N * N);            (* (channel name, port) per inbound TCP channel *)
  t_ctl : N;                       (* the control port that was claimed *)
  t_handed : option N;             (* the control port the task is told about, if controllable *)
  t_req : ranges;                  (* ports in the TaskInfo resources *)
  t_cpu : N;                       (* cpus in the TaskInfo resources (wants + executor share) *)
  t_mem : N;
  t_reuse : bool                   (* runs under the offer's first executor id *)
}.

(* remainingResourcesInOffer.Subtract(a "ports" resource with the ranges rs), rs sorted and
   squashed by the caller.  Subtract1 skips a resource that is empty or does not validate (a range
   with begin > end); the ports resource is deleted when nothing is left. *)
Definition subtract_ranges (pr : portres) (rs : ranges) : portres :=
  match pr with
  | None => None
  | Some raw =>
    match rs with
    | [] => pr
    | _ => if valid_ranges rs then
             match fold_left (fun a r => rremove a (fst r) (snd r)) rs (renorm raw) with
             | [] => None
             | a => Some a
             end
           else pr
    end
  end.

(* ... of a scalar resource (thousandths): an empty request is skipped, a resource that drops to
   zero or below is deleted *)
Definition subtract_scalar (rem : option N) (req : N) : option N :=
  match rem with
  | None => None
  | Some c => if N.eqb req 0 then rem else if req <? c then Some (c - req) else None
  end.

(* AFail: no ports resource, or no port above the data cut-off is left: the task does not fit
   (repaired C05-g: Ranges.Min is no longer called on an empty set) *)
Inductive alloc := AOk (pr : portres) (dyn : list (N * N)) | AFail (pr : portres).

(* the loop over wants.InboundChannels *)
Fixpoint alloc_dyn (chans : list chan) (pr : portres) : alloc :=
  match chans with
  | [] => AOk pr []
  | c :: r =>
    if ch_tcp c then
      match ports_of pr with
      | None => AFail pr
      | Some av =>
        match rmin (rremove av 0 data_port_floor) with
        | None => AFail pr
        | Some p =>
          match alloc_dyn r (subtract_port pr p) with
          | AOk pr' dyn => AOk pr' ((ch_name c, p) :: dyn)
          | x => x
          end
        end
      end
    else alloc_dyn r pr
  end.

(* makeTaskForMesosResources on what is left of the offer (ports, cpus, mem).
   MkFail pr: gave up, [pr] is what is left of the ports (cpus and mem untouched); the offer stays
   in the decline set (repaired C05-f: it is taken out only when the task is complete).
   The static ranges are claimed before any port is picked (repaired C05-c); the whole request is
   subtracted from what is left once the task is complete (repaired C05-d). *)
Inductive mkres := MkOk (pr : portres) (cpu mem : option N) (t : task) | MkFail (pr : portres).

Definition span1 (p : N) : range := (p, p).

Definition make_task (exec : N * N) (o : offer) (d : desc) (k : klass) (chans : list chan)
           (pr : portres) (cpu mem : option N) : mkres :=
  match alloc_dyn chans (subtract_ranges pr (canon (k_static k))) with
  | AFail pr1 => MkFail pr1
  | AOk pr1 dyn =>
    match ports_of pr1 with
    | None => MkFail pr1
    | Some av =>
      match rmin (rremove av 0 control_port_floor) with
      | None => MkFail pr1
      | Some cp =>
        let t := mkTask d dyn cp (if k_controllable k then Some cp else None)
                        (canon (k_static k ++ map (fun x => span1 (snd x)) dyn ++ [span1 cp]))
                        (k_cpu k + fst exec) (k_mem k + snd exec)
                        (0 <? o_execs o) in
        MkOk (subtract_ranges (subtract_port pr1 cp) (t_req t))
             (subtract_scalar cpu (t_cpu t)) (subtract_scalar mem (t_mem t)) t
      end
    end
  end.

Inductive tryres := TNoC | TNoClass | TNoR | TMk (r : mkres).

Definition try_desc (exec : N * N) (o : offer) (pr : portres) (cpu mem : option N) (d : desc) : tryres :=
  if negb (satisfy (o_attrs o) (d_constraints d)) then TNoC
  else match d_class d with
       | None => TNoClass
       | Some k =>
         let chans := merge_inbound (d_rbind d) (k_bind k) in
         if negb (res_satisfy cpu mem pr (k_cpu k) (k_mem k) (k_static k) (Nlen chans))
         then TNoR
         else TMk (make_task exec o d k chans pr cpu mem)
       end.

(* state of one offer goroutine: what is left of the offer, the tasks built so far *)
Record ost := mkOst {
  s_rem : portres;
  s_cpu : option N;
  s_mem : option N;
  s_tasks : list task         (* in launch order *)
}.

Definition st_fail (st : ost) (pr : portres) : ost := mkOst pr (s_cpu st) (s_mem st) (s_tasks st).
Definition st_ok (st : ost) (pr : portres) (cpu mem : option N) (t : task) : ost :=
  mkOst pr cpu mem (s_tasks st ++ [t]).
Definition try_st (exec : N * N) (o : offer) (st : ost) (d : desc) : tryres :=
  try_desc exec o (s_rem st) (s_cpu st) (s_mem st) d.

(* FOR_PREMATCH_DESCRIPTORS: result (state, descriptors newly undeployable) *)
Fixpoint prematch_loop (exec : N * N) (o : offer) (pm : list desc) (st : ost) : ost * list desc :=
  match pm with
  | [] => (st, [])
  | d :: r =>
    match try_st exec o st d with
    | TNoC | TNoClass | TNoR => (st, [d])
    | TMk (MkFail pr) => (st_fail st pr, [])
    | TMk (MkOk pr cpu mem t) => prematch_loop exec o r (st_ok st pr cpu mem t)
    end
  end.

(* FOR_DESCRIPTORS over the descriptors in iteration order: result (state, descriptors not
   launched in iteration order) *)
Fixpoint still_loop (exec : N * N) (o : offer) (ds : list desc) (st : ost) : ost * list desc :=
  match ds with
  | [] => (st, [])
  | d :: r =>
    match try_st exec o st d with
    | TNoC | TNoClass | TNoR =>
      let '(st', lft) := still_loop exec o r st in (st', d :: lft)
    | TMk (MkFail pr) =>
      let '(st', lft) := still_loop exec o r (st_fail st pr) in (st', d :: lft)
    | TMk (MkOk pr cpu mem t) => still_loop exec o r (st_ok st pr cpu mem t)
    end
  end.

(* ---- pre-processing: machine_id ---- *)
Definition s_machine_id : str := [109;97;99;104;105;110;101;95;105;100].   (* "machine_id" *)

Definition offer_machine_id (o : offer) : str :=
  match attr_get s_machine_id (o_attrs o) with Some v => v | None => [] end.
(* offersByMachineId[m]: the last offer carrying that machine id *)
Fixpoint offer_by_machine (m : str) (offers : list offer) : option offer :=
  match offers with
  | [] => None
  | o :: r => match offer_by_machine m r with
              | Some x => Some x
              | None => match offer_machine_id o with
                        | [] => None
                        | mid => if str_eqb mid m then Some o else None
                        end
              end
  end.
(* the machine id a descriptor is pinned to: value of the first machine_id constraint, if not "" *)
Definition required_machine (d : desc) : option str :=
  match lookup_c s_machine_id (d_constraints d) with
  | Some [] => None
  | Some m => Some m
  | None => None
  end.

Inductive pin := PinNone | PinTo (oid : N) | PinNowhere.
Definition pin_of (offers : list offer) (d : desc) : pin :=
  match required_machine d with
  | None => PinNone
  | Some m => match offer_by_machine m offers with
              | Some o => PinTo (o_id o)
              | None => PinNowhere
              end
  end.
Definition is_pin_none p := match p with PinNone => true | _ => false end.
Definition is_pin_nowhere p := match p with PinNowhere => true | _ => false end.
Definition is_pin_to (oid : N) p := match p with PinTo x => N.eqb x oid | _ => false end.

(* ---- the round ---- *)
Record gst := mkGst {
  g_still : list desc;               (* descriptorsStillToDeploy *)
  g_undep : list desc;               (* descriptorsUndeployable *)
  g_decline : list N;                (* offerIDsToDecline *)
  g_accepts : list (offer * list task)    (* ACCEPT calls, in processing order *)
}.

Definition remove_id (x : N) (l : list N) : list N := filter (fun y => negb (N.eqb x y)) l.

(* one offer goroutine, atomically (descriptorsMu) *)
Definition process_offer (exec : N * N) (offers : list offer) (descs : list desc)
           (g : gst) (o : offer) : gst :=
  let pm := filter (fun d => is_pin_to (o_id o) (pin_of offers d)) descs in
  let st0 := mkOst (o_ports o) (o_cpu o) (o_mem o) [] in
  let '(st1, und) := prematch_loop exec o pm st0 in
  let undep := g_undep g ++ und in
  let '(st2, still') :=
      match undep with
      | [] => let '(s, lft) := still_loop exec o (rev (g_still g)) st1 in (s, rev lft)
      | _ => (st1, g_still g)
      end in
  mkGst still' undep
        (match s_tasks st2 with [] => g_decline g | _ => remove_id (o_id o) (g_decline g) end)
        (g_accepts g ++ [(o, s_tasks st2)]).

Definition process_all (exec : N * N) (offers : list offer) (descs : list desc)
           (sched : list offer) (g : gst) : gst :=
  fold_left (process_offer exec offers descs) sched g.

Inductive outcome :=
| Done (accepts : list (offer * list task)) (declined : list N)
       (undeployed undeployable : list desc).

(* resourceOffers: [offers] as received, [sched] the order in which the offer goroutines obtain
   descriptorsMu (a permutation of [offers]), [descs] the pending deployment request. *)
Definition run_round (exec : N * N) (offers sched : list offer) (descs : list desc) : outcome :=
  let all_ids := map o_id offers in
  match descs with
  | [] => Done [] all_ids [] []
  | _ =>
    let still := filter (fun d => is_pin_none (pin_of offers d)) descs in
    (* the pre-processing loop runs from the last descriptor to the first *)
    let nowhere := filter (fun d => is_pin_nowhere (pin_of offers d)) (rev descs) in
    match nowhere with
    | _ :: _ => Done [] all_ids still nowhere
    | [] =>
      let g := process_all exec offers descs sched (mkGst still [] all_ids []) in
      Done (g_accepts g) (g_decline g) (g_still g) (g_undep g)
    end
  end.

(* ================================================================ correspondence cases *)

(* a task class as the harness describes it: the static ports as the template writes them and,
   for generated well-formed expressions, the ranges the generator meant *)
Record rawclass := mkRaw {
  rk_cts : list cstr;
  rk_cpu : N;
  rk_mem : N;
  rk_expr : str;
  rk_intended : ranges;
  rk_bind : list chan;
  rk_controllable : bool
}.
Definition class_of (r : rawclass) : klass :=
  mkClass (rk_cts r) (rk_cpu r) (rk_mem r)
          (match parse_ranges (rk_expr r) with Some rs => rs | None => [] end)
          (rk_bind r) (rk_controllable r).
Record rawdesc := mkRawDesc {
  rd_levels : list (list cstr);
  rd_rbind : list chan;
  rd_class : option rawclass
}.
Fixpoint descs_of_from (i : N) (l : list rawdesc) : list desc :=
  match l with
  | [] => []
  | r :: t => mkDesc i (rd_levels r) (rd_rbind r) (option_map class_of (rd_class r))
              :: descs_of_from (N.succ i) t
  end.
Definition descs_of (l : list rawdesc) : list desc := descs_of_from 0 l.

(* observed task: descriptor index, every TCP endpoint of the task's bind map (channel name, port)
   - channels of the descriptor's own merged list first, in that order, any other channel after
   them -, the channels bound to an IPC endpoint (same order), control port handed over, requested
   ports, cpus, mem (thousandths), executor reused *)
Record otask := mkOT {
  ot_did : N;
  ot_dyn : list (N * N);
  ot_ipc : list N;
  ot_handed : option N;
  ot_req : ranges;
  ot_cpu : N;
  ot_mem : N;
  ot_reuse : bool
}.
Inductive round_obs :=
| RCrash
| RDone (accepts : list (option (list otask)))   (* per offer, in offer order; None = no ACCEPT *)
        (declined : list N)                      (* offer ids in offer order *)
        (undeployed undeployable : list N).      (* descriptor indices, as the handler reports them *)

Inductive c05_case :=
| CSatisfy (a : attrs) (cts : list cstr) (obs : bool) (kept : bool)
| CMergeParent (own parent : list cstr) (obs : list cstr) (kept : bool)
| CParse (expr : str) (intended : option ranges) (obs : option ranges)
| CRangeOp (op : N) (rs : ranges) (lo hi : N) (rs2 : ranges) (obs : option N * ranges)
| CResSat (cpu mem : option N) (ports : portres) (wcpu wmem : N) (static : ranges) (nchans : N)
          (obs : bool) (kept : bool)
| CDesc (d : rawdesc) (obs_role obs_merged : list cstr)
        (obs_wants : option (N * N * ranges * list chan))
| CCache (ops : list (N * rawclass)) (obs : list (N * option klass))
| CRound (offers : list offer) (descs : list rawdesc) (exec_cpu exec_mem : N) (obs : round_obs).

(* CCache: a history of Classes.UpdateClass(key, class) calls on one class cache, then GetClass for
   every key that was written (and one that never was): [obs] is what GetClass returned. *)

(* ---- the task class cache between the template files and the scheduler ---- *)
(* Classes.UpdateClass: the entry of that identifier is overwritten, or added *)
Fixpoint cache_update {V} (k : N) (v : V) (c : list (N * V)) : list (N * V) :=
  match c with
  | [] => [(k, v)]
  | (k', v') :: r => if N.eqb k k' then (k, v) :: r else (k', v') :: cache_update k v r
  end.
(* Classes.GetClass *)
Definition cache_get {V} (k : N) (c : list (N * V)) : option V := assocN k c.
Definition cache_run {V} (ops : list (N * V)) : list (N * V) :=
  fold_left (fun c kv => cache_update (fst kv) (snd kv) c) ops [].
(* specification: "the template" is the class that was written LAST under that identifier *)
Definition last_written {V} (k : N) (ops : list (N * V)) : option V := assocN k (rev ops).

Definition klass_eqb (a b : klass) : bool :=
  list_eqb cstr_eqb (k_cts a) (k_cts b) && N.eqb (k_cpu a) (k_cpu b) && N.eqb (k_mem a) (k_mem b) &&
  ranges_eqb (k_static a) (k_static b) && list_eqb chan_eqb (k_bind a) (k_bind b) &&
  Bool.eqb (k_controllable a) (k_controllable b).

(* [kept]: the arguments handed to the function (and, for MergeParent, the spare capacity behind
   the parent slice) were found unchanged after the call.  The model functions are values-in,
   value-out; an implementation that writes into its arguments shares state between calls (the
   class constraints are handed to MergeParent for every descriptor of that class). *)

(* ---- permutations (schedules) ---- *)
Fixpoint insert_all {A} (x : A) (l : list A) : list (list A) :=
  match l with
  | [] => [[x]]
  | y :: r => (x :: l) :: map (cons y) (insert_all x r)
  end.
Fixpoint perms {A} (l : list A) : list (list A) :=
  match l with
  | [] => [[]]
  | x :: r => flat_map (insert_all x) (perms r)
  end.

(* ---- projection of a model outcome to the observable ---- *)
(* the channel list a task is built for is a function of its DESCRIPTOR: the inbound channels
   bound on the enclosing roles, then those of the class (GetWantsForDescriptor) *)
Definition desc_chans (d : desc) : list chan :=
  match d_class d with Some k => merge_inbound (d_rbind d) (k_bind k) | None => [] end.
Definition otask_of (t : task) : otask :=
  mkOT (d_id (t_desc t)) (t_dyn t)
       (map ch_name (filter (fun c => negb (ch_tcp c)) (desc_chans (t_desc t))))
       (t_handed t) (t_req t) (t_cpu t) (t_mem t) (t_reuse t).
Fixpoint find_accept (oid : N) (acc : list (offer * list task)) : option (list task) :=
  match acc with
  | [] => None
  | (o, ts) :: r => if N.eqb (o_id o) oid then Some ts else find_accept oid r
  end.
Definition obs_of (offers : list offer) (out : outcome) : round_obs :=
  match out with
  | Done acc dec still undep =>
    RDone (map (fun o => option_map (map otask_of) (find_accept (o_id o) acc)) offers)
          (filter (fun i => memN i dec) (map o_id offers))
          (map d_id still) (map d_id undep)
  end.

Definition pairN_eqb := pair_eqb N.eqb N.eqb.
Definition otask_eqb (a b : otask) : bool :=
  N.eqb (ot_did a) (ot_did b) && list_eqb pairN_eqb (ot_dyn a) (ot_dyn b) &&
  list_eqb N.eqb (ot_ipc a) (ot_ipc b) &&
  option_eqb N.eqb (ot_handed a) (ot_handed b) && ranges_eqb (ot_req a) (ot_req b) &&
  N.eqb (ot_cpu a) (ot_cpu b) && N.eqb (ot_mem a) (ot_mem b) && Bool.eqb (ot_reuse a) (ot_reuse b).
Definition robs_eqb (a b : round_obs) : bool :=
  match a, b with
  | RCrash, RCrash => true
  | RDone x d u1 v1, RDone y e u2 v2 =>
    list_eqb (option_eqb (list_eqb otask_eqb)) x y && list_eqb N.eqb d e &&
    list_eqb N.eqb u1 u2 && list_eqb N.eqb v1 v2
  | _, _ => false
  end.

(* mesos-go range operations driven directly: 0 sort+squash, 1 remove lo..hi from the canonical
   form, 2 min (None = panic), 3 size, 4 compare with rs2 *)
Definition range_op (op : N) (rs : ranges) (lo hi : N) (rs2 : ranges) : option N * ranges :=
  match op with
  | 0 => (None, canon rs)
  | 1 => (None, rremove (canon rs) lo hi)
  | 2 => (rmin (canon rs), [])
  | 3 => (Some (rsize (canon rs)), [])
  | _ => (Some (rcompare (canon rs) (canon rs2)), [])
  end.

Definition wants_of (d : rawdesc) : option (N * N * ranges * list chan) :=
  match rd_class d with
  | None => None
  | Some r => let k := class_of r in
              Some (k_cpu k, k_mem k, k_static k, merge_inbound (rd_rbind d) (k_bind k))
  end.

Definition corr05 (c : c05_case) : bool :=
  match c with
  | CSatisfy a cts obs kept => Bool.eqb (satisfy a cts) obs && kept
  | CMergeParent own parent obs kept => list_eqb cstr_eqb (merge_parent own parent) obs && kept
  | CParse e _ obs => option_eqb ranges_eqb (parse_ranges e) obs
  | CRangeOp op rs lo hi rs2 obs =>
    pair_eqb (option_eqb N.eqb) ranges_eqb (range_op op rs lo hi rs2) obs
  | CResSat cpu mem pr wc wm st n obs kept => Bool.eqb (res_satisfy cpu mem pr wc wm st n) obs && kept
  | CDesc d orole omerged owants =>
    list_eqb cstr_eqb (get_constraints (rd_levels d)) orole &&
    list_eqb cstr_eqb (desc_constraints (rd_levels d) (option_map rk_cts (rd_class d))) omerged &&
    option_eqb (pair_eqb (pair_eqb (pair_eqb N.eqb N.eqb) ranges_eqb) (list_eqb chan_eqb))
               (wants_of d) owants
  | CCache ops obs =>
    forallb (fun ko => option_eqb klass_eqb (option_map class_of (cache_get (fst ko) (cache_run ops)))
                                  (snd ko)) obs
  | CRound offers rds ec em obs =>
    let ds := descs_of rds in
    existsb (fun sched => robs_eqb (obs_of offers (run_round (ec, em) offers sched ds)) obs)
            (perms offers)
  end.

(* ================================================================ the monitor *)
(* The property evaluated on what the implementation did.  Nothing below calls satisfy,
   merge_parent, get_constraints, res_satisfy, make_task or run_round. *)

(* attributes mentioned anywhere in the levels *)
Definition mentioned (lv : list (list cstr)) : list str := flat_map attrs_of lv.

(* the constraints that apply to a descriptor: for each mentioned attribute its nearest
   definition (class constraints are the farthest level) *)
Definition applicable (lv : list (list cstr)) : list cstr :=
  flat_map (fun a => match nearest a lv with Some v => [mkC a v 0] | None => [] end) (mentioned lv).

Definition count_attr (a : str) (l : list cstr) : nat := length (filter (fun c => str_eqb (c_attr c) a) l).
(* the top-level role's own list names this attribute more than once *)
Definition top_dup (a : str) (levels : list (list cstr)) : bool :=
  match rev levels with
  | top :: _ => Nat.ltb 1 (count_attr a top)
  | [] => false
  end.

(* code of the first applicable constraint that [holds] rejects: 1, or 12 when its attribute is
   named twice by the top-level role (C05-e) *)
Fixpoint first_unmet (holds : cstr -> bool) (levels : list (list cstr)) (l : list cstr) : N :=
  match l with
  | [] => 0
  | c :: r => if holds c then first_unmet holds levels r
              else if top_dup (c_attr c) levels then 12 else 1
  end.

Definition has_c (l : list cstr) (c : cstr) : bool :=
  existsb (fun x => str_eqb (c_attr x) (c_attr c) && str_eqb (c_val x) (c_val c)) l.

(* first non-zero code *)
Fixpoint first_code (l : list N) : N :=
  match l with
  | [] => 0
  | c :: r => if N.eqb c 0 then first_code r else c
  end.

Definition ranges_subset (x y : ranges) : bool :=
  (* every port of x is a port of y; x, y need not be canonical: check range ends against the
     canonical form of y *)
  let y' := canon y in forallb (fun a => (snd a <? fst a) || existsb (within a) y') (canon x).
Definition ranges_disjoint (x y : ranges) : bool :=
  forallb (fun a => forallb (fun b => (snd a <? fst b) || (snd b <? fst a)) y) x.

Definition subtract_all (x : ranges) (rem : ranges) : ranges :=
  fold_left (fun acc r => rremove acc (fst r) (snd r)) rem x.

Definition opt_ports (pr : portres) : ranges := match pr with Some r => r | None => [] end.

Definition n_tcp (l : list chan) : N := Nlen (filter ch_tcp l).

(* channels of a descriptor: channels are identified by name; the role's inbound channels come
   first, then those of the class; a name counts once (first occurrence) *)
Fixpoint dedup_chans (seen : list N) (l : list chan) : list chan :=
  match l with
  | [] => []
  | c :: r => if memN (ch_name c) seen then dedup_chans seen r
              else c :: dedup_chans (ch_name c :: seen) r
  end.
Definition spec_chans (rd : rawdesc) (rk : rawclass) : list chan :=
  dedup_chans [] (rd_rbind rd ++ rk_bind rk).

(* per task on an offer *)
Definition mon_task (o : offer) (rds : list rawdesc) (t : otask) : N :=
  match nth_error rds (N.to_nat (ot_did t)) with
  | None => 9
  | Some rd =>
    match rd_class rd with
    | None => 9                              (* a task without a class was launched *)
    | Some rk =>
      let lv := rd_levels rd ++ [rk_cts rk] in
      let c1 := first_unmet (sat1 (o_attrs o)) (rd_levels rd) (applicable lv) in
      let offered := opt_ports (o_ports o) in
      let dynp := map snd (ot_dyn t) in
      let c6 := match o_cpu o, o_mem o with
                | Some c, Some m => if (c <? rk_cpu rk) || (m <? rk_mem rk) then 6 else 0
                | _, _ => 6
                end in
      (* static ranges exactly as written: all of them requested, and nothing requested beyond
         them, the dynamic ports and the control port (one port the task is not told about when
         it is not controllable) *)
      let known := rk_intended rk ++ map span1 dynp ++
                   match ot_handed t with Some p => [span1 p] | None => [] end in
      let extra := rsize (subtract_all (canon (ot_req t)) known) in
      let c2 := if ranges_subset (rk_intended rk) (ot_req t) &&
                   (extra <=? (if rk_controllable rk then 0 else 1))
                then 0 else 2 in
      let c7 := if ranges_subset (ot_req t) offered && ranges_subset (map span1 dynp) offered &&
                   match ot_handed t with Some p => inr p offered | None => true end
                then 0 else 7 in
      (* one dynamic port per inbound TCP channel, one IPC endpoint per inbound IPC channel of THIS
         task's channel list as the workflow and the class spell it - no channel of another task *)
      let c8 := if list_eqb N.eqb (map fst (ot_dyn t)) (map ch_name (filter ch_tcp (spec_chans rd rk))) &&
                   list_eqb N.eqb (ot_ipc t)
                            (map ch_name (filter (fun c => negb (ch_tcp c)) (spec_chans rd rk)))
                then 0 else 8 in
      let c9 := if N.eqb (Nlen dynp) (n_tcp (spec_chans rd rk)) &&
                   Bool.eqb (match ot_handed t with Some _ => true | None => false end)
                            (rk_controllable rk) &&
                   forallb (fun p => inr p (ot_req t)) dynp &&
                   match ot_handed t with Some p => inr p (ot_req t) | None => true end
                then 0 else 9 in
      first_code [c1; c6; c2; c7; c8; c9]
    end
  end.

(* ports handed out on one agent: (port range, is_static) per task *)
Definition static_of (rds : list rawdesc) (t : otask) : ranges :=
  match nth_error rds (N.to_nat (ot_did t)) with
  | Some rd => match rd_class rd with Some rk => rk_intended rk | None => [] end
  | None => []
  end.
Definition picked_of (t : otask) : list N :=
  map snd (ot_dyn t) ++ match ot_handed t with Some p => [p] | None => [] end.

(* pairwise distinctness on one agent: 5 two dynamic/control ports coincide; 3 a static range
   meets a dynamic/control port or a static range of another task (C05-c, repaired: regression guard) *)
Fixpoint nodupN (l : list N) : bool :=
  match l with [] => true | x :: r => negb (memN x r) && nodupN r end.
Fixpoint statics_disjoint (l : list ranges) : bool :=
  match l with
  | [] => true
  | x :: r => forallb (ranges_disjoint x) r && statics_disjoint r
  end.
Definition mon_agent_ports (rds : list rawdesc) (ts : list otask) : N :=
  let picked := flat_map picked_of ts in
  if negb (nodupN picked) then 5
  else
    let statics := map (static_of rds) ts in
    if forallb (fun s => forallb (fun p => negb (inr p s)) picked) statics && statics_disjoint statics
    then 0 else 3.

Definition wants_cpu (rds : list rawdesc) (t : otask) : N :=
  match nth_error rds (N.to_nat (ot_did t)) with
  | Some rd => match rd_class rd with Some rk => rk_cpu rk | None => 0 end
  | None => 0
  end.
Definition wants_mem (rds : list rawdesc) (t : otask) : N :=
  match nth_error rds (N.to_nat (ot_did t)) with
  | Some rd => match rd_class rd with Some rk => rk_mem rk | None => 0 end
  | None => 0
  end.
Definition sumN (l : list N) : N := fold_right N.add 0 l.

(* what all tasks of one offer ask for does not exceed the offer: 4 = two or more tasks whose
   template wants add up to more cpu or memory than offered (C05-d, repaired: regression guard); 13 = the
   TaskInfo totals (template wants + executor share per task) exceed the offer although the
   template wants do not (known finding C05-h) *)
Definition mon_offer_sum (o : offer) (rds : list rawdesc) (ts : list otask) : N :=
  match o_cpu o, o_mem o with
  | Some c, Some m =>
    if (c <? sumN (map (wants_cpu rds) ts)) || (m <? sumN (map (wants_mem rds) ts)) then
      (match ts with _ :: _ :: _ => 4 | _ => 6 end)
    else if (c <? sumN (map ot_cpu ts)) || (m <? sumN (map ot_mem ts)) then 13
    else 0
  | _, _ => match ts with [] => 0 | _ => 6 end
  end.

Definition total_alloc (rds : list rawdesc) : N :=
  sumN (map (fun rd => match rd_class rd with
                       | Some rk => 1 + n_tcp (spec_chans rd rk)
                       | None => 0 end) rds).

Fixpoint zip3 {A B} (a : list A) (b : list B) : list (A * B) :=
  match a, b with
  | x :: a', y :: b' => (x, y) :: zip3 a' b'
  | _, _ => []
  end.

Definition tasks_of_obs (x : option (list otask)) : list otask :=
  match x with Some ts => ts | None => [] end.

(* decline discipline: 14 an offer with a launched task is declined; 15 an offer without a
   launched task is not declined; 16 the same when the offer's ports could have been used up by
   the round's port picks (C05-f, repaired: regression guard; the offer was taken out of the decline set and the
   task then abandoned) *)
Definition mon_decline (rds : list rawdesc) (declined : list N) (ox : offer * option (list otask)) : N :=
  let '(o, x) := ox in
  let used := match tasks_of_obs x with [] => false | _ => true end in
  let decl := memN (o_id o) declined in
  if used && decl then 14
  else if negb used && negb decl then
    (if rsize (canon (opt_ports (o_ports o))) <=? total_alloc rds then 16 else 15)
  else 0.

(* the Ranges.Min panic needs an offer that cannot serve all picks of the round from the ports
   above the cut-offs: 20 (C05-g, repaired: regression guard); any other crash: 21 *)
Definition crash_explicable (offers : list offer) (rds : list rawdesc) : bool :=
  existsb (fun o =>
             let ps := canon (opt_ports (o_ports o)) in
             (rsize (rremove ps 0 control_port_floor) <? Nlen rds) ||
             (rsize (rremove ps 0 data_port_floor) <? total_alloc rds)) offers.

Definition group_by_agent (oxs : list (offer * option (list otask))) : list (list otask) :=
  map (fun a => flat_map (fun ox => if N.eqb (o_agent (fst ox)) a then tasks_of_obs (snd ox) else [])
                         oxs)
      (nodup N.eq_dec (map (fun ox => o_agent (fst ox)) oxs)).

Definition mon_round (offers : list offer) (rds : list rawdesc) (obs : round_obs) : N :=
  match obs with
  | RCrash => if crash_explicable offers rds then 20 else 21
  | RDone acc declined _ _ =>
    let oxs := zip3 offers acc in
    let per_task := flat_map (fun ox => map (mon_task (fst ox) rds) (tasks_of_obs (snd ox))) oxs in
    let per_agent := map (mon_agent_ports rds) (group_by_agent oxs) in
    let per_offer := map (fun ox => mon_offer_sum (fst ox) rds (tasks_of_obs (snd ox))) oxs in
    let decl := map (mon_decline rds declined) oxs in
    first_code (per_task ++ per_agent ++ per_offer ++ decl)
  end.

Definition mon05 (c : c05_case) : N :=
  match c with
  | CSatisfy a cts obs kept =>
    (* Satisfy said yes although an (Equals) constraint is not met; 11: it wrote into its arguments *)
    if negb kept then 11 else
    if obs && negb (sat_all a (filter is_equals cts)) then 1 else 0
  | CMergeParent own parent obs kept =>
    (* 11: the call changed its receiver, the parent list or the spare capacity behind it;
       with a duplicate-free parent every attribute reads as: own (last entry) else parent *)
    if negb kept then 11 else
    if nodup_attrs parent then
      if forallb (fun a => option_eqb str_eqb (lookup_c a obs)
                                      (match level_def a own with
                                       | Some v => Some v
                                       | None => lookup_c a parent end))
                 (attrs_of own ++ attrs_of parent) && nodup_attrs obs
      then 0 else 10
    else 0
  | CParse _ intended obs =>
    match intended with
    | Some rs => if option_eqb ranges_eqb obs (Some rs) then 0 else 2
    | None => 0
    end
  | CRangeOp _ _ _ _ _ _ => 0
  | CResSat cpu mem pr wc wm st n obs kept =>
    if negb kept then 11 else
    if obs then
      match cpu, mem, pr with
      | Some c, Some m, Some raw =>
        if (c <? wc) || (m <? wm) || negb (ranges_subset st raw) || (rsize (canon raw) <? rsize (canon st) + n)
        then 6 else 0
      | _, _, _ => 6
      end
    else 0
  | CDesc d _ omerged _ =>
    (* every applicable (nearest) definition is in the merged list, and the merged list invents
       nothing *)
    let lv := all_levels (rd_levels d) (option_map rk_cts (rd_class d)) in
    let c1 := first_unmet (has_c omerged) (rd_levels d) (applicable lv) in
    let c10 := if forallb (fun c => existsb (fun l => has_c l c) lv) omerged then 0 else 10 in
    first_code [match c1 with 1 => 10 | x => x end; c10]
  | CCache ops obs =>
    (* 17: GetClass does not give the class written last under that identifier (a stale, lost or
       mixed-up template would be used for placement) *)
    if forallb (fun ko => option_eqb klass_eqb (option_map class_of (last_written (fst ko) ops)) (snd ko)) obs
    then 0 else 17
  | CRound offers rds _ _ obs => mon_round offers rds obs
  end.

(* ================================================================ branch tags *)
Definition b2n (b : bool) : N := if b then 1 else 0.
Definition has_dup_attr (l : list cstr) : bool := negb (nodup_attrs l).
Definition N_of_nat_cap (n : nat) (cap : N) : N := N.min (N.of_nat n) cap.

Definition tag_round (offers : list offer) (rds : list rawdesc) (obs : round_obs) : N :=
  match obs with
  | RCrash => 799
  | RDone acc declined _ _ =>
    let launched := flat_map tasks_of_obs acc in
    let ds := descs_of rds in
    700 + b2n (match launched with [] => false | _ => true end)
        + 2 * b2n (match declined with [] => false | _ => true end)
        + 4 * b2n (existsb (fun x => match tasks_of_obs x with _ :: _ :: _ => true | _ => false end) acc)
        + 8 * b2n (existsb (fun d => negb (is_pin_none (pin_of offers d))) ds)
        + 16 * b2n (existsb (fun d => is_pin_nowhere (pin_of offers d)) ds)
        + 32 * b2n (Nat.ltb (length launched) (length rds))
  end.

Definition tag05 (c : c05_case) : N :=
  match c with
  | CSatisfy a cts obs _ =>
    100 + b2n obs + 2 * b2n (Nat.ltb 1 (length cts))
        + 4 * b2n (existsb (fun x => has_comma (snd x)) a)
        + 8 * b2n (negb (sat_all a (filter is_equals cts)))
        + 16 * b2n (match rev cts with
                    | l :: _ => sat1 a l && negb (sat_all a (filter is_equals cts))
                    | [] => false end)
        + 32 * b2n (existsb (fun c => negb (is_equals c)) cts)
  | CMergeParent own parent _ _ =>
    200 + b2n (existsb (fun c => mem_str (c_attr c) (attrs_of parent)) own)
        + 2 * b2n (has_dup_attr own) + 4 * b2n (has_dup_attr parent)
  | CParse _ intended obs =>
    300 + b2n (match obs with Some _ => true | None => false end)
        + 2 * b2n (match intended with Some _ => true | None => false end)
        + 4 * b2n (match obs with Some (_ :: _ :: _) => true | _ => false end)
  | CRangeOp op _ _ _ _ _ => 400 + op
  | CResSat cpu mem pr wc wm st n obs _ =>
    500 + b2n obs
        + 2 * b2n (match cpu with Some c => c <? wc | None => true end)
        + 4 * b2n (match mem with Some m => m <? wm | None => true end)
        + 8 * b2n (match pr with Some raw => negb (ranges_subset st raw) | None => true end)
        + 16 * b2n (match st with [] => false | _ => true end)
  | CDesc d _ _ _ =>
    600 + N_of_nat_cap (length (rd_levels d)) 7
        + 8 * b2n (match rd_class d with Some _ => true | None => false end)
        + 16 * b2n (existsb has_dup_attr (rd_levels d))
        + 32 * b2n (match rd_class d with Some rk => has_dup_attr (rk_cts rk) | None => false end)
  | CCache ops obs =>
    900 + N.min (Nlen ops) 7
        + 8 * b2n (negb (nodupb N.eqb (map fst ops)))      (* some identifier written more than once *)
        + 16 * b2n (existsb (fun ko => match snd ko with None => true | _ => false end) obs)
  | CRound offers rds _ _ obs => tag_round offers rds obs
  end.

Definition report05 := report corr05 mon05 tag05.
