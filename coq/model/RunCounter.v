(* Model of the run-number counter:
     configuration/cfgbackend/consulsource.go : GetNextUInt32  (consistent read, +1, CAS on ModifyIndex)
     apricot/local/service.go                 : NewRunNumber   (Consul branch and file branch)
     core/environment/environment.go          : before_event, START_ACTIVITY cancelled without a number
   and of the part of Consul's KV store the code relies on (value + ModifyIndex, cas=0 creates).
   Concurrency is a schedule: a list of [step]s, each of which is one atomic action at the
   shared store (one HTTP request served, one foreign write, one death of a caller).
   Definitions only; the proofs are in proofs/RunCounter_proofs.v. *)
From Verif Require Export Common.
From Coq Require Export Sorted.
Open Scope N_scope.

(* ---------- decimal strings: strconv.FormatUint(_,10) / strconv.ParseUint(_,10,32) ---------- *)
Fixpoint uint_bytes (u : Decimal.uint) : str :=
  match u with
  | Decimal.Nil => []
  | Decimal.D0 r => 48 :: uint_bytes r
  | Decimal.D1 r => 49 :: uint_bytes r
  | Decimal.D2 r => 50 :: uint_bytes r
  | Decimal.D3 r => 51 :: uint_bytes r
  | Decimal.D4 r => 52 :: uint_bytes r
  | Decimal.D5 r => 53 :: uint_bytes r
  | Decimal.D6 r => 54 :: uint_bytes r
  | Decimal.D7 r => 55 :: uint_bytes r
  | Decimal.D8 r => 56 :: uint_bytes r
  | Decimal.D9 r => 57 :: uint_bytes r
  end.

Definition digit_cons (c : N) (u : Decimal.uint) : option Decimal.uint :=
  if c =? 48 then Some (Decimal.D0 u) else
  if c =? 49 then Some (Decimal.D1 u) else
  if c =? 50 then Some (Decimal.D2 u) else
  if c =? 51 then Some (Decimal.D3 u) else
  if c =? 52 then Some (Decimal.D4 u) else
  if c =? 53 then Some (Decimal.D5 u) else
  if c =? 54 then Some (Decimal.D6 u) else
  if c =? 55 then Some (Decimal.D7 u) else
  if c =? 56 then Some (Decimal.D8 u) else
  if c =? 57 then Some (Decimal.D9 u) else None.

(* only the bytes '0'..'9' are accepted: no sign, no blank, no underscore (base is given) *)
Fixpoint bytes_uint (s : str) : option Decimal.uint :=
  match s with
  | [] => Some Decimal.Nil
  | c :: r => match bytes_uint r with
              | None => None
              | Some u => digit_cons c u
              end
  end.

Definition fmt_u (n : N) : str := uint_bytes (N.to_uint n).

Definition two32 : N := 4294967296.
Definition max_u32 : N := 4294967295.

(* ParseUint(s, 10, 32): error on the empty string, on any non-digit, and on a value >= 2^32 *)
Definition parse_u32 (s : str) : option N :=
  match s with
  | [] => None
  | _ => match bytes_uint s with
         | None => None
         | Some u => let n := N.of_uint u in if n <? two32 then Some n else None
         end
  end.

(* value++ on a uint32: wraps at 2^32 *)
Definition incr32 (v : N) : N := (v + 1) mod two32.
(* "value++; if value == 0 { err = ...; return }": [None] is the error return, taken exactly
   when the uint32 wrapped, i.e. when the stored counter stood at 2^32-1 *)
Definition next32 (v : N) : option N := let n := incr32 v in if n =? 0 then None else Some n.

(* ---------- the Consul key: value bytes + ModifyIndex, and the raft index ---------- *)
Record store := mkStore { st_kv : option (str * N); st_clock : N }.

(* every write gets a fresh, strictly larger index *)
Definition write (s : store) (b : str) : store :=
  let c := N.succ (st_clock s) in mkStore (Some (b, c)) c.

Definition delete (s : store) : store :=
  match st_kv s with
  | None => s
  | Some _ => mkStore None (N.succ (st_clock s))
  end.

(* PUT ?cas=idx : idx = 0 means "only if the key does not exist", otherwise the key must exist
   with exactly that ModifyIndex *)
Definition cas_applies (s : store) (idx : N) : bool :=
  match st_kv s with
  | None => idx =? 0
  | Some (_, i) => negb (idx =? 0) && (i =? idx)
  end.

(* the counter value the store stands for (0 when absent or not a number) *)
Definition cur (s : store) : N :=
  match st_kv s with
  | Some (b, _) => match parse_u32 b with Some v => v | None => 0 end
  | None => 0
  end.

(* ---------- callers of GetNextUInt32 ---------- *)
Inductive cstate :=
| Idle                        (* GET not yet served *)
| HasRead (n : N) (idx : N)   (* holds the incremented value [n] and the ModifyIndex it read *)
| Done (r : option N)         (* returned: a number, or an error *)
| Dead.                       (* died; returns nothing *)

(* what GetNextUInt32 does with the answer to its read *)
Definition bump (v idx : N) : cstate :=
  match next32 v with
  | Some n => HasRead n idx
  | None => Done None                          (* counter exhausted: returned before any CAS *)
  end.

Definition after_read (kv : option (str * N)) : cstate :=
  match kv with
  | None => match parse_u32 [48] with          (* kvp = {Value: "0", ModifyIndex: 0} *)
            | Some v => bump v 0
            | None => Done None
            end
  | Some (b, idx) => match parse_u32 b with
                     | Some v => bump v idx
                     | None => Done None       (* ParseUint error: returned before any CAS *)
                     end
  end.

Definition callers := list (N * cstate).
Definition get (cs : callers) (i : N) : cstate :=
  match assocN i cs with Some c => c | None => Idle end.
Definition upd (cs : callers) (i : N) (c : cstate) : callers := (i, c) :: cs.

(* semantic events, newest first *)
Inductive ev :=
| EvRead (i : N)          (* caller i's read was served *)
| EvRet (i n : N)         (* caller i's CAS was applied and it returns n *)
| EvLost (i n : N).       (* caller i's CAS was applied but i never learns it (reply lost / died) *)

(* what the KV server sees, newest first *)
Inductive lentry :=
| LGet (i : N) (consistent : bool) (mode : N) (ret : option (str * N))
| LPut (i : N) (cas : N) (body : str) (mode : N) (applied : bool)
| LFPut (v : str)          (* foreign write *)
| LFDel.                   (* foreign delete *)

(* scheduler choices.  mode numbers in the log: 0 served, 1 failed, 2 lost, 3 crash *)
Inductive step :=
| SServe (i : N)     (* the pending request of caller i is served *)
| SFail (i : N)      (* ... is answered with an error and has no effect *)
| SLost (i : N)      (* ... takes effect but the caller gets an error instead of the answer *)
| SCrash (i : N)     (* caller i dies; its pending request has no effect *)
| SPut (v : str)     (* somebody else writes the key unconditionally *)
| SDel.              (* somebody else deletes the key *)

Record state := mkState { s_store : store; s_callers : callers; s_trace : list ev; s_log : list lentry }.

Definition step_caller (st : state) (i : N) (mode : N) : state :=
  let s := s_store st in
  let cs := s_callers st in
  match get cs i with
  | Idle =>
      if mode =? 0
      then mkState s (upd cs i (after_read (st_kv s))) (EvRead i :: s_trace st)
                   (LGet i true 0 (st_kv s) :: s_log st)
      else mkState s (upd cs i (if mode =? 3 then Dead else Done None)) (s_trace st)
                   (LGet i true mode None :: s_log st)
  | HasRead n idx =>
      let body := fmt_u n in
      if (mode =? 0) || (mode =? 2) then
        if cas_applies s idx
        then mkState (write s body)
                     (upd cs i (if mode =? 0 then Done (Some n) else Done None))
                     ((if mode =? 0 then EvRet i n else EvLost i n) :: s_trace st)
                     (LPut i idx body mode true :: s_log st)
        else mkState s (upd cs i (Done None)) (s_trace st) (LPut i idx body mode false :: s_log st)
      else mkState s (upd cs i (if mode =? 3 then Dead else Done None)) (s_trace st)
                   (LPut i idx body mode false :: s_log st)
  | Done _ => st
  | Dead => st
  end.

Definition do_step (st : state) (x : step) : state :=
  match x with
  | SServe i => step_caller st i 0
  | SFail i => step_caller st i 1
  | SLost i => step_caller st i 2
  | SCrash i => step_caller st i 3
  | SPut v => mkState (write (s_store st) v) (s_callers st) (s_trace st) (LFPut v :: s_log st)
  | SDel => mkState (delete (s_store st)) (s_callers st) (s_trace st) (LFDel :: s_log st)
  end.

Definition init (s0 : store) : state := mkState s0 [] [] [].
Definition run (st : state) (sched : list step) : state := fold_left do_step sched st.

(* chronological views *)
Definition ev_consumed (e : ev) : list N :=
  match e with EvRead _ => [] | EvRet _ n => [n] | EvLost _ n => [n] end.
Definition ev_handed (e : ev) : list N :=
  match e with EvRet _ n => [n] | _ => [] end.
Definition chron (st : state) : list ev := rev (s_trace st).
(* every number taken out of the counter, in the order of the writes *)
Definition consumed (st : state) : list N := flat_map ev_consumed (chron st).
(* the numbers returned to callers, in the order of the writes *)
Definition handed (st : state) : list N := flat_map ev_handed (chron st).
Definition result (st : state) (i : N) : option N :=
  match get (s_callers st) i with Done (Some n) => Some n | _ => None end.

(* ---------- hypotheses about the rest of the world, threaded along the run ---------- *)
Definition wf_store (s : store) : Prop :=
  match st_kv s with Some (_, i) => 1 <= i /\ i <= st_clock s | None => True end.

Definition step_ok (st : state) (x : step) : Prop :=
  match x with
  | SPut v => exists m, parse_u32 v = Some m /\ cur (s_store st) <= m
        (* other writers never lower the counter and never store a non-number *)
  | SDel => cur (s_store st) = 0
  | _ => True   (* nothing is assumed about callers, failures, deaths, or the counter's value *)
  end.

Fixpoint env_ok (st : state) (sched : list step) : Prop :=
  match sched with
  | [] => True
  | x :: r => step_ok st x /\ env_ok (do_step st x) r
  end.

Fixpoint nseq (k : nat) (from : N) : list N :=
  match k with O => [] | S k' => from :: nseq k' (N.succ from) end.

(* ---------- file backend: Lock ; os.Stat / WriteFile "0" ; ReadFile ; WriteFile ; Unlock ---------- *)
(* All callers are goroutines of ONE process using ONE Service: its runCounterMu is the lock.
   Two processes sharing a working directory are not covered (nor is it by the code).
   ioutil.WriteFile is open-with-O_TRUNC (or create) THEN write: two steps, the file is empty in
   between.  The process may die at any point ([FCrash]): every call in flight is gone, the mutex
   with it, the file stays as it is; a later process (a restarted core) works on what it finds. *)
Inductive fcstate :=
| FIdle
| FCreating                (* holds the lock; created the file, empty, "0" not yet written *)
| FChecked                 (* holds the lock; the file exists *)
| FHasRead (n : N)         (* holds the lock and the incremented value *)
| FTrunc (n : N)           (* holds the lock; has truncated the file, n not yet written *)
| FDone (r : option N).

Record fstate := mkF { f_file : option str; f_lock : option N;
                       f_callers : list (N * fcstate); f_rets : list (N * N) }.

Definition fget (cs : list (N * fcstate)) (i : N) : fcstate :=
  match assocN i cs with Some c => c | None => FIdle end.

(* one step of caller i; a caller that finds the mutex taken does not move *)
Definition fstep (st : fstate) (i : N) : fstate :=
  let cs := f_callers st in
  match fget cs i with
  | FIdle =>
      match f_lock st with
      | Some _ => st
      | None => match f_file st with
                | None => mkF (Some []) (Some i) ((i, FCreating) :: cs) (f_rets st)
                | Some b => mkF (Some b) (Some i) ((i, FChecked) :: cs) (f_rets st)
                end
      end
  | FCreating => mkF (Some [48]) (f_lock st) ((i, FChecked) :: cs) (f_rets st)
  | FChecked =>
      match f_file st with
      | None => mkF None None ((i, FDone None) :: cs) (f_rets st)
      | Some b => match parse_u32 b with
                  | None => mkF (f_file st) None ((i, FDone None) :: cs) (f_rets st)
                  | Some v => match next32 v with
                              | None => mkF (f_file st) None ((i, FDone None) :: cs) (f_rets st)
                              | Some n => mkF (f_file st) (f_lock st) ((i, FHasRead n) :: cs) (f_rets st)
                              end
                  end
      end
  | FHasRead n => mkF (Some []) (f_lock st) ((i, FTrunc n) :: cs) (f_rets st)
  | FTrunc n => mkF (Some (fmt_u n)) None ((i, FDone (Some n)) :: cs) ((i, n) :: f_rets st)
  | FDone _ => st
  end.

(* scheduler choices: a step of caller i, or the death of the process.  [FCrash None]: the file
   stays as the dying calls left it (old value, EMPTY between truncate and write, new value);
   [FCrash (Some b)]: afterwards the file holds b, whatever b is (corruption at system level, an
   operator, a torn write of another kind) *)
Inductive fev := FS (i : N) | FCrash (c : option str).

Definition fkill (c : fcstate) : fcstate :=
  match c with FIdle => FIdle | FDone r => FDone r | _ => FDone None end.

Definition fdo (st : fstate) (e : fev) : fstate :=
  match e with
  | FS i => fstep st i
  | FCrash c =>
      mkF (match c with None => f_file st | Some b => Some b end) None
          (map (fun jc => (fst jc, fkill (snd jc))) (f_callers st)) (f_rets st)
  end.

Definition finit (f : option str) : fstate := mkF f None [] [].
Definition frun (st : fstate) (sched : list fev) : fstate := fold_left fdo sched st.
(* numbers returned, in the order of the writes *)
Definition fhanded (st : fstate) : list N := map snd (rev (f_rets st)).
(* every call runs to completion before the next one starts (5 steps at most) *)
Definition fserial (ids : list N) : list fev := flat_map (fun i => [FS i; FS i; FS i; FS i; FS i]) ids.
Definition fcur (f : option str) : N :=
  match f with Some b => match parse_u32 b with Some v => v | None => 0 end | None => 0 end.
(* the value a start would read: an absent file is created with "0"; [None]: the start fails *)
Definition fval (f : option str) : option N :=
  match f with None => Some 0 | Some b => parse_u32 b end.

(* the hypothesis about a file content that appears from outside: it does not read as a valid
   number below what was handed out (that is a lowered counter, it defeats any protocol).
   Nothing is assumed about contents that do not read as a number: the start must fail on them. *)
Definition fev_ok (v0 : N) (st : fstate) (e : fev) : Prop :=
  match e with
  | FCrash (Some b) =>
      match parse_u32 b with
      | None => True
      | Some m => v0 <= m /\ Forall (fun r => r <= m) (map snd (f_rets st))
      end
  | _ => True
  end.
Fixpoint fenv_ok (v0 : N) (st : fstate) (sched : list fev) : Prop :=
  match sched with
  | [] => True
  | e :: r => fev_ok v0 st e /\ fenv_ok v0 (fdo st e) r
  end.
Definition no_crash (sched : list fev) : Prop :=
  Forall (fun e => match e with FS _ => True | FCrash _ => False end) sched.

(* the same read-modify-write WITHOUT the mutex (the code before the repair): used only to show
   that the lock is what makes the theorem true *)
Definition fstep_nolock (st : fstate) (i : N) : fstate :=
  let cs := f_callers st in
  match fget cs i with
  | FIdle =>
      mkF (match f_file st with None => Some [48] | Some b => Some b end) None
          ((i, FChecked) :: cs) (f_rets st)
  | FChecked =>
      match f_file st with
      | None => mkF None None ((i, FDone None) :: cs) (f_rets st)
      | Some b => match parse_u32 b with
                  | None => mkF (f_file st) None ((i, FDone None) :: cs) (f_rets st)
                  | Some v => match next32 v with
                              | None => mkF (f_file st) None ((i, FDone None) :: cs) (f_rets st)
                              | Some n => mkF (f_file st) None ((i, FHasRead n) :: cs) (f_rets st)
                              end
                  end
      end
  | FHasRead n => mkF (Some (fmt_u n)) None ((i, FDone (Some n)) :: cs) ((i, n) :: f_rets st)
  | _ => st
  end.
Definition frun_nolock (st : fstate) (sched : list N) : fstate := fold_left fstep_nolock sched st.

(* a reader that forgives: blanks and newlines are dropped and an empty file reads as "0" (NOT
   what the code does): used only to show that failing on a torn file is what makes the theorem
   true across a crash *)
Definition lenient (b : str) : str :=
  match filter (fun c => negb ((c =? 32) || (c =? 10) || (c =? 13) || (c =? 9))) b with
  | [] => [48]
  | t => t
  end.
Definition fstep_lenient (st : fstate) (i : N) : fstate :=
  match fget (f_callers st) i, f_file st with
  | FChecked, Some b => fstep (mkF (Some (lenient b)) (f_lock st) (f_callers st) (f_rets st)) i
  | _, _ => fstep st i
  end.
Definition fdo_lenient (st : fstate) (e : fev) : fstate :=
  match e with FS i => fstep_lenient st i | FCrash _ => fdo st e end.
Definition frun_lenient (st : fstate) (sched : list fev) : fstate := fold_left fdo_lenient sched st.

(* ----- lives of the process, as the harness drives them: k calls one after the other, then the
   process ends: a plain restart, a further call that dies inside its write-back (after the
   truncate), one that dies while creating the file, or a restart that finds another content *)
Inductive fend := ERestart | EDieInWrite | EDieInCreate | ECorrupt (b : str).

Definition fend_sched (st : fstate) (c : N) (e : fend) : list fev :=
  match e with
  | ERestart => [FCrash None]
  | EDieInWrite =>          (* lock (+create, write "0"), read, truncate — then death *)
      match f_file st with
      | None => [FS c; FS c; FS c; FS c; FCrash None]
      | Some _ => [FS c; FS c; FS c; FCrash None]
      end
  | EDieInCreate =>
      match f_file st with
      | None => [FS c; FCrash None]
      | Some _ => [FCrash None]
      end
  | ECorrupt b => [FCrash (Some b)]
  end.

Definition fres (st : fstate) (i : N) : option N :=
  match fget (f_callers st) i with FDone r => r | _ => None end.

(* returns the final state, the whole schedule, and what each call of each life returned *)
Fixpoint flives (st : fstate) (c : N) (lives : list (N * fend))
  : fstate * list fev * list (list (option N)) :=
  match lives with
  | [] => (st, [], [])
  | (k, e) :: r =>
      let ids := nseq (N.to_nat k) c in
      let s1 := fserial ids in
      let st1 := frun st s1 in
      let res := map (fres st1) ids in
      let c' := c + k in
      let s2 := fend_sched st1 c' e in
      let '(stf, sr, rr) := flives (frun st1 s2) (N.succ c') r in
      (stf, s1 ++ s2 ++ sr, res :: rr)
  end.

(* ---------- the glue: remote apricot client -> gRPC server wrapper -> the service ---------- *)
(* apricot/remote/server.go RpcServer.NewRunNumber answers with the number AND the error of the
   service's NewRunNumber; apricot/remote/service.go RemoteService.NewRunNumber returns the number
   of the reply when the RPC succeeded and an error in every other case.  [reply]: None = the RPC
   did not get through (server stopped, Unavailable), Some r = what the service returned. *)
Definition remote_client (reply : option (option N)) : option N :=
  match reply with Some (Some n) => Some n | _ => None end.

(* the harness' operations: a call through the client; the server is stopped; a new server and a
   new client are started on the same service; the counter file gets another content *)
Inductive rop := RCall | RStop | RStart | RSet (b : str).
(* per operation: what the client returned, what the service's NewRunNumber returned meanwhile *)
Fixpoint rrun (st : fstate) (up : bool) (c : N) (ops : list rop) : list (option N * list (option N)) :=
  match ops with
  | [] => []
  | RCall :: r =>
      if up then
        let st' := frun st (fserial [c]) in
        let x := fres st' c in
        (remote_client (Some x), [x]) :: rrun st' up (N.succ c) r
      else (remote_client None, []) :: rrun st up c r
  | RStop :: r => (None, []) :: rrun st false c r
  | RStart :: r => (None, []) :: rrun st true c r
  | RSet b :: r => (None, []) :: rrun (fdo st (FCrash (Some b))) up c r
  end.

(* ---------- START_ACTIVITY in the environment state machine (before_event only) ---------- *)
(* environment states as numbers: 0 STANDBY 1 DEPLOYED 2 CONFIGURED 3 RUNNING 4 DONE 5 ERROR *)
Definition E_CONFIGURED : N := 2.
Definition E_RUNNING : N := 3.
Record envst := mkEnv { e_state : N; e_rn : N }.

(* [neg_ok]: before_START_ACTIVITY hooks of negative weight succeeded; [rn]: what NewRunNumber
   returned; [rest_ok]: nothing later in the transition cancelled it.
   Result: new environment, and whether the request returned an error. *)
Definition start_activity (e : envst) (neg_ok : bool) (rn : option N) (rest_ok : bool)
  : envst * bool :=
  if negb (e_state e =? E_CONFIGURED) then (e, true)           (* event inappropriate *)
  else if negb neg_ok then (e, true)                           (* cancelled, no number asked *)
  else match rn with
       | None => (e, true)                                     (* e.Cancel(rnErr); return *)
       | Some n => if rest_ok then (mkEnv E_RUNNING n, false)
                   else (mkEnv E_CONFIGURED n, true)
       end.

(* does START_ACTIVITY ask for a run number at all? *)
Definition asks_number (e : envst) (neg_ok : bool) : bool :=
  (e_state e =? E_CONFIGURED) && neg_ok.

(* ---------- histories: sequences of requests on several environments sharing the counter ---------- *)
(* What environment.go does with currentRunNumber: assigned in before_event of START_ACTIVITY
   (after the hooks of negative weight, from a FRESH call of NewRunNumber, on every attempt),
   cleared in after_event of STOP_ACTIVITY and by StartActivityTransition.do when tasks fail to
   start; a START cancelled later (hook of weight >= 0, leave_CONFIGURED hook, any other
   transition body) and GO_ERROR leave it as it is.
   events: 0 DEPLOY 1 CONFIGURE 2 RESET 3 START_ACTIVITY 4 STOP_ACTIVITY 5 EXIT 6 GO_ERROR 7 RECOVER *)
Definition EV_STOP : N := 4.
Definition fsm_dst (ev st : N) : option N :=
  if ev =? 0 then (if st =? 0 then Some 1 else None) else
  if ev =? 1 then (if st =? 1 then Some 2 else None) else
  if ev =? 2 then (if st =? 2 then Some 1 else None) else
  if ev =? 3 then (if st =? 2 then Some 3 else None) else
  if ev =? 4 then (if st =? 3 then Some 2 else None) else
  if ev =? 5 then (if st <=? 2 then Some 4 else None) else
  if ev =? 6 then (if st <=? 3 then Some 5 else None) else
  if ev =? 7 then (if st =? 5 then Some 1 else None) else None.

(* what happens at the counter while one START attempt runs: requests of the attempt itself
   (mode 0 served, 1 failed, 2 reply lost, 3 dies) and anything of anybody else (other cores'
   callers, foreign writers).  The attempt at position k of the history is caller 2k of the
   counter, another caller j is caller 2j+1: an attempt is a fresh call, it shares its identity
   with nobody. *)
Inductive astep := AOwn (mode : N) | AOther (x : step).
Definition aid (k : N) : N := 2 * k.
Definition oid (j : N) : N := 2 * j + 1.
Definition own_step (c mode : N) : step :=
  if mode =? 0 then SServe c else if mode =? 1 then SFail c else if mode =? 2 then SLost c else SCrash c.
Definition relabel (x : step) : step :=
  match x with
  | SServe j => SServe (oid j) | SFail j => SFail (oid j)
  | SLost j => SLost (oid j) | SCrash j => SCrash (oid j)
  | SPut v => SPut v | SDel => SDel
  end.
Definition to_step (k : N) (a : astep) : step :=
  match a with AOwn m => own_step (aid k) m | AOther x => relabel x end.
Definition not_own (a : astep) : bool := match a with AOwn _ => false | AOther _ => true end.

Inductive hop :=
(* START_ACTIVITY on environment [env].  [rest]: 0 the transition goes through; 1 it is cancelled
   after the number was assigned (hook of weight >= 0, leave_CONFIGURED hook, transition body);
   2 it is cancelled by tasks failing to start (the number is cleared) *)
| HStart (env : N) (neg_ok : bool) (rest : N) (sched : list astep)
(* any other event; [done] = not cancelled by a hook or by the transition body *)
| HOther (env : N) (ev : N) (done : bool).

Record hres := mkRes { hr_err : bool; hr_state : N; hr_rn : N;
                       hr_seen : option N (* run number shown to the hooks of weight >= 0 *) }.
Record hstate := mkH { hs_ctr : state; hs_envs : list (N * envst) }.
Definition eget (es : list (N * envst)) (i : N) : envst :=
  match assocN i es with Some e => e | None => mkEnv 0 0 end.

(* the steps that really happen at the counter during the operation at position k *)
Definition heff_op (h : hstate) (k : N) (o : hop) : list step :=
  match o with
  | HStart ei neg_ok _ sched =>
      if asks_number (eget (hs_envs h) ei) neg_ok then map (to_step k) sched
      else map (to_step k) (filter not_own sched)     (* no request of its own at all *)
  | HOther _ _ _ => []
  end.

Definition hstep (h : hstate) (k : N) (o : hop) : hstate * hres :=
  let st := run (hs_ctr h) (heff_op h k o) in
  match o with
  | HStart ei neg_ok rest _ =>
      let e := eget (hs_envs h) ei in
      if asks_number e neg_ok then
        match result st (aid k) with
        | None => (mkH st (hs_envs h), mkRes true (e_state e) (e_rn e) None)
        | Some n =>
            let e' := if rest =? 0 then mkEnv E_RUNNING n
                      else if rest =? 1 then mkEnv E_CONFIGURED n else mkEnv E_CONFIGURED 0 in
            (mkH st ((ei, e') :: hs_envs h),
             mkRes (negb (rest =? 0)) (e_state e') (e_rn e') (Some n))
        end
      else (mkH st (hs_envs h), mkRes true (e_state e) (e_rn e) None)
  | HOther ei ev done =>
      let e := eget (hs_envs h) ei in
      match fsm_dst ev (e_state e) with
      | None => (mkH st (hs_envs h), mkRes true (e_state e) (e_rn e) None)
      | Some d =>
          if done then
            let e' := mkEnv d (if ev =? EV_STOP then 0 else e_rn e) in
            (mkH st ((ei, e') :: hs_envs h), mkRes false d (e_rn e') None)
          else (mkH st (hs_envs h), mkRes true (e_state e) (e_rn e) None)
      end
  end.

Fixpoint hrun_st (h : hstate) (k : N) (ops : list hop) : hstate :=
  match ops with [] => h | o :: r => hrun_st (fst (hstep h k o)) (N.succ k) r end.
Fixpoint hrun_res (h : hstate) (k : N) (ops : list hop) : list hres :=
  match ops with
  | [] => []
  | o :: r => snd (hstep h k o) :: hrun_res (fst (hstep h k o)) (N.succ k) r
  end.
(* all steps at the counter, in order *)
Fixpoint heff (h : hstate) (k : N) (ops : list hop) : list step :=
  match ops with
  | [] => []
  | o :: r => heff_op h k o ++ heff (fst (hstep h k o)) (N.succ k) r
  end.
(* the numbers under which the successive START attempts went on, in the order of the attempts *)
Definition hnums (rs : list hres) : list N :=
  flat_map (fun r => match hr_seen r with Some n => [n] | None => [] end) rs.
Definition einit (states : list N) : list (N * envst) :=
  combine (nseq (length states) 0) (map (fun s => mkEnv s 0) states).
Definition hinit (s0 : store) (states : list N) : hstate := mkH (init s0) (einit states).

(* ---------- correspondence cases ---------- *)
Inductive cres := RPending | RNum (n : N) | RErr | RDead.

Definition cres_of (c : cstate) : cres :=
  match c with
  | Idle => RPending
  | HasRead _ _ => RPending
  | Done (Some n) => RNum n
  | Done None => RErr
  | Dead => RDead
  end.

Definition cres_eqb (a b : cres) : bool :=
  match a, b with
  | RPending, RPending => true
  | RNum x, RNum y => x =? y
  | RErr, RErr => true
  | RDead, RDead => true
  | _, _ => false
  end.

Definition kv_eqb (a b : option (str * N)) : bool :=
  option_eqb (pair_eqb str_eqb N.eqb) a b.

Definition lentry_eqb (a b : lentry) : bool :=
  match a, b with
  | LGet i c m r, LGet i' c' m' r' => (i =? i') && Bool.eqb c c' && (m =? m') && kv_eqb r r'
  | LPut i c b m a, LPut i' c' b' m' a' =>
      (i =? i') && (c =? c') && str_eqb b b' && (m =? m') && Bool.eqb a a'
  | LFPut v, LFPut v' => str_eqb v v'
  | LFDel, LFDel => true
  | _, _ => false
  end.

Inductive c07_case :=
(* k callers, store initially absent with raft index clock0, schedule;
   observed: request log (chronological), per-caller results, final key *)
| CSched (clock0 : N) (k : N) (sched : list step)
         (olog : list lentry) (ores : list cres) (okv : option (str * N))
(* one environment in state state0 asked to START_ACTIVITY; it is caller 0 of the schedule;
   observed: request log, error returned?, state afterwards, current run number afterwards *)
| CEnv (state0 : N) (clock0 : N) (sched : list step)
       (olog : list lentry) (oerr : bool) (ostate : N) (orn : N)
(* file backend, k calls one after the other on a file with the given initial content *)
| CFileSerial (file0 : option str) (k : N) (ores : list (option N)) (ofile : option str)
(* file backend under concurrent calls, every round from a file "0": number of duplicates seen
   among returned numbers, number of failed calls, the file after the last round *)
| CFileStress (goroutines calls : N) (dups errs : N) (ofile : option str)
(* a history of requests on the environments with the given initial states (all sharing the
   counter, store initially absent with raft index clock0), [nother] other callers;
   observed: request log, per operation (error?, state, current run number, run number shown to
   the hooks of weight >= 0 of before_START_ACTIVITY), results of the other callers, final key *)
(* file backend across lives of the process (see [flives]); observed: what every call of every
   life returned, the file at the end *)
| CFileLives (file0 : option str) (lives : list (N * fend))
             (ores : list (list (option N))) (ofile : option str)
(* the remote path: a loopback gRPC apricot server on a file-backend service, the real client *)
| CRemote (file0 : option str) (ops : list rop) (obs : list (option N * list (option N)))
| CHist (clock0 : N) (states : list N) (nother : N) (ops : list hop)
        (olog : list lentry) (ores : list hres) (oothers : list cres) (okv : option (str * N)).

Definition model_sched (clock0 k : N) (sched : list step) :=
  let st := run (init (mkStore None clock0)) sched in
  (rev (s_log st), map (fun i => cres_of (get (s_callers st) i)) (nseq (N.to_nat k) 0),
   st_kv (s_store st)).

Definition hres_eqb (a b : hres) : bool :=
  Bool.eqb (hr_err a) (hr_err b) && (hr_state a =? hr_state b) && (hr_rn a =? hr_rn b) &&
  option_eqb N.eqb (hr_seen a) (hr_seen b).

Definition corr07 (c : c07_case) : bool :=
  match c with
  | CSched clock0 k sched olog ores okv =>
      let '(l, r, kv) := model_sched clock0 k sched in
      list_eqb lentry_eqb l olog && list_eqb cres_eqb r ores && kv_eqb kv okv
  | CEnv state0 clock0 sched olog oerr ostate orn =>
      let e := mkEnv state0 0 in
      if asks_number e true then
        let st := run (init (mkStore None clock0)) sched in
        let '(e', err) := start_activity e true (result st 0) true in
        list_eqb lentry_eqb (rev (s_log st)) olog && Bool.eqb err oerr &&
        (e_state e' =? ostate) && (e_rn e' =? orn)
      else
        (* no request at all reaches the counter; foreign steps still run *)
        let st := run (init (mkStore None clock0))
                      (filter (fun x => match x with SPut _ => true | SDel => true | _ => false end) sched) in
        let '(e', err) := start_activity e true None true in
        list_eqb lentry_eqb (rev (s_log st)) olog && Bool.eqb err oerr &&
        (e_state e' =? ostate) && (e_rn e' =? orn)
  | CFileSerial file0 k ores ofile =>
      let ids := nseq (N.to_nat k) 0 in
      let st := frun (finit file0) (fserial ids) in
      list_eqb (option_eqb N.eqb) (map (fres st) ids) ores &&
      option_eqb str_eqb (f_file st) ofile
  | CFileStress g k _ errs ofile =>
      (* under the mutex every schedule of g*k calls on "0" ends with no failed call and the
         counter at g*k (C07_file_backend_dense) *)
      (errs =? 0) && (fcur ofile =? g * k)
  | CFileLives file0 lives ores ofile =>
      let '(st, _, res) := flives (finit file0) 0 lives in
      list_eqb (list_eqb (option_eqb N.eqb)) res ores && option_eqb str_eqb (f_file st) ofile
  | CRemote file0 ops obs =>
      list_eqb (pair_eqb (option_eqb N.eqb) (list_eqb (option_eqb N.eqb))) (rrun (finit file0) true 0 ops) obs
  | CHist clock0 states nother ops olog ores oothers okv =>
      let h0 := hinit (mkStore None clock0) states in
      let st := hs_ctr (hrun_st h0 0 ops) in
      list_eqb lentry_eqb (rev (s_log st)) olog &&
      list_eqb hres_eqb (hrun_res h0 0 ops) ores &&
      list_eqb cres_eqb (map (fun j => cres_of (get (s_callers st) (oid j))) (nseq (N.to_nat nother) 0)) oothers &&
      kv_eqb (st_kv (s_store st)) okv
  end.

(* ---------- the property evaluated on what the implementation did ---------- *)
(* codes: 1 duplicate number; 2 a number written to the counter is not larger than the value it
   replaced; 3 a caller returned a number that it did not itself write with an applied,
   answered CAS; 4 START_ACTIVITY went on although no number was obtained (or left a run number /
   another state behind); 5 the uint32 wrap: 4294967295 is followed by 0 (repaired: the call must
   fail); 6 duplicate from the file backend under concurrent calls (repaired: mutex); 7 file backend, sequential calls: not strictly
   increasing; 11 file backend: a number not larger than an earlier one after the process died or
   restarted; 8 the environment's run number is not the number obtained from the counter *)

Definition val_of (b : option str) : option N :=
  match b with None => Some 0 | Some s => parse_u32 s end.

Definition nth_res (ores : list cres) (i : N) : cres := nth (N.to_nat i) ores RPending.

(* walk the chronological log.  state: stored bytes, "the other writers misbehaved", worst code *)
Fixpoint mon_log (ores : list cres) (l : list lentry) (curb : option str) (envbad : bool) : N :=
  match l with
  | [] => 0
  | LFPut v :: r =>
      let bad := match parse_u32 v, val_of curb with
                 | Some m, Some c => m <? c
                 | Some _, None => false
                 | None, _ => true
                 end in
      mon_log ores r (Some v) (envbad || bad)
  | LFDel :: r =>
      let bad := match val_of curb with Some 0 => false | _ => true end in
      mon_log ores r None (envbad || bad)
  | LGet _ _ _ _ :: r => mon_log ores r curb envbad
  | LPut i cas body mode applied :: r =>
      let answered_ok := applied && (mode =? 0) in
      let c3 := match nth_res ores i with
                | RNum n => negb (answered_ok && option_eqb N.eqb (parse_u32 body) (Some n))
                | _ => false
                end in
      if c3 then 3 else
      if applied then
        let c := if envbad then 0 else
                 match parse_u32 body, val_of curb with
                 | Some m, Some c => if c <? m then 0
                                     else if (m =? 0) && (c =? max_u32) then 5 else 2
                 | None, _ => 2
                 | Some _, None => 2
                 end in
        if c =? 0 then mon_log ores r (Some body) envbad else c
      else mon_log ores r curb envbad
  end.

Definition envbad_log (l : list lentry) : bool :=
  (fix go (l : list lentry) (curb : option str) : bool :=
     match l with
     | [] => false
     | LFPut v :: r =>
         match parse_u32 v, val_of curb with
         | Some m, Some c => (m <? c) || go r (Some v)
         | Some _, None => go r (Some v)
         | None, _ => true
         end
     | LFDel :: r => match val_of curb with Some 0 => go r None | _ => true end
     | LPut _ _ body _ true :: r => go r (Some body)
     | _ :: r => go r curb
     end) l None.

Definition nums_of (ores : list cres) : list N :=
  flat_map (fun r => match r with RNum n => [n] | _ => [] end) ores.

(* every caller that returned a number has an applied, answered CAS of its own in the log *)
Definition has_own_put (l : list lentry) (i : N) : bool :=
  existsb (fun e => match e with LPut j _ _ 0 true => j =? i | _ => false end) l.

Fixpoint all_own (l : list lentry) (ores : list cres) (i : N) : bool :=
  match ores with
  | [] => true
  | RNum _ :: r => has_own_put l i && all_own l r (N.succ i)
  | _ :: r => all_own l r (N.succ i)
  end.

Definition mon_sched (olog : list lentry) (ores : list cres) : N :=
  if negb (all_own olog ores 0) then 3 else
  let c := mon_log ores olog None false in
  if negb (c =? 0) then c else
  if negb (envbad_log olog) && negb (nodupb N.eqb (nums_of ores)) then 1 else 0.

Fixpoint incr_from (lo : N) (l : list (option N)) : bool :=
  match l with
  | [] => true
  | None :: r => incr_from lo r
  | Some n :: r => (lo <? n) && incr_from n r
  end.

Definition obtained (olog : list lentry) : option N :=
  match filter (fun e => match e with LPut 0 _ _ 0 true => true | _ => false end) olog with
  | LPut _ _ body _ _ :: _ => parse_u32 body
  | _ => None
  end.

(* ----- histories.  9: a START attempt went on (its hooks of weight >= 0 ran, or it succeeded)
   without any request of its own at the counter: the number was not drawn for this attempt;
   4: it went on although its draw failed, or a cancelled attempt changed state / run number;
   8: it ran under another number than the one it drew; 10: the numbers of successive attempts
   (all environments) are not strictly increasing although the other writers behaved *)
Definition own_put (c : N) (l : list lentry) : option N :=
  match filter (fun e => match e with LPut j _ _ 0 true => j =? c | _ => false end) l with
  | LPut _ _ body _ _ :: _ => parse_u32 body
  | _ => None
  end.
Definition has_request (c : N) (l : list lentry) : bool :=
  existsb (fun e => match e with LGet j _ _ _ => j =? c | LPut j _ _ _ _ => j =? c | _ => false end) l.

Fixpoint mon_ops (k : N) (envs : list (N * envst)) (ops : list hop) (ores : list hres)
                 (olog : list lentry) : N :=
  match ops, ores with
  | o :: r, x :: xs =>
      let ei := match o with HStart ei _ _ _ => ei | HOther ei _ _ => ei end in
      let e := eget envs ei in
      let c := match o with
               | HStart _ _ _ _ =>
                   match hr_seen x with
                   | Some n =>
                       match own_put (aid k) olog with
                       | Some m => if (n =? m) && (hr_err x || (hr_rn x =? m)) then 0 else 8
                       | None => if has_request (aid k) olog then 4 else 9
                       end
                   | None => if hr_err x && (hr_state x =? e_state e) && (hr_rn x =? e_rn e)
                             then 0 else 4
                   end
               | HOther _ _ _ => 0
               end in
      if c =? 0 then mon_ops (N.succ k) ((ei, mkEnv (hr_state x) (hr_rn x)) :: envs) r xs olog
      else c
  | _, _ => 0
  end.

Definition attempt_cres (x : hres) : cres :=
  match hr_seen x with Some n => RNum n | None => if hr_err x then RErr else RPending end.
(* caller 2k is the operation at position k, caller 2j+1 the other caller j *)
Definition hist_cres (ores : list hres) (oothers : list cres) : list cres :=
  map (fun i => if N.even i then nth (N.to_nat (i / 2)) (map attempt_cres ores) RPending
                else nth (N.to_nat (i / 2)) oothers RPending)
      (nseq (2 * (length ores + length oothers)) 0).

Fixpoint incr_list (lo : N) (l : list N) : bool :=
  match l with [] => true | n :: r => (lo <? n) && incr_list n r end.

Definition mon_hist (states : list N) (ops : list hop) (olog : list lentry) (ores : list hres)
                    (oothers : list cres) : N :=
  let c := mon_log (hist_cres ores oothers) olog None false in
  if negb (c =? 0) then c else
  let c := mon_ops 0 (einit states) ops ores olog in
  if negb (c =? 0) then c else
  if negb (envbad_log olog) && negb (incr_list 0 (hnums ores)) then 10 else 0.

(* ----- file backend across lives.  11: after the process died or was restarted, a call returned
   a number that is not larger than one returned before (the sequence was restarted, e.g. from a
   file torn by a dying write-back that was read as 0).  Walks the returned numbers life by
   life; [hi] = the largest value seen so far (the initial file's value, every number
   returned), [after] = a life has ended before.  A corruption that reads as a plain valid
   number below [hi] is a lowered counter: nothing is required afterwards. *)
Fixpoint mon_life (hi : N) (after : bool) (l : list (option N)) : N * N :=   (* code, new hi *)
  match l with
  | [] => (0, hi)
  | None :: r => mon_life hi after r
  | Some n :: r => if hi <? n then mon_life n after r
                   else (if (n =? 0) && (hi =? max_u32) then 5 else if after then 11 else 7, hi)
  end.
Fixpoint mon_lives (hi : N) (after : bool) (lives : list (N * fend)) (ores : list (list (option N))) : N :=
  match lives, ores with
  | (_, e) :: r, l :: ls =>
      let '(c, hi') := mon_life hi after l in
      if negb (c =? 0) then c else
      match e with
      | ECorrupt b => match parse_u32 b with
                      | Some m => if m <? hi' then 0 else mon_lives m true r ls
                      | None => mon_lives hi' true r ls
                      end
      | _ => mon_lives hi' true r ls
      end
  | _, _ => 0
  end.

(* ----- the glue.  12: the remote client returned a number with no error although the service
   behind the server did not return that number (without error) during the call: an error was
   swallowed on the way, or a number was made up *)
Fixpoint mon_remote (obs : list (option N * list (option N))) : N :=
  match obs with
  | [] => 0
  | (Some n, srv) :: r => if existsb (fun x => option_eqb N.eqb x (Some n)) srv then mon_remote r else 12
  | (None, _) :: r => mon_remote r
  end.

Definition mon07 (c : c07_case) : N :=
  match c with
  | CSched _ _ _ olog ores _ => mon_sched olog ores
  | CEnv state0 _ _ olog oerr ostate orn =>
      match obtained olog with
      | None => if oerr && (ostate =? state0) && (orn =? 0) then 0 else 4
      | Some n =>
          (* the counter part of the property, with the environment as caller 0 *)
          let c := mon_log [if oerr then RErr else RNum orn] olog None false in
          if negb (c =? 0) then c else
          if oerr then 0 else if orn =? n then 0 else 8
      end
  | CFileSerial file0 _ ores _ =>
      if incr_from (fcur file0) ores then 0
      else if existsb (fun r => match r with Some 0 => true | _ => false end) ores then 5 else 7
  | CFileStress _ _ dups _ _ => if dups =? 0 then 0 else 6
  | CFileLives file0 lives ores _ => mon_lives (fcur file0) false lives ores
  | CRemote _ _ obs => mon_remote obs
  | CHist _ states _ ops olog ores oothers _ => mon_hist states ops olog ores oothers
  end.

(* ---------- which decision points a case went through (bit mask) ---------- *)
Definition bit (b : bool) (w : N) : N := if b then w else 0.
Definition tag_log (l : list lentry) : N :=
  bit (existsb (fun e => match e with LPut _ 0 _ _ true => true | _ => false end) l) 1 +    (* created with cas=0 *)
  bit (existsb (fun e => match e with LPut _ _ _ 0 false => true | _ => false end) l) 2 +   (* CAS refused *)
  bit (existsb (fun e => match e with LPut _ _ _ m _ => negb (m =? 0) | LGet _ _ m _ => negb (m =? 0) | _ => false end) l) 4 + (* error / lost / crash *)
  bit (existsb (fun e => match e with LFPut _ => true | LFDel => true | _ => false end) l) 8 +  (* foreign writer *)
  bit (existsb (fun e => match e with LGet _ _ 0 (Some (b, _)) => match parse_u32 b with None => true | _ => false end | _ => false end) l) 16 + (* unparsable value read *)
  bit (existsb (fun e => match e with LGet _ _ 0 (Some (b, _)) => match parse_u32 b with Some v => v =? max_u32 | None => false end | _ => false end) l) 32 + (* exhausted counter read *)
  bit (2 <=? Nlen (filter (fun e => match e with LPut _ _ _ 0 true => true | _ => false end) l)) 64. (* at least two numbers handed out *)

Definition tag07 (c : c07_case) : N :=
  match c with
  | CSched _ _ _ olog _ _ => tag_log olog
  | CEnv state0 _ _ olog _ _ _ => 1000 + 128 * bit (state0 =? E_CONFIGURED) 1 + tag_log olog
  | CFileSerial file0 _ ores _ =>
      2000 + bit (match file0 with None => true | _ => false end) 1
           + bit (existsb (fun r => match r with None => true | _ => false end) ores) 2
           + bit ((fcur file0 =? max_u32) || (fcur file0 <? max_u32) && (max_u32 <? fcur file0 + Nlen ores)) 4 (* a call found the counter exhausted *)
  | CFileStress _ _ dups _ _ => 3000 + bit (negb (dups =? 0)) 1
  | CFileLives file0 lives ores ofile =>
      5000 + bit (existsb (fun le => match snd le with EDieInWrite => true | _ => false end) lives) 1
           + bit (existsb (fun le => match snd le with ECorrupt _ => true | _ => false end) lives) 2
           + bit (existsb (fun le => match snd le with EDieInCreate => true | _ => false end) lives) 4
           + bit (match fval ofile with None => true | _ => false end) 8       (* ends unreadable *)
           + bit (2 <=? Nlen (filter (fun l => existsb (fun r => match r with Some _ => true | None => false end) l) ores)) 16
                                                                               (* numbers returned in at least two lives *)
           + bit (existsb (fun l => existsb (fun r => match r with None => true | _ => false end) l) ores) 32
  | CRemote _ ops obs =>
      6000 + bit (existsb (fun o => match o with RStop => true | _ => false end) ops) 1
           + bit (existsb (fun o => match o with (None, _ :: _) => true | _ => false end) obs) 2   (* error reply *)
           + bit (existsb (fun o => match o with RStart => true | _ => false end) ops) 4
           + bit (2 <=? Nlen (filter (fun o => match fst o with Some _ => true | None => false end) obs)) 8
  | CHist _ states _ ops olog ores _ _ =>
      4000 + bit (2 <=? Nlen (hnums ores)) 1                        (* at least two attempts went on *)
           + bit (existsb (fun x => match hr_seen x with Some _ => hr_err x | None => false end) ores) 2
                                                                    (* an attempt cancelled after its draw *)
           + bit (existsb (fun e => match e with LPut _ _ _ 0 false => true
                                    | LPut _ _ _ m _ => negb (m =? 0) | LGet _ _ m _ => negb (m =? 0)
                                    | _ => false end) olog) 4       (* a refused or failed request *)
           + bit (existsb (fun e => match e with LFPut _ => true | LFDel => true | _ => false end) olog) 8
           + bit (existsb (fun o => match o with HOther _ 6 true => true | _ => false end) ops) 16  (* GO_ERROR *)
           + bit (2 <=? Nlen states) 32
  end.

Definition report07 := report corr07 mon07 tag07.
