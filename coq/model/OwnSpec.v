(* OwnSpec.v — the vocabulary in which the theorems of C04 and C06 are stated (definitions only):
   well-formed histories and reachable states of the model of Teardown.v, and the hypotheses of
   the partial theorems.  Lemmas are in proofs/OwnInv_proofs.v, the theorems in props/C04.v, props/C06.v. *)
From Verif Require Import Common Ownership Teardown.
Open Scope N_scope.

(* an environment id is in use: an environment is listed under it, a creation under it is in
   flight, or a task launched for it is still in the roster *)
Definition usedb (s : st) (e : N) : bool :=
  existsb (fun x => N.eqb (e_id x) e) (s_envs s) ||
  existsb (fun t => N.eqb (fst (t_id t)) e) (s_roster s) ||
  existsb (fun p => N.eqb (fst p) e) (s_snaps s).

(* what the code guarantees about a request before the modelled functions run:
   - a creation gets a new environment id (core/server.go: uid.New());
   - the detectors of a workflow form a set (GetDetectorsForHosts de-duplicates).  *)
Definition wf_op (s : st) (o : op) : bool :=
  match o with
  | OSnap e _ => negb (usedb s e)
  | OCreate e c => negb (usedb s e) && nodupb N.eqb (c_dets c)
  | OFinish _ c => nodupb N.eqb (c_dets c)
  | _ => true
  end.

Fixpoint valid_hist (s : st) (ops : list op) : bool :=
  match ops with
  | [] => true
  | o :: r => wf_op s o && valid_hist (fst (step s o)) r
  end.

(* every state the core can be in: the result of any well-formed history of requests and task
   deaths, of any length, over any number of environments, in any interleaving (an overlapped
   creation is its two steps OSnap / OFinish with anything in between) *)
Definition reachable (s : st) : Prop :=
  exists ops, valid_hist st0 ops = true /\ s = run st0 ops.

(* the consistency of roster, listing and creations in flight that every reachable state has
   (lemma reachable_inv) and that every intermediate state inside a request keeps (lemma good_inv):
   one roster entry per task; a task is owned, if at all, by the environment it was launched for;
   the id of a creation in flight is used by no task and no listed environment; one listing entry
   per environment; the tasks a listed environment owns are in its workflow's task list *)
Record inv (s : st) : Prop := mkInv {
  inv_nodup : NoDup (map t_id (s_roster s));
  inv_owner : forall t e, In t (s_roster s) -> t_owner t = Some e -> fst (t_id t) = e;
  inv_snap_r : forall p t, In p (s_snaps s) -> In t (s_roster s) -> fst (t_id t) <> fst p;
  inv_snap_e : forall p x, In p (s_snaps s) -> In x (s_envs s) -> e_id x <> fst p;
  inv_envs : NoDup (map e_id (s_envs s));
  inv_bound : forall x t, In x (s_envs s) -> In t (s_roster s) -> t_owner t = Some (e_id x) ->
                          In (t_id t) (bound_tids x)
}.

(* creations that nothing overlaps *)
Definition serial_op (o : op) : bool :=
  match o with OSnap _ _ | OFinish _ _ => false | _ => true end.

Definition reachable_serial (s : st) : Prop :=
  exists ops, valid_hist st0 ops = true /\ forallb serial_op ops = true /\ s = run st0 ops.

(* requests, as opposed to the death of a task (an event of the outside world) *)
Definition is_request (o : op) : bool :=
  match o with ODies _ | OFail _ | ORefuse _ | ORelock _ | ORecon => false | _ => true end.

Definition env_listed (e : N) (s : st) : bool :=
  match find_env e (s_envs s) with Some _ => true | None => false end.

(* some task of the roster is owned by environment [e] *)
Definition owns_some (e : N) (r : roster) : bool := existsb (owner_is e) r.

(* the DESTROY / after_DESTROY hook tasks of an environment, as TeardownEnvironment sees them *)
Definition destroy_hook_tids (x : env) : list tid := flat_map (group_tasks (e_id x)) (merged x).

(* "the environment left nothing behind" *)
Definition nothing_left (e : N) (s' : st) : Prop :=
  find_env e (s_envs s') = None /\
  (forall t, In t (s_roster s') -> owner_is e t = false) /\
  (forall x, In x (s_envs s') -> e_id x <> e).

(* ---------------- the full statements of C06 *)
Definition destroy_leaves_nothing : Prop :=
  forall s e force allow keep tfail s' u,
    reachable s -> env_listed e s = true ->
    step s (ODestroy e force allow keep tfail) = (s', u) -> o_rc u = 0 ->
    nothing_left e s'.

(* every task launched for a creation that failed got its KILL (running, still staging or dead) *)
Definition launched_killed (e : N) (c : cspec) (u : out) : Prop :=
  forall id, In id (o_launch u) -> In id (o_kills u).

(* ... or, never having become owned, is still in the roster, unowned, for the next cleanup *)
Definition launched_handled (s' : st) (u : out) : Prop :=
  forall id, In id (o_launch u) ->
             In id (o_kills u) \/ exists t, In t (s_roster s') /\ t_id t = id /\ t_owner t = None.

Definition failed_creation_leaves_nothing : Prop :=
  forall s e c s' u,
    reachable s -> wf_op s (OCreate e c) = true ->
    step s (OCreate e c) = (s', u) -> o_rc u = 1 ->
    nothing_left e s' /\ launched_handled s' u.

(* full statement of the detector clause of C04 *)
Definition detectors_exclusive : Prop :=
  forall s, reachable s -> NoDup (active_dets (s_envs s)).
