(* Model of the environment state machine and of its callers (property C01):
     core/environment/environment.go   newEnvironment (fsm.Events + the four callbacks),
                                       TryTransition, setState, watcher / auto-stop callers
     core/environment/transition.go    MakeTransition
     core/environment/manager.go       TeardownEnvironment, ODC / device-event callers
     core/server.go                    ControlEnvironment, DestroyEnvironment, doTeardownAndCleanup
   and of looplab/fsm v1.0.1 Event (hand-written; tied by the correspondence harness).
   Definitions only.  The event table, the optype map and statesForDestroy come from
   Gen_EnvEvents.v (regenerated from the source on every run). *)
From Verif Require Export Common EnvFsmTypes Gen_EnvEvents.
Open Scope N_scope.

(* ------------------------------------------------------------------------------------------ *)
(* The documented graph, written by hand from the property text:
   DEPLOY, CONFIGURE, START_ACTIVITY, STOP_ACTIVITY, RESET, GO_ERROR from any live state,
   teardown to DONE, DONE being terminal. *)
Definition live (s : estate) : bool :=
  match s with sSTANDBY | sDEPLOYED | sCONFIGURED | sRUNNING => true | sERROR | sDONE => false end.

Definition doc_edge (a b : estate) : bool :=
  match a, b with
  | sSTANDBY, sDEPLOYED => true       (* DEPLOY *)
  | sDEPLOYED, sCONFIGURED => true    (* CONFIGURE *)
  | sCONFIGURED, sRUNNING => true     (* START_ACTIVITY *)
  | sRUNNING, sCONFIGURED => true     (* STOP_ACTIVITY *)
  | sCONFIGURED, sDEPLOYED => true    (* RESET *)
  | _, sERROR => live a               (* GO_ERROR from any live state *)
  | _, sDONE => negb (estate_eqb a sDONE)  (* teardown to DONE *)
  | _, _ => false
  end.

(* the documented effect of the five requestable operations (hand-written, used by the monitor) *)
Definition doc_op (ot : optype) (s : estate) : option estate :=
  match ot, s with
  | oDEPLOY, sSTANDBY => Some sDEPLOYED
  | oCONFIGURE, sDEPLOYED => Some sCONFIGURED
  | oSTART_ACTIVITY, sCONFIGURED => Some sRUNNING
  | oSTOP_ACTIVITY, sRUNNING => Some sCONFIGURED
  | oRESET, sCONFIGURED => Some sDEPLOYED
  | _, _ => None
  end.
Definition doc_op_event (ot : optype) : option eevent :=
  match ot with
  | oDEPLOY => Some eDEPLOY | oCONFIGURE => Some eCONFIGURE | oSTART_ACTIVITY => Some eSTART_ACTIVITY
  | oSTOP_ACTIVITY => Some eSTOP_ACTIVITY | oRESET => Some eRESET
  | _ => None
  end.

(* ------------------------------------------------------------------------------------------ *)
(* Moments at which hooks run, trace items, oracles *)
Inductive moment :=
| MBefore (e : eevent) | MLeave (s : estate) | MEnter (s : estate) | MAfter (e : eevent)
| MDestroy.   (* the DESTROY / after_DESTROY hooks of TeardownEnvironment *)

Definition moment_eqb (a b : moment) : bool :=
  match a, b with
  | MBefore x, MBefore y => eevent_eqb x y
  | MLeave x, MLeave y => estate_eqb x y
  | MEnter x, MEnter y => estate_eqb x y
  | MAfter x, MAfter y => eevent_eqb x y
  | MDestroy, MDestroy => true
  | _, _ => false
  end.
Definition mem_moment (m : moment) (l : list moment) : bool := existsb (moment_eqb m) l.

(* what one request does, in order: hooks of a moment run, a transition body runs (task commands
   are sent), the FSM state becomes s (by an event or by a forced SetState) *)
Inductive titem := Hook (m : moment) | Body (e : eevent) | SetSt (s : estate).

Definition titem_eqb (a b : titem) : bool :=
  match a, b with
  | Hook x, Hook y => moment_eqb x y
  | Body x, Body y => eevent_eqb x y
  | SetSt x, SetSt y => estate_eqb x y
  | _, _ => false
  end.

(* The oracle of one request: which moments have a failing critical hook, which transition
   bodies fail, whether the first / second task release of a teardown fails. *)
Record oracle := mkOracle {
  o_hooks : list moment; o_bodies : list eevent; o_relfail1 : bool; o_relfail2 : bool }.
Definition no_faults : oracle := mkOracle [] [] false false.

(* ------------------------------------------------------------------------------------------ *)
(* looplab/fsm: transitions map, last entry wins for a repeated (event, source) key *)
Fixpoint lookup_dst (tbl : list (eevent * list estate * estate)) (ev : eevent) (st : estate)
  : option estate :=
  match tbl with
  | [] => None
  | (n, srcs, d) :: r =>
    match lookup_dst r ev st with
    | Some x => Some x
    | None => if eevent_eqb n ev && mem_state st srcs then Some d else None
    end
  end.

(* FSM.Can (no asynchronous transition is ever pending here) *)
Definition can (tbl : list (eevent * list estate * estate)) (st : estate) (ev : eevent) : bool :=
  match lookup_dst tbl ev st with Some _ => true | None => false end.

(* The locked part of one TryTransition / TeardownEnvironment as the other goroutines can see it:
   items emitted before the state write, the single state write (with the unlisting of a
   teardown), items emitted after it, and the error flag returned to the caller. *)
Record section := mkSec {
  sec_pre : list titem; sec_commit : option (estate * bool); sec_post : list titem; sec_err : bool }.

Definition sec_trace (s : section) : list titem :=
  sec_pre s ++ match sec_commit s with Some (d, _) => [SetSt d] | None => [] end ++ sec_post s.
Definition sec_final (st : estate) (s : section) : estate :=
  match sec_commit s with Some (d, _) => d | None => st end.
Definition sec_unlists (s : section) : bool :=
  match sec_commit s with Some (_, u) => u | None => false end.

(* outcome of the five places where an event can fail *)
Record outcome := mkOutcome {
  f_before : bool; f_leave : bool; f_body : bool; f_enter : bool; f_after : bool }.

(* FSM.Event with the environment's callbacks (before_event, leave_state incl. the transition
   body, enter_state, after_event):
     - event not in the table for the current state: error, no callback;
     - before_event: a failing critical hook cancels (no further callback);
     - destination = current state: after_event runs, NoTransitionError;
     - leave_state: failing hook cancels; then the transition body (t.do) runs, its failure cancels;
     - otherwise state := dst, enter_state and after_event both run, a failing hook there only
       sets the error that Event returns. *)
Definition fsm_core (tbl : list (eevent * list estate * estate)) (bodyful : eevent -> bool)
           (st : estate) (ev : eevent) (oc : outcome) : section :=
  match lookup_dst tbl ev st with
  | None => mkSec [] None [] true
  | Some dst =>
    if f_before oc then mkSec [Hook (MBefore ev)] None [] true
    else if estate_eqb st dst then mkSec [Hook (MBefore ev); Hook (MAfter ev)] None [] true
    else if f_leave oc then mkSec [Hook (MBefore ev); Hook (MLeave st)] None [] true
    else
      let b := if bodyful ev then [Body ev] else [] in
      if f_body oc && bodyful ev then mkSec ([Hook (MBefore ev); Hook (MLeave st)] ++ b) None [] true
      else mkSec ([Hook (MBefore ev); Hook (MLeave st)] ++ b) (Some (dst, false))
                 [Hook (MEnter dst); Hook (MAfter ev)] (f_enter oc || f_after oc)
  end.

Definition outcome_for (tbl : list (eevent * list estate * estate)) (o : oracle)
           (st : estate) (ev : eevent) : outcome :=
  let dst := match lookup_dst tbl ev st with Some d => d | None => st end in
  mkOutcome (mem_moment (MBefore ev) (o_hooks o)) (mem_moment (MLeave st) (o_hooks o))
            (mem_event ev (o_bodies o)) (mem_moment (MEnter dst) (o_hooks o))
            (mem_moment (MAfter ev) (o_hooks o)).

Definition fsm_section tbl bodyful (o : oracle) (st : estate) (ev : eevent) : section :=
  fsm_core tbl bodyful st ev (outcome_for tbl o st ev).

(* the transitions the package can construct: GoErrorTransition.do does nothing *)
Definition api_bodyful (ev : eevent) : bool := negb (eevent_eqb ev eGO_ERROR).
Definition all_bodyful (ev : eevent) : bool := true.

(* Manager.TeardownEnvironment between Lock and Unlock: refuses DONE; refuses anything but
   STANDBY / DEPLOYED unless forced; leave hooks (errors only logged); task release; DESTROY
   hooks; second release; setState(DONE) and removal from the manager's map. *)
Definition teardown_section (o : oracle) (st : estate) (force : bool) : section :=
  if estate_eqb st sDONE then mkSec [] None [] true
  else if negb (mem_state st [sSTANDBY; sDEPLOYED]) && negb force then mkSec [] None [] true
  else if o_relfail1 o then mkSec [Hook (MLeave st)] None [] true
  else if o_relfail2 o then mkSec [Hook (MLeave st); Hook MDestroy] None [] true
  else mkSec [Hook (MLeave st); Hook MDestroy] (Some (sDONE, true)) [] false.

(* ------------------------------------------------------------------------------------------ *)
(* Callers as programs over five actions.  ATry, ATeardown and AForce take the transition mutex
   (AForce since the repair of C01-b/c: Environment.ForceError). *)
Inductive act :=
| ALookup                  (* Manager.Environment(id): is the environment listed *)
| ATry (ev : eevent)       (* env.TryTransition(<transition named ev>) *)
| ATeardown (force : bool) (* TeardownEnvironment after its own lookup *)
| AForce (s : estate)      (* env.ForceError(): under the transition mutex, refused on DONE *)
| ARead.                   (* env.CurrentState() *)

Inductive ares := RB (b : bool) | RS (s : estate) | RU.
Definition res_b (r : ares) : bool := match r with RB b => b | _ => false end.
Definition res_s (r : ares) : estate := match r with RS s => s | _ => sSTANDBY end.

(* result codes: 0 ok, 1 NotFound, 2 InvalidArgument, 3 Aborted, 4 Internal, 5 plain error *)
Inductive prog := Ret (code : N) (st : option estate) | Do (a : act) (k : ares -> prog).

Fixpoint assoc_op (ot : optype) (m : list (optype * option eevent)) : option eevent :=
  match m with
  | [] => None
  | (o, r) :: t => if optype_eqb o ot then r else assoc_op ot t
  end.
Definition make_transition (ot : optype) : option eevent := assoc_op ot env_optype_map.

Definition reply (code : N) : prog := Do ARead (fun s => Ret code (Some (res_s s))).

(* RpcServer.ControlEnvironment *)
Definition p_control (ot : optype) : prog :=
  Do ALookup (fun f =>
    if negb (res_b f) then Ret 1 None else
    match make_transition ot with
    | None => Ret 2 None
    | Some ev =>
      Do (ATry ev) (fun e1 =>
        if negb (res_b e1) then reply 0 else
        (* the error of the requested transition is what the caller gets (Aborted), whether the
           GO_ERROR fallback then succeeds or the state has to be forced: the result of the
           fallback is kept in a separate variable (errGoError) since the C02-d repair *)
        Do (ATry eGO_ERROR) (fun e2 =>
          if negb (res_b e2) then reply 3 else
          Do (AForce sERROR) (fun _ => reply 3)))
    end).

(* Manager.TeardownEnvironment *)
Definition p_teardown (force : bool) : prog :=
  Do ALookup (fun f =>
    if negb (res_b f) then Ret 5 None else
    Do (ATeardown force) (fun e => Ret (if res_b e then 5 else 0) None)).

(* RpcServer.doTeardownAndCleanup: a failed unforced teardown is retried with force *)
Definition p_dtc (force : bool) : prog :=
  Do ALookup (fun f =>
    let retry := Do ALookup (fun f2 =>
                   if negb (res_b f2) then Ret 4 None else
                   Do (ATeardown true) (fun e2 => Ret (if res_b e2 then 4 else 0) None)) in
    if negb (res_b f) then (if force then Ret 4 None else retry) else
    Do (ATeardown force) (fun e =>
      if negb (res_b e) then Ret 0 None else if force then Ret 4 None else retry)).

(* RpcServer.DestroyEnvironment (keepTasks does not influence the state machine) *)
Definition p_destroy (force allow : bool) : prog :=
  Do ALookup (fun f =>
    if negb (res_b f) then Ret 1 None else
    if force then p_dtc true else
    let rest :=
      Do ARead (fun s =>
        if negb (mem_state (res_s s) env_states_for_destroy) then p_dtc true else
        Do ARead (fun s2 =>
          if estate_eqb (res_s s2) sCONFIGURED then
            Do (ATry eRESET) (fun e => if res_b e then p_dtc true else p_dtc false)
          else p_dtc false)) in
    if allow then
      Do ARead (fun s =>
        if estate_eqb (res_s s) sRUNNING then
          Do (ATry eSTOP_ACTIVITY) (fun e => if res_b e then p_dtc true else rest)
        else rest)
    else rest).

(* internal callers, each holding the *Environment already *)
(* subscribeToWfState: GO_ERROR; on error force ERROR unless already there *)
Definition p_watcher : prog :=
  Do (ATry eGO_ERROR) (fun e =>
    if negb (res_b e) then Ret 0 None else
    Do ARead (fun s => if estate_eqb (res_s s) sERROR then Ret 0 None
                       else Do (AForce sERROR) (fun _ => Ret 0 None))).
(* scheduleAutoStopTransition *)
Definition p_autostop : prog :=
  Do (ATry eSTOP_ACTIVITY) (fun e =>
    if negb (res_b e) then Ret 0 None else
    Do (ATry eGO_ERROR) (fun e2 =>
      if negb (res_b e2) then Ret 0 None else Do (AForce sERROR) (fun _ => Ret 0 None))).
(* handleIntegratedServiceEvent (ODC partition ERROR) *)
Definition p_odc : prog :=
  Do ALookup (fun f =>
    if negb (res_b f) then Ret 0 None else
    Do ARead (fun s =>
      if negb (estate_eqb (res_s s) sRUNNING) then Ret 0 None else
      Do (ATry eSTOP_ACTIVITY) (fun _ =>
        Do ARead (fun s2 =>
          if estate_eqb (res_s s2) sERROR then Ret 0 None else
          Do (ATry eGO_ERROR) (fun _ => Do (AForce sERROR) (fun _ => Ret 0 None)))))).
(* END_OF_STREAM / TASK_INTERNAL_ERROR device events: stop the run, errors only logged *)
Definition p_stoprun : prog :=
  Do ALookup (fun f =>
    if negb (res_b f) then Ret 0 None else
    Do ARead (fun s =>
      if negb (estate_eqb (res_s s) sRUNNING) then Ret 0 None else
      Do (ATry eSTOP_ACTIVITY) (fun _ => Ret 0 None))).
(* a bare TryTransition by a holder of the handle (CreateEnvironment, signals.go, ...) *)
Definition p_try (ev : eevent) : prog := Do (ATry ev) (fun e => Ret (if res_b e then 5 else 0) None).

Inductive req :=
| QControl (ot : optype) | QDestroy (force allow keep : bool) | QTeardown (force : bool)
| QWatcher | QAutoStop | QOdc | QStopRun | QTry (ev : eevent).

Definition prog_of (q : req) : prog :=
  match q with
  | QControl ot => p_control ot
  | QDestroy f a _ => p_destroy f a
  | QTeardown f => p_teardown f
  | QWatcher => p_watcher
  | QAutoStop => p_autostop
  | QOdc => p_odc
  | QStopRun => p_stoprun
  | QTry ev => p_try ev
  end.

(* ------------------------------------------------------------------------------------------ *)
(* Sequential semantics: every action runs to completion before the next one starts *)
Record world := mkWorld { w_st : estate; w_listed : bool }.
Definition world_eqb (a b : world) : bool :=
  estate_eqb (w_st a) (w_st b) && Bool.eqb (w_listed a) (w_listed b).

Definition force_items (st s : estate) : list titem := if estate_eqb st s then [] else [SetSt s].

Definition act_section tbl bodyful (o : oracle) (a : act) (st : estate) : section :=
  match a with
  | ATry ev => fsm_section tbl bodyful o st ev
  | ATeardown force => teardown_section o st force
  | AForce s => if estate_eqb st sDONE || estate_eqb st s then mkSec [] None [] false
                else mkSec [] (Some (s, false)) [] false
  | _ => mkSec [] None [] false
  end.

Definition exec_act tbl bodyful (o : oracle) (a : act) (w : world) : world * ares * list titem :=
  match a with
  | ALookup => (w, RB (w_listed w), [])
  | ARead => (w, RS (w_st w), [])
  | ATry _ | ATeardown _ | AForce _ =>
    let sec := act_section tbl bodyful o a (w_st w) in
    (mkWorld (sec_final (w_st w) sec) (w_listed w && negb (sec_unlists sec)),
     RB (sec_err sec), sec_trace sec)
  end.

Fixpoint run_prog tbl bodyful (o : oracle) (p : prog) (w : world)
  : world * (N * option estate) * list titem :=
  match p with
  | Ret c s => (w, (c, s), [])
  | Do a k =>
    let '(w1, r, t1) := exec_act tbl bodyful o a w in
    let '(w2, res, t2) := run_prog tbl bodyful o (k r) w1 in
    (w2, res, t1 ++ t2)
  end.

Definition run_req (o : oracle) (q : req) (w : world) := run_prog env_events api_bodyful o (prog_of q) w.

(* a sequential history: requests with their oracles, one after the other *)
Fixpoint run_seq (l : list (req * oracle)) (w : world) : world * list titem :=
  match l with
  | [] => (w, [])
  | (q, o) :: r =>
    let '(w1, _, t1) := run_req o q w in
    let '(w2, t2) := run_seq r w1 in (w2, t1 ++ t2)
  end.

(* the state changes of a trace started in state s: (old, new) pairs *)
Fixpoint trace_edges (s : estate) (t : list titem) : list (estate * estate) :=
  match t with
  | [] => []
  | SetSt d :: r => (s, d) :: trace_edges d r
  | _ :: r => trace_edges s r
  end.
Definition edge_ok (e : estate * estate) : bool := estate_eqb (fst e) (snd e) || doc_edge (fst e) (snd e).
Definition edges_ok (l : list (estate * estate)) : bool := forallb edge_ok l.

(* ------------------------------------------------------------------------------------------ *)
(* Concurrent semantics.  A thread is a program with its oracle; a schedule is the list of thread
   indices chosen by the scheduler.  A locked section takes three steps (begin: lock, compute the
   section from the current state, emit the items before the state write; commit: the state
   write; end: the remaining items, unlock), every other action takes one step.  ALookup and ARead
   are enabled at any time: they do not take the transition mutex in the code. *)
Inductive tphase :=
| TIdle
| TPre (s : section) (k : ares -> prog)
| TPost (s : section) (k : ares -> prog).

Record thread := mkThread { th_prog : prog; th_phase : tphase; th_or : oracle }.

Record cstate := mkC {
  c_w : world;
  c_lock : bool;
  c_threads : list thread;
  c_trace : list titem;                 (* global trace, newest first *)
  c_edges : list (estate * estate)      (* every state write that changed the state, newest first *)
}.

Fixpoint set_nth {A} (n : nat) (x : A) (l : list A) : list A :=
  match n, l with
  | _, [] => []
  | O, _ :: r => x :: r
  | S m, y :: r => y :: set_nth m x r
  end.

Definition write_edges (old new : estate) (es : list (estate * estate)) :=
  if estate_eqb old new then es else (old, new) :: es.

Definition cstep tbl bodyful (c : cstate) (i : nat) : cstate :=
  match nth_error (c_threads c) i with
  | None => c
  | Some th =>
    let w := c_w c in
    let upd th' := set_nth i th' (c_threads c) in
    match th_phase th with
    | TPre sec k =>
      match sec_commit sec with
      | Some (d, u) =>
        mkC (mkWorld d (w_listed w && negb u)) (c_lock c) (upd (mkThread (th_prog th) (TPost sec k) (th_or th)))
            (SetSt d :: c_trace c) (write_edges (w_st w) d (c_edges c))
      | None =>
        mkC w (c_lock c) (upd (mkThread (th_prog th) (TPost sec k) (th_or th)))
            (c_trace c) (c_edges c)
      end
    | TPost sec k =>
      mkC w false (upd (mkThread (k (RB (sec_err sec))) TIdle (th_or th)))
          (rev (sec_post sec) ++ c_trace c) (c_edges c)
    | TIdle =>
      match th_prog th with
      | Ret _ _ => c
      | Do a k =>
        match a with
        | ALookup =>
          mkC w (c_lock c) (upd (mkThread (k (RB (w_listed w))) TIdle (th_or th)))
              (c_trace c) (c_edges c)
        | ARead =>
          mkC w (c_lock c) (upd (mkThread (k (RS (w_st w))) TIdle (th_or th)))
              (c_trace c) (c_edges c)
        | ATry _ | ATeardown _ | AForce _ =>
          if c_lock c then c    (* blocked on the transition mutex *)
          else
            let sec := act_section tbl bodyful (th_or th) a (w_st w) in
            mkC w true (upd (mkThread (th_prog th) (TPre sec k) (th_or th)))
                (rev (sec_pre sec) ++ c_trace c) (c_edges c)
        end
      end
    end
  end.

Fixpoint run_sched tbl bodyful (sched : list nat) (c : cstate) : cstate :=
  match sched with
  | [] => c
  | i :: r => run_sched tbl bodyful r (cstep tbl bodyful c i)
  end.

Definition init_c (w : world) (ths : list (prog * oracle)) : cstate :=
  mkC w false (map (fun po => mkThread (fst po) TIdle (snd po)) ths) [] [].

Definition th_idle (t : thread) : bool := match th_phase t with TIdle => true | _ => false end.
Definition busy_count (c : cstate) : nat := length (filter (fun t => negb (th_idle t)) (c_threads c)).
Definition th_done (t : thread) : bool :=
  th_idle t && match th_prog t with Ret _ _ => true | _ => false end.

(* ------------------------------------------------------------------------------------------ *)
(* Observations and cases written by the harness *)

(* what the implementation did on one request *)
Record robs := mkRobs {
  ro_code : N;                  (* error class of the call *)
  ro_state : option estate;     (* state in the reply, when there is one *)
  ro_listed : bool;             (* environment still listed afterwards *)
  ro_final : estate;            (* Sm.Current() afterwards *)
  ro_trace : list titem         (* probes, task commands, state changes in observed order *)
}.

Definition option_estate_eqb := option_eqb estate_eqb.
Definition trace_eqb := list_eqb titem_eqb.

(* environment events of the request: (kind, FSM state when written, state reported in the event);
   kind 1 = a transition / teardown starts, 2 = it ends, 4 = a TryTransition that returns an error
   ends ("transition error" / "transition impossible"), 3 = the harness' record of a reply,
   0 = any other event *)
Definition oev := (N * estate * estate)%type.

(* the raw log of a concurrent episode: items and events in one order *)
Inductive litem := LI (t : titem) | LE (kind : N) (st rep : estate).

Inductive c01_case :=
(* sequential history on one environment, started in st0 (listed) *)
| CSeq (st0 : estate) (steps : list (req * oracle * robs * list oev))
(* one TryTransition with an injected body on a real Environment in state st0 *)
| CFsm (st0 : estate) (ev : eevent) (o : oracle) (err : bool) (final : estate) (trace : list titem)
(* concurrent episode: threads (request, observed result code and reply state), one oracle;
   macro = the thread index of every locked section in the observed order (each thread's
   unlocked actions are run eagerly), micro = an explicit step schedule (used when not empty:
   forced schedules); observed log, final state, listed *)
| CConc (st0 : estate) (o : oracle) (ths : list (req * N * option estate)) (macro micro : list N)
        (log : list litem) (final : estate) (listed : bool)
(* concurrent episode whose requests never returned (nothing to compare; the monitor flags it) *)
| CHung (o : oracle) (reqs : list req).

(* ---------- correspondence ---------- *)
Fixpoint corr_seq (w : world) (steps : list (req * oracle * robs * list oev)) : bool :=
  match steps with
  | [] => true
  | (q, o, ob, _) :: r =>
    let '(w1, (c, rs), t) := run_req o q w in
    (c =? ro_code ob) && option_estate_eqb rs (ro_state ob) && Bool.eqb (w_listed w1) (ro_listed ob) &&
    estate_eqb (w_st w1) (ro_final ob) && trace_eqb t (ro_trace ob) && corr_seq w1 r
  end.

Definition log_items (l : list litem) : list titem :=
  flat_map (fun x => match x with LI t => [t] | LE _ _ _ => [] end) l.

Definition thread_result_ok (t : thread) (code : N) (rs : option estate) : bool :=
  th_idle t && match th_prog t with
               | Ret c s => (c =? code) && option_estate_eqb s rs
               | Do _ _ => false
               end.

Fixpoint all2 {A B} (f : A -> B -> bool) (a : list A) (b : list B) : bool :=
  match a, b with
  | [], [] => true
  | x :: a', y :: b' => f x y && all2 f a' b'
  | _, _ => false
  end.

Definition enabled (c : cstate) (i : nat) : bool :=
  match nth_error (c_threads c) i with
  | None => false
  | Some th =>
    match th_phase th with
    | TIdle =>
      match th_prog th with
      | Ret _ _ => false
      | Do (ATry _) _ | Do (ATeardown _) _ | Do (AForce _) _ => negb (c_lock c)
      | Do _ _ => true
      end
    | _ => true
    end
  end.

Definition next_silent (c : cstate) (i : nat) : bool :=
  match nth_error (c_threads c) i with
  | Some th =>
    match th_phase th, th_prog th with
    | TIdle, Do ALookup _ | TIdle, Do ARead _ => true
    | _, _ => false
    end
  | None => false
  end.

(* run the unlocked actions of thread i until it wants the mutex or is finished *)
Fixpoint run_silent (fuel : nat) (c : cstate) (i : nat) : cstate :=
  match fuel with
  | O => c
  | S f => if next_silent c i then run_silent f (cstep env_events api_bodyful c i) i else c
  end.

(* one locked section of thread i (begin, commit, end), then its unlocked actions *)
Definition macro_step (c : cstate) (i : nat) : cstate :=
  if enabled c i && negb (next_silent c i) then
    let c1 := cstep env_events api_bodyful c i in
    let c2 := cstep env_events api_bodyful c1 i in
    let c3 := cstep env_events api_bodyful c2 i in
    run_silent 16 c3 i
  else c.

Definition run_macro (hint : list nat) (c : cstate) : cstate :=
  let c1 := fold_left (fun c i => run_silent 16 c i) (seq 0 (length (c_threads c))) c in
  fold_left macro_step hint c1.

(* A teardown that is refused (environment DONE, or not STANDBY / DEPLOYED and not forced) returns
   before it writes any event: such a locked section leaves no mark in the observed log, so the
   hint does not list it.  It changes nothing, but the thread's next unlocked actions (the lookup
   of the forced retry) depend on when it ran: either as soon as the mutex was free, or last. *)
Definition next_invisible (c : cstate) (i : nat) : bool :=
  match nth_error (c_threads c) i with
  | Some th =>
    match th_phase th, th_prog th with
    | TIdle, Do (ATeardown f) _ =>
      negb (c_lock c) &&
      match sec_trace (teardown_section (th_or th) (w_st (c_w c)) f) with [] => true | _ => false end
    | TIdle, Do (AForce _) _ => negb (c_lock c)   (* ForceError writes no event either *)
    | _, _ => false
    end
  | None => false
  end.

Definition drain_invisible (c : cstate) : cstate :=
  let pass c := fold_left (fun c i => if next_invisible c i then macro_step c i else c)
                          (seq 0 (length (c_threads c))) c in
  pass (pass c).

Definition run_macro_early (hint : list nat) (c : cstate) : cstate :=
  let c1 := fold_left (fun c i => run_silent 16 c i) (seq 0 (length (c_threads c))) c in
  fold_left (fun c i => drain_invisible (macro_step c i)) hint c1.

Definition run_macro_late (hint : list nat) (c : cstate) : cstate := drain_invisible (run_macro hint c).

Fixpoint log_states (l : list litem) : list estate :=
  match l with
  | [] => []
  | LI (SetSt d) :: r => d :: log_states r
  | _ :: r => log_states r
  end.
Fixpoint log_reported (l : list litem) : list estate :=
  match l with
  | [] => []
  | LE k _ rep :: r =>
    (* kind 3 = the harness' record of the state a reply carried; in a concurrent episode it is
       written when the caller's goroutine runs again, possibly after later transitions: it is
       compared per thread by the correspondence, not as part of the reported path *)
    if k =? 3 then log_reported r else rep :: log_reported r
  | _ :: r => log_reported r
  end.

Definition is_setst (t : titem) : bool := match t with SetSt _ => true | _ => false end.
Definition visible (l : list titem) : list titem := filter (fun t => negb (is_setst t)) l.
Definition trace_states (l : list titem) : list estate :=
  flat_map (fun t => match t with SetSt d => [d] | _ => [] end) l.

Fixpoint dedup_states (prev : estate) (l : list estate) : list estate :=
  match l with
  | [] => []
  | s :: r => if estate_eqb prev s then dedup_states prev r else s :: dedup_states s r
  end.

Fixpoint subseq_states (a b : list estate) : bool :=
  match a, b with
  | [], _ => true
  | _ :: _, [] => false
  | x :: a', y :: b' => if estate_eqb x y then subseq_states a' b' else subseq_states a b'
  end.

(* The observed log shows hooks and task commands in their true order, but the FSM state only as
   sampled at those instants: the sampled sequence must be a subsequence of the model's state
   sequence (a forced state overwritten before the next sample is not visible), the final state
   and every result must be equal. *)
Definition accepts (st0 : estate) (ths : list (req * N * option estate)) (items : list titem)
           (sampled : list estate) (final : estate) (listed : bool) (c : cstate) : bool :=
  trace_eqb (visible (rev (c_trace c))) items && estate_eqb (w_st (c_w c)) final &&
  subseq_states (dedup_states st0 sampled) (trace_states (rev (c_trace c))) &&
  Bool.eqb (w_listed (c_w c)) listed && negb (c_lock c) &&
  all2 (fun th t => thread_result_ok th (snd (fst t)) (snd t)) (c_threads c) ths.

Fixpoint is_prefix (a b : list titem) : bool :=
  match a, b with
  | [], _ => true
  | x :: a', y :: b' => titem_eqb x y && is_prefix a' b'
  | _, _ => false
  end.

(* Fallback when the eager schedule does not explain the observation (e.g. the reply state was
   read after somebody else's commit): depth-first search over step schedules, pruned as soon as
   the emitted trace is not a prefix of the observed one; [budget] bounds the visited nodes. *)
Fixpoint search (fuel : nat) (items : list titem) (accept : cstate -> bool) (c : cstate)
         (budget : N) {struct fuel} : bool * N :=
  match fuel with
  | O => (false, budget)
  | S f =>
    if accept c then (true, budget) else
    (fix try (is : list nat) (b : N) {struct is} : bool * N :=
       match is with
       | [] => (false, b)
       | i :: r =>
         if b =? 0 then (false, 0) else
         if enabled c i then
           let c' := cstep env_events api_bodyful c i in
           if is_prefix (visible (rev (c_trace c'))) items then
             let '(ok, b') := search f items accept c' (b - 1) in
             if ok then (true, b') else try r b'
           else try r b
         else try r b
       end) (seq 0 (length (c_threads c))) budget
  end.

(* Guided search: the locked sections begin in the order of the hint; between the phases of the
   sections every pending unlocked action (lookup, read, forced state) of every thread is either run
   now or postponed to the next such point, with at most [k] postponements in the whole run
   (k = 0 is the eager schedule).  Refused teardowns (no mark in the log) run as soon as possible,
   or not before the end. *)
Fixpoint settle (fuel : nat) (ts : list nat) (k : nat) (c : cstate) (cont : nat -> cstate -> bool)
         {struct fuel} : bool :=
  match fuel with
  | O => false
  | S f =>
    match ts with
    | [] => cont k c
    | t :: r =>
      if next_silent c t then
        settle f ts k (cstep env_events api_bodyful c t) cont ||
        match k with S k' => settle f r k' c cont | O => false end
      else settle f r k c cont
    end
  end.

Definition all_threads (c : cstate) : list nat := seq 0 (length (c_threads c)).

Definition finish_all (c : cstate) : cstate :=
  let quiet c := fold_left (fun c i => run_silent 16 c i) (all_threads c) c in
  quiet (drain_invisible (quiet (drain_invisible (quiet c)))).

Fixpoint guided (hint : list nat) (k : nat) (c : cstate) (acc : cstate -> bool) {struct hint} : bool :=
  match hint with
  | [] => settle 200 (all_threads c) k c (fun _ c1 => acc (finish_all c1))
  | i :: r =>
    (* the pending unlocked actions first (a reply is read before a waiting forced state or refused
       teardown gets the mutex), then the sections that leave no mark: now, or not before later *)
    settle 200 (all_threads c) k c (fun k1 c0 =>
      let go c1 :=
        let c1 := run_silent 16 c1 i in
        if enabled c1 i && negb (next_silent c1 i) then
          settle 200 (all_threads c1) k1 (cstep env_events api_bodyful c1 i) (fun k2 c2 =>
            settle 200 (all_threads c2) k2 (cstep env_events api_bodyful c2 i) (fun k3 c3 =>
              guided r k3 (cstep env_events api_bodyful c3 i) acc))
        else false in
      if existsb (next_invisible c0) (all_threads c0) then go (drain_invisible c0) || go c0 else go c0)
  end.

(* The same guided search with long postponements: a goroutine that is about to run an unlocked
   action (typically the forced Sm.SetState after a cancelled GO_ERROR fallback) may not be
   scheduled again before several other callers have had the transition mutex.  Freezing a thread
   costs one unit of [k]; a frozen thread is skipped at no cost and may be released at any later
   point (it is released anyway when it is its turn to take the mutex, and at the end). *)
Definition memnat (t : nat) (l : list nat) : bool := existsb (Nat.eqb t) l.
Definition delnat (t : nat) (l : list nat) : list nat := filter (fun x => negb (Nat.eqb t x)) l.

Fixpoint settleF (fuel : nat) (ts : list nat) (k : nat) (fr : list nat) (c : cstate)
         (cont : nat -> list nat -> cstate -> bool) {struct fuel} : bool :=
  match fuel with
  | O => false
  | S f =>
    match ts with
    | [] => cont k fr c
    | t :: r =>
      if next_silent c t then
        if memnat t fr then
          settleF f r k fr c cont || settleF f ts k (delnat t fr) c cont
        else
          settleF f ts k fr (cstep env_events api_bodyful c t) cont ||
          match k with S k' => settleF f r k' (t :: fr) c cont | O => false end
      else settleF f r k fr c cont
    end
  end.

Fixpoint guidedF (hint : list nat) (k : nat) (fr : list nat) (c : cstate) (acc : cstate -> bool)
         {struct hint} : bool :=
  match hint with
  | [] => settleF 200 (all_threads c) k fr c (fun _ _ c1 => acc (finish_all c1))
  | i :: r =>
    settleF 200 (all_threads c) k fr c (fun k1 fr1 c0 =>
      let go c1 :=
        let c1 := run_silent 16 c1 i in
        let fr1 := delnat i fr1 in
        if enabled c1 i && negb (next_silent c1 i) then
          settleF 200 (all_threads c1) k1 fr1 (cstep env_events api_bodyful c1 i) (fun k2 fr2 c2 =>
            settleF 200 (all_threads c2) k2 fr2 (cstep env_events api_bodyful c2 i) (fun k3 fr3 c3 =>
              guidedF r k3 fr3 (cstep env_events api_bodyful c3 i) acc))
        else false in
      if existsb (next_invisible c0) (all_threads c0) then go (drain_invisible c0) || go c0 else go c0)
  end.

Definition corr_conc st0 o ths (macro micro : list N) (log : list litem) final listed : bool :=
  let items := visible (log_items log) in
  let sampled := log_states log in
  let c0 := init_c (mkWorld st0 true) (map (fun t => (prog_of (fst (fst t)), o)) ths) in
  let acc := accepts st0 ths items sampled final listed in
  (match micro with
   | _ :: _ => acc (run_sched env_events api_bodyful (map N.to_nat micro) c0)
   | [] => acc (run_macro (map N.to_nat macro) c0) || acc (run_macro_early (map N.to_nat macro) c0) ||
           acc (run_macro_late (map N.to_nat macro) c0) ||
           guided (map N.to_nat macro) 1 c0 acc || guided (map N.to_nat macro) 2 c0 acc ||
           guided (map N.to_nat macro) 3 c0 acc ||
           guidedF (map N.to_nat macro) 1 [] c0 acc || guidedF (map N.to_nat macro) 2 [] c0 acc
   end) ||
  fst (search 120 items acc c0 30000).

Definition corr01 (c : c01_case) : bool :=
  match c with
  | CSeq st0 steps => corr_seq (mkWorld st0 true) steps
  | CFsm st0 ev o err final trace =>
    let sec := fsm_section env_events all_bodyful o st0 ev in
    Bool.eqb (sec_err sec) err && estate_eqb (sec_final st0 sec) final && trace_eqb (sec_trace sec) trace
  | CConc st0 o ths macro micro log final listed => corr_conc st0 o ths macro micro log final listed
  | CHung _ _ => true
  end.

(* ---------- the property evaluated on what the implementation did ---------- *)
(* codes:
   1  a state change that is not an edge of the documented graph (sequential history, or source
      neither DONE nor ERROR)
   2  DONE -> ERROR on an environment that is no longer listed (stale handle)        [C01-a]
   3  any other state change out of DONE
   4  a request that is not legal in the current state ran a hook of its own or sent a task command
   5  a control request left the environment neither in the documented destination nor in ERROR,
      or an illegal / failed one did not leave it in ERROR, or a refused one changed something
   6  two transitions / teardowns in progress at the same time, or a hook / task command outside
      any transition
   7  the states reported in the event stream do not follow the documented graph
   8  the reply reports a state different from the state the environment is in
   9  concurrent callers, one ControlEnvironment answered "Aborted" in an episode with a failing hook
      on the GO_ERROR fallback path (ERROR forced without the transition mutex): the environment
      left ERROR other than by teardown, or ended live                                    [C01-b]
   10 concurrent requests never returned (deadlock) in an episode with a ControlEnvironment
      transition request and a failing hook on the GO_ERROR fallback path                [C01-c]
   11 concurrent requests never returned, any other episode
   12 a hook ran or a task command was sent in a locked section that started in DONE
   13 a teardown / destroy reported success although the environment was DONE when its section
      started, or two requests reported a successful teardown of the same environment
   14 a leave hook of a state other than the one its section started in
   15 Manager.TeardownEnvironment without force executed from a state other than STANDBY / DEPLOYED
   (12-15: a locked section decided on a state that was not the one left by the previous section)
   16 the answer of a request depends on the caller's context (Canceled / DeadlineExceeded, no
      reply) although what it did to the environment is right *)

Definition edge_code (conc listed : bool) (e : estate * estate) : N :=
  let '(a, b) := e in
  if estate_eqb a b || doc_edge a b then 0
  else if estate_eqb a sDONE then (if estate_eqb b sERROR && negb listed then 2 else 3)
  else if conc && estate_eqb a sERROR then 9
  else 1.

Fixpoint first_code (l : list N) : N :=
  match l with [] => 0 | c :: r => if c =? 0 then first_code r else c end.

Definition edges_code (conc listed : bool) (es : list (estate * estate)) : N :=
  first_code (map (edge_code conc listed) es).
Definition reported_code (c : N) : N := if c =? 1 then 7 else c.

(* consecutive pairs of a state sequence *)
Fixpoint pairs_from (s : estate) (l : list estate) : list (estate * estate) :=
  match l with [] => [] | d :: r => (s, d) :: pairs_from d r end.

(* hooks that belong to the requested event itself *)
Definition own_item (ev : eevent) (t : titem) : bool :=
  match t with
  | Hook (MBefore e) | Hook (MAfter e) | Body e => eevent_eqb e ev
  | _ => false
  end.

(* the answer of a request carries the caller's context error (Canceled / DeadlineExceeded) *)
Definition ctx_code (c : N) : bool := (c =? 6) || (c =? 7).

(* an item of the trace that the oracle makes fail: a critical hook of a failing moment ran, or a
   task command that fails was sent *)
Definition failing_item (o : oracle) (t : titem) : bool :=
  match t with
  | Hook m => mem_moment m (o_hooks o)
  | Body e => mem_event e (o_bodies o)
  | SetSt _ => false
  end.

Definition mon_step0 (s0 : estate) (listed0 : bool) (o : oracle) (q : req) (ob : robs) (evs : list oev) : N :=
  let es := trace_edges s0 (ro_trace ob) ++
            [(fold_left (fun s t => match t with SetSt d => d | _ => s end) (ro_trace ob) s0, ro_final ob)] in
  let g := edges_code false listed0 es in
  if negb (g =? 0) then g else
  let rep := pairs_from s0 (map (fun e => snd e) evs) in
  (* the event written when the task commands of a transition have succeeded already reports
     the destination; the sequence of reported states must still be a path of the graph *)
  let g2 := reported_code (edges_code false listed0 rep) in
  if negb (g2 =? 0) then g2 else
  match q with
  | QControl ot =>
    if negb listed0 then
      (if (ro_code ob =? 1) && estate_eqb (ro_final ob) s0 && trace_eqb (ro_trace ob) [] then 0 else 5)
    else
    match doc_op_event ot with
    | None =>   (* NOOP, GO_ERROR and unknown operations are not requestable: refused, inert *)
      if (ro_code ob =? 2) && estate_eqb (ro_final ob) s0 && trace_eqb (ro_trace ob) [] then 0 else 5
    | Some ev =>
      let reply_ok := match ro_state ob with Some r => estate_eqb r (ro_final ob) | None => false end in
      match doc_op ot s0 with
      | None =>      (* not legal in s0 *)
        if existsb (own_item ev) (ro_trace ob) then 4
        else if negb (estate_eqb (ro_final ob) sERROR) then 5
        else if negb reply_ok then 8 else 0
      | Some d =>
        (* every way the transition can fail (a critical hook in either weight pass of any moment,
           a task command) must end in ERROR, whatever the request is answered *)
        if existsb (failing_item o) (ro_trace ob) && negb (estate_eqb (ro_final ob) sERROR) then 5 else
        if estate_eqb (ro_final ob) d && ((ro_code ob =? 0) || ctx_code (ro_code ob)) then
          (if reply_ok || ctx_code (ro_code ob) then 0 else 8)
        else if estate_eqb (ro_final ob) sERROR then (if reply_ok then 0 else 8)
        else 5
      end
    end
  | QTeardown _ | QDestroy _ _ _ =>
    (* a teardown either ends in DONE and unlisted, or changes nothing but possibly towards ERROR *)
    if estate_eqb (ro_final ob) sDONE then (if ro_listed ob && listed0 then 5 else 0)
    else if ro_listed ob || negb listed0 then 0 else 5
  | _ => 0
  end.

(* 16: what the request did to the environment is right, but its answer depends on the caller's
   context (no reply; Canceled / DeadlineExceeded) *)
Definition mon_step (s0 : estate) (listed0 : bool) (o : oracle) (q : req) (ob : robs) (evs : list oev) : N :=
  let c := mon_step0 s0 listed0 o q ob evs in
  if (c =? 0) || (c =? 8) then (if ctx_code (ro_code ob) then 16 else c) else c.

Fixpoint mon_seq (s : estate) (listed : bool) (steps : list (req * oracle * robs * list oev)) : N :=
  match steps with
  | [] => 0
  | (q, o, ob, evs) :: r =>
    let c := mon_step s listed o q ob evs in
    if negb (c =? 0) then c else mon_seq (ro_final ob) (ro_listed ob) r
  end.

(* brackets in a raw log: depth never above 1, items only at depth 1 (forced states excepted) *)
Fixpoint brackets_ok (depth : N) (l : list litem) : bool :=
  match l with
  | [] => true
  | LE 1 _ _ :: r => (depth =? 0) && brackets_ok 1 r
  | LE 2 _ _ :: r => (depth =? 1) && brackets_ok 0 r
  | LE 4 _ _ :: r => (depth =? 1) && brackets_ok 0 r
  | LE _ _ _ :: r => brackets_ok depth r
  | LI (SetSt _) :: r => brackets_ok depth r
  | LI _ :: r => (depth =? 1) && brackets_ok depth r
  end.

(* a hook fault on the path of the GO_ERROR fallback: the only way a ControlEnvironment reaches its
   unlocked Sm.SetState("ERROR") while somebody else's event can still be running callbacks *)
Definition goerror_path_fault (o : oracle) : bool :=
  existsb (fun m => match m with
                    | MBefore eGO_ERROR | MAfter eGO_ERROR | MEnter sERROR => true
                    | MLeave s => live s
                    | _ => false
                    end) (o_hooks o).

(* some ControlEnvironment of the episode was answered Aborted: its transition failed and the
   environment was put in ERROR, by the GO_ERROR fallback or by the unlocked forced state *)
Definition aborted (ths : list (req * N * option estate)) : bool :=
  existsb (fun t => match fst (fst t) with QControl _ => snd (fst t) =? 3 | _ => false end) ths.

(* Each locked section sees the state left by the previous one, judged on the observed log.  The
   state in which a section started is the FSM state sampled when its opening event was written
   (inside the mutex).  12: a hook ran or a task command was sent in a section that started in DONE;
   14: a leave hook names a state other than the one the section started in. *)
Fixpoint sections_code (open : option estate) (l : list litem) : N :=
  match l with
  | [] => 0
  | LE 1 st _ :: r => sections_code (Some st) r
  | LE 2 _ _ :: r => sections_code None r
  | LE 4 _ _ :: r => sections_code None r
  | LE _ _ _ :: r => sections_code open r
  | LI (SetSt _) :: r => sections_code open r
  | LI it :: r =>
    match open with
    | Some st0 =>
      if estate_eqb st0 sDONE then 12 else
      match it with
      | Hook (MLeave s) => if estate_eqb s st0 then sections_code open r else 14
      | _ => sections_code open r
      end
    | None => sections_code open r
    end
  end.

Fixpoint open_states (l : list litem) : list estate :=
  match l with
  | [] => []
  | LE 1 st _ :: r => st :: open_states r
  | _ :: r => open_states r
  end.

(* the request that owns a section (the hint lists the thread of every opening event): 13: a
   teardown / destroy that reports success although the environment was DONE when its section
   started; 15: Manager.TeardownEnvironment without force executed from a state other than
   STANDBY / DEPLOYED *)
Definition owner_code (ths : list (req * N * option estate)) (i : N) (st : estate) : N :=
  match nth_error ths (N.to_nat i) with
  | Some (QTeardown f, code, _) =>
    if estate_eqb st sDONE && (code =? 0) then 13
    else if negb f && negb (mem_state st [sSTANDBY; sDEPLOYED]) then 15 else 0
  | Some (QDestroy _ _ _, code, _) => if estate_eqb st sDONE && (code =? 0) then 13 else 0
  | _ => 0
  end.
Fixpoint owners_code (ths : list (req * N * option estate)) (macro : list N) (os : list estate) : N :=
  match macro, os with
  | i :: m, st :: r => let c := owner_code ths i st in if c =? 0 then owners_code ths m r else c
  | _, _ => 0
  end.
(* how every section ended, in order: 2, or 4 for a TryTransition that returned an error *)
Fixpoint close_kinds (l : list litem) : list N :=
  match l with
  | [] => []
  | LE 2 _ _ :: r => 2 :: close_kinds r
  | LE 4 _ _ :: r => 4 :: close_kinds r
  | _ :: r => close_kinds r
  end.
(* a failing hook ran or a failing task command was sent inside a section owned by a
   ControlEnvironment thread (the hint lists the owner of every opening event) *)
Fixpoint control_ran_failing (ths : list (req * N * option estate)) (o : oracle) (macro : list N)
         (ctl : bool) (l : list litem) : bool :=
  match l with
  | [] => false
  | LE 1 _ _ :: r =>
    match macro with
    | i :: m => control_ran_failing ths o m
                  match nth_error ths (N.to_nat i) with Some (QControl _, _, _) => true | _ => false end r
    | [] => control_ran_failing ths o [] false r
    end
  | LE 2 _ _ :: r => control_ran_failing ths o macro false r
  | LE 4 _ _ :: r => control_ran_failing ths o macro false r
  | LE _ _ _ :: r => control_ran_failing ths o macro ctl r
  | LI t :: r => (ctl && failing_item o t) || control_ran_failing ths o macro ctl r
  end.

(* some ControlEnvironment's TryTransition returned an error (its own transition or the fallback) *)
Fixpoint control_failed (ths : list (req * N * option estate)) (macro : list N) (cs : list N) : bool :=
  match macro, cs with
  | i :: m, k :: r =>
    ((k =? 4) && match nth_error ths (N.to_nat i) with Some (QControl _, _, _) => true | _ => false end)
    || control_failed ths m r
  | _, _ => false
  end.
Definition teardown_successes (ths : list (req * N * option estate)) : nat :=
  length (filter (fun t => match fst (fst t) with
                           | QTeardown _ | QDestroy _ _ _ => snd (fst t) =? 0
                           | _ => false
                           end) ths).

Definition mon_conc (st0 : estate) (o : oracle) (ths : list (req * N * option estate)) (macro : list N)
           (log : list litem) (final : estate) (listed : bool) : N :=
  if negb (brackets_ok 0 log) then 6 else
  let sc := sections_code None log in
  if negb (sc =? 0) then sc else
  let oc := if Nat.eqb (length macro) (length (open_states log))
            then owners_code ths macro (open_states log) else 0 in
  if negb (oc =? 0) then oc else
  (* an environment is torn down once: two requests reporting a successful teardown *)
  if Nat.leb 2 (teardown_successes ths) then 13 else
  (* a failed or illegal transition requested through the API leaves the environment in ERROR,
     whatever the caller does meanwhile and whatever it is answered: afterwards only a teardown moves it *)
  if Nat.eqb (length macro) (length (close_kinds log)) && control_failed ths macro (close_kinds log) && live final
  then 5 else
  (* ... also when the failure was swallowed: a hook that fails ran (in either weight pass of its
     moment) or a failing task command was sent in a ControlEnvironment's section *)
  if Nat.eqb (length macro) (length (open_states log)) && control_ran_failing ths o macro false log && live final
  then 5 else
  (* a control request answered Aborted has put the environment in ERROR: afterwards only a
     teardown may move it (class 5 when no unlocked forced state can be involved) *)
  if aborted ths && live final && negb (goerror_path_fault o) then 5 else
  (* leaving ERROR is class 9 only when an unlocked forced ERROR can be involved (a failed request
     whose GO_ERROR fallback has a failing hook on its path), class 1 otherwise *)
  let ab := aborted ths && goerror_path_fault o in
  let g := edges_code ab listed (pairs_from st0 (log_states log ++ [final])) in
  if negb (g =? 0) then g else
  let g2 := reported_code (edges_code ab listed (pairs_from st0 (log_reported log))) in
  if negb (g2 =? 0) then g2 else
  (* a control request answered Aborted has forced ERROR: afterwards only a teardown may move *)
  if ab && live final then 9 else
  if existsb (fun t => ctx_code (snd (fst t))) ths then 16 else 0.

Definition is_transition_request (q : req) : bool :=
  match q with
  | QControl ot => match doc_op_event ot with Some _ => true | None => false end
  | _ => false
  end.

Definition mon01 (c : c01_case) : N :=
  match c with
  | CSeq st0 steps => mon_seq st0 true steps
  | CFsm st0 ev o err final trace =>
    (* injected transitions may fire EXIT and RECOVER: only the shape is checked here: a failed
       event that did not move keeps the state; at most one state change *)
    match trace_edges st0 trace with
    | [] => if estate_eqb final st0 then 0 else 5
    | [(a, b)] => if estate_eqb final b then 0 else 5
    | _ => 5
    end
  | CConc st0 o ths macro micro log final listed => mon_conc st0 o ths macro log final listed
  | CHung o reqs => if existsb is_transition_request reqs && goerror_path_fault o then 10 else 11
  end.

(* ---------- branch tags (measured input distribution) ---------- *)
(* CSeq: 100 + number of requests that were illegal or failed (capped at 9) + 10 * teardown seen;
   CFsm: 200 + 10 * enabled + 1 * error + 2 * state moved;
   CConc: 300 + number of threads *)
Definition step_tag (s : estate) (q : req) (ob : robs) : N :=
  match q with
  | QControl ot => match doc_op ot s with
                   | Some d => if estate_eqb (ro_final ob) d then 0 else 1
                   | None => 1
                   end
  | _ => 0
  end.
Fixpoint seq_fail_count (s : estate) (steps : list (req * oracle * robs * list oev)) : N :=
  match steps with
  | [] => 0
  | (q, _, ob, _) :: r => step_tag s q ob + seq_fail_count (ro_final ob) r
  end.
Definition tag01 (c : c01_case) : N :=
  match c with
  | CSeq st0 steps =>
    100 + N.min 9 (seq_fail_count st0 steps) +
    (if existsb (fun x => match fst (fst (fst x)) with QTeardown _ | QDestroy _ _ _ => true | _ => false end) steps
     then 10 else 0)
  | CFsm st0 ev o err final trace =>
    200 + (if can env_events st0 ev then 10 else 0) + (if err then 1 else 0) +
    (if estate_eqb final st0 then 0 else 2)
  | CConc _ _ ths _ _ _ _ _ => 300 + Nlen ths
  | CHung _ reqs => 400 + Nlen reqs
  end.

Definition report01 := report corr01 mon01 tag01.
