(* TaskCmd — executable model of how an environment transition is decided from the per-task
   outcomes (property C02; the definitions are reused by Watcher.v for C03).
   Code modelled (AliceO2Group/Control):
     core/workflow/roleutils.go            GetActiveTasks (only tasks whose role status is ACTIVE)
     core/controlcommands/commandqueue.go  commit (one response per target; a send failure or a
                                           missing reply becomes an error response)
     core/controlcommands/multiresponse.go consolidateResponses (0 -> nil, 1 -> that response,
                                           else a multi-response)
     core/task/manager.go                  configureTasks / transitionTasks (no task: success at
                                           once; nil -> error; single: its error fails iff the task
                                           is critical; multi: errors split by the critical trait),
                                           handleMessage(TaskStateMessage, TaskStatusMessage)
     core/environment/transition_*.go      bodies of DEPLOY, CONFIGURE, START_ACTIVITY,
                                           STOP_ACTIVITY, RESET
     core/environment/environment.go       leave_state callback (body error cancels the event)
     core/environment/manager.go           CreateEnvironment (DEPLOY, CONFIGURE, failure tail)
     core/server.go                        ControlEnvironment (error -> GO_ERROR -> forced ERROR;
                                           the reply carries the error of the requested transition)
   Repaired behaviour (fix commits C02-a, C02-a2, C02-b, C02-d): a command with no target succeeds
   at once, CONFIGURE with no target does not wait, a single response is classified by the
   critical trait, a failed request returns its error.
   The role status/state folds are those of RoleTree.v (property C11).
   Definitions only; lemmas live in proofs/TaskCmd_proofs.v. *)
From Verif Require Import Common RoleTree Gen_FilteredPure Gen_ExecutorReplies.
Open Scope N_scope.

(* ------------------------------------------------------------------ *)
(* 1. Inputs: workflow shape and the oracle (per-task outcomes)        *)
(* ------------------------------------------------------------------ *)

Inductive cmode := Basic | Direct | Fairmq.
Record tdesc := mkT { t_crit : bool; t_mode : cmode; t_host : N }.

(* what happens to a task at deployment *)
Inductive launch :=
| LRun        (* launched, reports TASK_RUNNING *)
| LFail       (* launched, reports TASK_FAILED *)
| LSilent     (* launched, never reports *)
| LNoOffer    (* its required host is in no offer (descriptor undeployable) *)
| LNoRes.     (* no offer has the resources it wants (descriptor undeployed) *)

(* what a commanded task does with one transition command *)
Inductive outc :=
| Ack         (* reply without error, task in the destination state *)
| ErrSrc      (* error reply, task left in the source state *)
| ErrErr      (* error reply, task in ERROR *)
| SendFail    (* the command cannot be delivered *)
| Silent      (* no reply within the response timeout *)
| Dies.       (* the task dies (TASK_FAILED), no reply *)

Definition is_ack (o : outc) : bool := match o with Ack => true | _ => false end.
Definition is_run (l : launch) : bool := match l with LRun => true | _ => false end.

(* the four transitions that command tasks *)
Inductive cev := CONFIGURE | START | STOP | RESET.

Inductive estate := E_STANDBY | E_DEPLOYED | E_CONFIGURED | E_RUNNING | E_ERROR | E_DONE.
Scheme Equality for estate.
Scheme Equality for cev.

Definition N_of_estate (e : estate) : N :=
  match e with
  | E_STANDBY => 1 | E_DEPLOYED => 2 | E_CONFIGURED => 3 | E_RUNNING => 4 | E_ERROR => 5 | E_DONE => 6
  end.

(* environment.go, fsm.Events: source and destination of the four events *)
Definition ev_src (e : cev) : estate :=
  match e with CONFIGURE => E_DEPLOYED | START => E_CONFIGURED | STOP => E_RUNNING | RESET => E_CONFIGURED end.
Definition ev_dst (e : cev) : estate :=
  match e with CONFIGURE => E_CONFIGURED | START => E_RUNNING | STOP => E_CONFIGURED | RESET => E_DEPLOYED end.
(* GO_ERROR: Src = STANDBY, CONFIGURED, DEPLOYED, RUNNING *)
Definition go_error_ok (e : estate) : bool :=
  match e with E_ERROR | E_DONE => false | _ => true end.

(* the task-level source / destination states sent with the command *)
Definition task_src (e : cev) : state :=
  match e with CONFIGURE => STANDBY | START => CONFIGURED | STOP => RUNNING | RESET => CONFIGURED end.
Definition task_dst (e : cev) : state :=
  match e with CONFIGURE => CONFIGURED | START => RUNNING | STOP => CONFIGURED | RESET => STANDBY end.

(* ------------------------------------------------------------------ *)
(* 2. Run-time view of a task role                                     *)
(* ------------------------------------------------------------------ *)

Record rtask := mkR { r_d : tdesc; r_stat : status; r_st : state }.

Definition r_crit (t : rtask) : bool := t_crit (r_d t).
(* GetActiveTasks: the role's status is ACTIVE *)
Definition active (t : rtask) : bool := status_beq (r_stat t) ACTIVE.

Definition fresh_task (d : tdesc) : rtask := mkR d INACTIVE STANDBY.

(* the workflow as a role tree: the root aggregator over the task roles and the call roles (a call
   role is set ACTIVE by DEPLOY itself and never changes state) *)
Definition leaf_of (t : rtask) : rtree := Leaf (r_crit t) (r_st t) (r_stat t).
Definition call_leaf : rtree := Leaf false STANDBY ACTIVE.
Definition wf_leaves (ts : list rtask) (ncalls : N) : list rtree :=
  map leaf_of ts ++ repeat call_leaf (N.to_nat ncalls).
Definition wf_status (ts : list rtask) (ncalls : N) : status := fold_status (wf_leaves ts ncalls).
Definition wf_state (ts : list rtask) (ncalls : N) : state := fold_state (wf_leaves ts ncalls).

(* ------------------------------------------------------------------ *)
(* 3. One task command: commit, consolidate, classify                  *)
(* ------------------------------------------------------------------ *)

(* outcome for the task at position i; a missing entry is an acknowledgement *)
Definition oc_at (oc : list outc) (i : nat) : outc := nth i oc Ack.

Fixpoint indexed_from {A} (i : nat) (l : list A) : list (nat * A) :=
  match l with
  | [] => []
  | x :: r => (i, x) :: indexed_from (S i) r
  end.
Definition indexed {A} (l : list A) : list (nat * A) := indexed_from 0 l.

(* the targets of a command: positions of the active tasks *)
Definition targets (ts : list rtask) : list (nat * rtask) :=
  filter (fun p => active (snd p)) (indexed ts).

(* commit: every target yields exactly one response; it carries an error unless the task
   acknowledged (error reply, send error, or timeout turned into an error response) *)
(* The core judges an answer by its error text alone (Servent.ProcessResponse, commit, configureTasks
   / transitionTasks never look at the reported state): that a response without error means "the
   task performed the transition" is the executor's business - its message handler answers without
   error only for a task whose Transition it executed, passes a refusal on with its error text, and
   says nothing for a task it no longer runs (the core then times out).  [executor_faithful] is
   computed from the probe of the real handler (executor/handlers.go, handleMessageEvent) that
   h02 -gen makes on every run (gen/Gen_ExecutorReplies.v).  When the probe does not say so an answer
   without error proves nothing and nothing is promised: every outcome is modelled as acknowledged. *)
Definition executor_faithful : bool :=
  N.ltb 0 executor_probe_cases && N.eqb executor_ack_without_transition 0 &&
  N.eqb executor_ack_lost 0 && N.eqb executor_refusal_without_error 0 && N.eqb executor_wrong_task_ran 0.

Definition resp_err (o : outc) : bool := executor_faithful && negb (is_ack o).
Definition commit (tg : list (nat * rtask)) (oc : list outc) : list (bool * bool) :=
  map (fun p => (r_crit (snd p), resp_err (oc_at oc (fst p)))) tg.      (* (critical, has error) *)

Inductive consolidated :=
| CNone                                 (* nil response *)
| CSingle (r : bool * bool)             (* the only target's own response: (critical, has error) *)
| CMulti (rs : list (bool * bool)).     (* MesosCommandMultiResponse *)

Definition consolidate (rs : list (bool * bool)) : consolidated :=
  match rs with
  | [] => CNone
  | [r] => CSingle r
  | _ => CMulti rs
  end.

Inductive cres := ROk | RErrNil | RErrSingle | RErrCritical.

(* The multi-response branch of configureTasks / transitionTasks looks every answering task up in
   the task manager's roster (m.GetTask) and counts the error of a task it does not find as
   non-critical.  The tasks of a live environment stay in the roster only as long as the roster's
   filters (KillTasks of another environment, HandleExecutorFailed / HandleAgentFailed, Cleanup,
   acquireTasks), which hand the roster's own slice to Tasks.Filtered, do not write through it:
   [roster_intact] is computed from the probe of the running Tasks.Filtered that h02 -gen makes on
   every run (gen/Gen_FilteredPure.v).  When the probe does not say so a critical task may be
   missing from the roster and nothing is promised about the classification: every error is
   modelled as tolerated. *)
Definition roster_intact : bool :=
  N.ltb 0 filtered_probe_cases && N.eqb filtered_receiver_changed 0 &&
  N.eqb filtered_wrong_result 0 && N.eqb filtered_aliases_receiver 0.

(* configureTasks / transitionTasks after the response came back *)
Definition classify (c : consolidated) : cres :=
  match c with
  | CNone => RErrNil
  | CSingle r => if fst r && snd r then RErrSingle else ROk
  | CMulti rs => if roster_intact && existsb (fun r => fst r && snd r) rs then RErrCritical else ROk
  end.

(* no target: transitionTasks returns at once (the CONFIGURE body sends nothing and waits for
   nothing); otherwise the consolidated response is classified *)
Definition cmd_result (ts : list rtask) (oc : list outc) : cres :=
  match targets ts with
  | [] => ROk
  | tg => classify (consolidate (commit tg oc))
  end.

Definition res_ok (r : cres) : bool := match r with ROk => true | _ => false end.

(* what the command leaves behind in a commanded task (TaskStateMessage from the reply,
   TaskStatusMessage when it died) *)
Definition task_after (e : cev) (o : outc) (t : rtask) : rtask :=
  match o with
  | Ack => mkR (r_d t) (r_stat t) (task_dst e)
  | ErrSrc => mkR (r_d t) (r_stat t) (task_src e)
  | ErrErr => mkR (r_d t) (r_stat t) ERROR
  | SendFail | Silent => t
  | Dies => mkR (r_d t) INACTIVE ERROR
  end.

Definition tasks_after (e : cev) (ts : list rtask) (oc : list outc) : list rtask :=
  map (fun p => if active (snd p) then task_after e (oc_at oc (fst p)) (snd p) else snd p) (indexed ts).

(* ------------------------------------------------------------------ *)
(* 4. The environment: API request, creation, idle death of a task     *)
(* ------------------------------------------------------------------ *)

Record sys := mkSys { s_env : estate; s_ts : list rtask; s_ncalls : N }.

(* what a caller and the event stream see of one request *)
Record step_obs := mkSO {
  o_state : N;            (* environment state in the reply / after the request (0: no such environment) *)
  o_err : bool;           (* the request returned an error *)
  o_hang : bool;          (* the request did not return *)
  o_reported : list N;    (* states published during the request, consecutive duplicates removed *)
  o_cmded : list N;       (* positions of the tasks that received the command *)
  o_tasks : list (N * N)  (* (state, status) of every task role afterwards *)
}.

Definition tasks_view (ts : list rtask) : list (N * N) :=
  map (fun t => (N_of_state (r_st t), N_of_status (r_stat t))) ts.
Definition cmded_view (ts : list rtask) : list N := map (fun p => N.of_nat (fst p)) (targets ts).

Definition is_configure (e : cev) : bool := match e with CONFIGURE => true | _ => false end.
Definition no_targets (ts : list rtask) : bool := match targets ts with [] => true | _ :: _ => false end.

(* the transition body ran to the end of the task command *)
Definition cmd_body (e : cev) (oc : list outc) (s : sys) : sys * step_obs :=
  let src := N_of_estate (s_env s) in
  let ts' := tasks_after e (s_ts s) oc in
  if res_ok (cmd_result (s_ts s) oc)
  then (mkSys (ev_dst e) ts' (s_ncalls s),
        mkSO (N_of_estate (ev_dst e)) false false [src; N_of_estate (ev_dst e)]
             (cmded_view (s_ts s)) (tasks_view ts'))
  else (* body error cancels the event in leave_state: state stays; the server then runs
          GO_ERROR, which succeeds from a live state, and returns the body's error *)
       (mkSys E_ERROR ts' (s_ncalls s),
        mkSO 5 true false [src; 5] (cmded_view (s_ts s)) (tasks_view ts')).

(* RpcServer.ControlEnvironment with one of the four command transitions *)
Definition api_control (e : cev) (oc : list outc) (s : sys) : sys * step_obs :=
  let src := N_of_estate (s_env s) in
  if negb (estate_beq (s_env s) (ev_src e)) then
    (* looplab: event inappropriate in the current state; no callback runs; then GO_ERROR, and
       if that is refused too the state is forced; the first error is returned *)
    if go_error_ok (s_env s)
    then (mkSys E_ERROR (s_ts s) (s_ncalls s),
          mkSO 5 true false [src; 5] [] (tasks_view (s_ts s)))
    else (mkSys E_ERROR (s_ts s) (s_ncalls s),
          mkSO 5 true false [src] [] (tasks_view (s_ts s)))
  else cmd_body e oc s.

(* deployment: every launched-and-running task becomes ACTIVE; DEPLOY succeeds when the root
   status becomes ACTIVE, and fails on UNDEPLOYABLE / workflow ERROR / timeout otherwise *)
Definition task_launched (l : launch) (d : tdesc) : rtask :=
  match l with
  | LRun => mkR d ACTIVE STANDBY
  | LFail => mkR d INACTIVE ERROR
  | LSilent | LNoOffer | LNoRes => mkR d INACTIVE STANDBY
  end.
Fixpoint launch_all (ds : list tdesc) (ls : list launch) : list rtask :=
  match ds with
  | [] => []
  | d :: r => task_launched (hd LRun ls) d :: launch_all r (tl ls)
  end.
(* [wf_status] - the root's cached status is the fold over its leaves once every update has run -
   is true of the code only because every merge on the way up (SafeStatus.merge of each aggregator,
   one goroutine per Mesos status update) re-aggregates the children and stores the result in one
   critical section: [status_merge_atomic] (RoleTree.v section 7b) is computed from what the
   translator mergeatomic counts in core/workflow/safestatus.go (gen/Gen_MergeAtomic.v,
   regenerated on every run).  When the source does not say so an update can be lost (a stale
   PARTIAL stored over ACTIVE) and nothing is promised about what DEPLOY sees: it is modelled as
   never seeing ACTIVE, and the theorems about DEPLOY carry the fact as a hypothesis. *)
Definition deploy_ok (ts : list rtask) (ncalls : N) : bool :=
  status_merge_atomic && status_beq (wf_status ts ncalls) ACTIVE.

(* envman.CreateEnvironment: DEPLOY, CONFIGURE; on failure GO_ERROR, teardown, error returned *)
Definition create (ds : list tdesc) (ncalls : N) (ls : list launch) (oc : list outc) : option sys * step_obs :=
  let ts := launch_all ds ls in
  if negb (deploy_ok ts ncalls) then
    (None, mkSO 0 true false [1; 5; 6] [] [])
  else
    let ts' := tasks_after CONFIGURE ts oc in
    if res_ok (cmd_result ts oc)
    then (Some (mkSys E_CONFIGURED ts' ncalls),
          mkSO 3 false false [1; 2; 3] (cmded_view ts) (tasks_view ts'))
    else (None, mkSO 0 true false [1; 2; 5; 6] (cmded_view ts) []).

(* a task dies while the environment is idle (Mesos TASK_FAILED for an owned task): state ERROR,
   status INACTIVE; a critical one takes the environment to ERROR through the watcher (Watcher.v
   models that path step by step; here it is one step) *)
Fixpoint kill_nth (i : nat) (ts : list rtask) : list rtask :=
  match ts, i with
  | [], _ => []
  | t :: r, O => mkR (r_d t) INACTIVE ERROR :: r
  | t :: r, S i' => t :: kill_nth i' r
  end.
Definition idle_kill (i : nat) (s : sys) : sys * step_obs :=
  let ts' := kill_nth i (s_ts s) in
  let crit := match nth_error (s_ts s) i with Some t => r_crit t | None => false end in
  let env' := if crit && go_error_ok (s_env s) then E_ERROR else s_env s in
  (mkSys env' ts' (s_ncalls s),
   mkSO (N_of_estate env') false false
        (if estate_beq env' (s_env s) then [] else [N_of_estate (s_env s); 5]) [] (tasks_view ts')).

Inductive op :=
| OCmd (e : cev) (oc : list outc)
| OKill (i : nat).

Definition step (o : op) (s : sys) : sys * step_obs :=
  match o with
  | OCmd e oc => api_control e oc s
  | OKill i => idle_kill i s
  end.

(* a history: the harness (and the model) stop at the first request that hangs (the model never
   does; the field stays because the implementation is observed with a watchdog) or leaves the
   environment in ERROR *)
Fixpoint run_ops (ops : list op) (s : sys) : list step_obs :=
  match ops with
  | [] => []
  | o :: r =>
      let (s', ob) := step o s in
      ob :: (if o_hang ob || estate_beq (s_env s') E_ERROR then [] else run_ops r s')
  end.

Record c02_input := mkIn {
  i_tasks : list tdesc; i_ncalls : N; i_launch : list launch; i_cfg : list outc; i_ops : list op }.

Definition run_model (i : c02_input) : list step_obs :=
  match create (i_tasks i) (i_ncalls i) (i_launch i) (i_cfg i) with
  | (Some s, ob) => ob :: run_ops (i_ops i) s
  | (None, ob) => [ob]
  end.

(* ------------------------------------------------------------------ *)
(* 5. Cases, correspondence                                            *)
(* ------------------------------------------------------------------ *)

Record c02_case := mkCase { c_in : c02_input; c_obs : list step_obs }.

Definition nn_eqb (a b : N * N) : bool := N.eqb (fst a) (fst b) && N.eqb (snd a) (snd b).
Definition so_eqb (a b : step_obs) : bool :=
  N.eqb (o_state a) (o_state b) && Bool.eqb (o_err a) (o_err b) && Bool.eqb (o_hang a) (o_hang b) &&
  list_eqb N.eqb (o_reported a) (o_reported b) && list_eqb N.eqb (o_cmded a) (o_cmded b) &&
  list_eqb nn_eqb (o_tasks a) (o_tasks b).

Definition corr02 (c : c02_case) : bool := list_eqb so_eqb (run_model (c_in c)) (c_obs c).

(* ------------------------------------------------------------------ *)
(* 6. The monitor: the property evaluated on what the implementation did *)
(* ------------------------------------------------------------------ *)
(* It uses the inputs (critical traits, scripted outcomes) and the observations only; it never
   calls cmd_result / deploy_ok / api_control.

   Violation classes (one per step; the case reports the one of highest priority):
    1  the request failed although every critical task got there (not one of 3..7)
    2  the destination state was reached / reported although a critical task did not get there
    3  START/STOP/RESET with no task to command fails instead of succeeding at once   (repaired C02-a)
    4  CONFIGURE with no task to command never returns                                (repaired C02-a2)
    5  the only commanded task is non-critical and its failure fails the transition   (repaired C02-b)
    6  DEPLOY fails because a non-critical task did not become active                 (finding C02-c)
    7  DEPLOY of a workflow without any role fails                                    (finding C02-a3)
    8  a failed transition is answered without an error (state ERROR in an OK reply)  (repaired C02-d)
    9  a failed transition does not leave the environment in ERROR
   10  the destination state is published although the transition failed
   11  the commanded tasks are not exactly the tasks whose role was ACTIVE
   12  a request never returns (other than 4)
   13  an idle death of a non-critical task changed the environment state, or that of a
       critical one did not take it to ERROR (C03's business, checked here for the few
       histories that contain it)
   14  observation malformed (no step observed / more steps than requested) *)

Definition stat_active (p : N * N) : bool := N.eqb (snd p) 3.

Fixpoint positions_from (i : N) (l : list (N * N)) : list N :=
  match l with
  | [] => []
  | p :: r => (if stat_active p then [i] else []) ++ positions_from (N.succ i) r
  end.
(* positions whose observed role status is ACTIVE *)
Definition active_positions (view : list (N * N)) : list N := positions_from 0 view.

(* every critical task is observed ACTIVE beforehand and scripted to acknowledge *)
Fixpoint crit_all_ok_from (i : nat) (ds : list tdesc) (view : list (N * N)) (oc : list outc) : bool :=
  match ds with
  | [] => true
  | d :: r =>
      (negb (t_crit d) ||
       (match view with p :: _ => stat_active p | [] => false end && is_ack (oc_at oc i))) &&
      crit_all_ok_from (S i) r (tl view) oc
  end.
Definition crit_all_ok ds view oc := crit_all_ok_from 0 ds view oc.

(* the single commanded position is a non-critical task whose scripted outcome is a failure *)
Definition single_noncrit_failure (ds : list tdesc) (cmded : list N) (oc : list outc) : bool :=
  match cmded with
  | [i] => match nth_error ds (N.to_nat i) with
           | Some d => negb (t_crit d) && negb (is_ack (oc_at oc (N.to_nat i)))
           | None => false
           end
  | _ => false
  end.

Definition mon_cmd (ds : list tdesc) (view : list (N * N)) (prev : N) (e : cev) (oc : list outc) (ob : step_obs) : N :=
  let dst := N_of_estate (ev_dst e) in
  let expected := crit_all_ok ds view oc in
  let reached := N.eqb (o_state ob) dst && negb (o_err ob) && negb (o_hang ob) in
  (* a request made in a state that does not allow the event is C01's business *)
  if negb (N.eqb prev (N_of_estate (ev_src e))) then 0
  else if negb (list_eqb N.eqb (o_cmded ob) (active_positions view)) && negb (o_hang ob) then 11
  else if expected then
    if reached then (if memN dst (o_reported ob) then 0 else 1)
    else if o_hang ob then
      (match e, o_cmded ob with CONFIGURE, [] => 4 | _, _ => 12 end)
    else match o_cmded ob with
         | [] => 3
         | _ => if single_noncrit_failure ds (o_cmded ob) oc then 5 else 1
         end
  else
    if reached then 2
    else if o_hang ob then 12
    else if memN dst (o_reported ob) then 10
    else if negb (N.eqb (o_state ob) 5) then 9
    else if negb (o_err ob) then 8
    else 0.

(* creation: every critical task launches and acknowledges CONFIGURE *)
Fixpoint crit_launch_ok (ds : list tdesc) (ls : list launch) : bool :=
  match ds with
  | [] => true
  | d :: r => (negb (t_crit d) || is_run (hd LRun ls)) && crit_launch_ok r (tl ls)
  end.
Fixpoint all_launch_ok (ds : list tdesc) (ls : list launch) : bool :=
  match ds with
  | [] => true
  | d :: r => is_run (hd LRun ls) && all_launch_ok r (tl ls)
  end.
Fixpoint crit_cfg_ok_from (i : nat) (ds : list tdesc) (oc : list outc) : bool :=
  match ds with
  | [] => true
  | d :: r => (negb (t_crit d) || is_ack (oc_at oc i)) && crit_cfg_ok_from (S i) r oc
  end.

Definition mon_create (ds : list tdesc) (ncalls : N) (ls : list launch) (oc : list outc) (ob : step_obs) : N :=
  let l_ok := crit_launch_ok ds ls in
  let expected := l_ok && crit_cfg_ok_from 0 ds oc in
  let reached := N.eqb (o_state ob) 3 && negb (o_err ob) && negb (o_hang ob) in
  let deployed := memN 2 (o_reported ob) in
  if expected then
    if reached then (if memN 3 (o_reported ob) then 0 else 1)
    else if o_hang ob then (match ds with [] => 4 | _ => 12 end)
    else if negb deployed then
      (match ds with
       | [] => if N.eqb ncalls 0 then 7 else 1
       | _ => if all_launch_ok ds ls then 1 else 6
       end)
    else if single_noncrit_failure ds (o_cmded ob) oc then 5 else 1
  else
    if reached then 2
    else if o_hang ob then 12
    else if memN 3 (o_reported ob) || (negb l_ok && deployed) then 10
    else if negb (memN 5 (o_reported ob)) then 9
    else if negb (o_err ob) then 8
    else 0.

Definition mon_kill (ds : list tdesc) (prev : N) (i : nat) (ob : step_obs) : N :=
  match nth_error ds i with
  | Some d => if t_crit d
              then (if N.eqb (o_state ob) 5 || negb (N.eqb prev 3 || N.eqb prev 4) then 0 else 13)
              else (if N.eqb (o_state ob) prev then 0 else 13)
  | None => if N.eqb (o_state ob) prev then 0 else 13
  end.

(* walk the requested operations along the observations; [view] and [prev] come from the
   previous observation *)
Fixpoint mon_ops (ds : list tdesc) (view : list (N * N)) (prev : N) (ops : list op) (obs : list step_obs) : list N :=
  match obs with
  | [] => []
  | ob :: obs' =>
      match ops with
      | [] => [14]
      | o :: ops' =>
          (match o with
           | OCmd e oc => mon_cmd ds view prev e oc ob
           | OKill i => mon_kill ds prev i ob
           end) :: mon_ops ds (o_tasks ob) (o_state ob) ops' obs'
      end
  end.

Definition prio02 : list N := [14; 2; 10; 9; 11; 12; 13; 1; 4; 3; 7; 5; 6; 8].
Definition pick02 (present : list N) : N :=
  match filter (fun c => memN c present) prio02 with [] => 0 | c :: _ => c end.

Definition mon_codes (c : c02_case) : list N :=
  let i := c_in c in
  match c_obs c with
  | [] => [14]
  | ob :: obs' =>
      mon_create (i_tasks i) (i_ncalls i) (i_launch i) (i_cfg i) ob ::
      mon_ops (i_tasks i) (o_tasks ob) (o_state ob) (i_ops i) obs'
  end.
Definition mon02 (c : c02_case) : N := pick02 (mon_codes c).

(* ------------------------------------------------------------------ *)
(* 7. Branch tags (measured input distribution)                        *)
(* ------------------------------------------------------------------ *)
(* bit set: 1 creation fails in DEPLOY, 2 creation fails in CONFIGURE, 4 a request hangs (never),
   8 a command with no target, 16 with one target, 32 with several, 64 a command fails,
   128 a non-critical failure is tolerated, 256 an idle death, 512 request in the wrong state *)
Definition noncrit_err (rs : list (bool * bool)) : bool := existsb (fun r => negb (fst r) && snd r) rs.

Definition tag_cmd (ts : list rtask) (oc : list outc) : N :=
  let rs := commit (targets ts) oc in
  (match rs with [] => 8 | [_] => 16 | _ => 32 end) +
  (if res_ok (cmd_result ts oc) then (if noncrit_err rs then 128 else 0) else 64).

Fixpoint tag_ops (ops : list op) (s : sys) : N :=
  match ops with
  | [] => 0
  | o :: r =>
      let (s', ob) := step o s in
      N.lor (match o with
             | OCmd e oc => if estate_beq (s_env s) (ev_src e)
                            then N.lor (tag_cmd (s_ts s) oc) (if o_hang ob then 4 else 0)
                            else 512
             | OKill _ => 256
             end)
            (if o_hang ob || estate_beq (s_env s') E_ERROR then 0 else tag_ops r s')
  end.

Definition tag02 (c : c02_case) : N :=
  let i := c_in c in
  match create (i_tasks i) (i_ncalls i) (i_launch i) (i_cfg i) with
  | (Some s, _) => N.lor (tag_cmd (launch_all (i_tasks i) (i_launch i)) (i_cfg i)) (tag_ops (i_ops i) s)
  | (None, ob) => if o_hang ob then 4 else if memN 2 (o_reported ob) then 2 else 1
  end.

Definition report02 := report corr02 mon02 tag02.
