(* Model of the channel address resolution of the AliECS core:
     core/task/channel/endpoint.go   (TcpEndpoint / IpcEndpoint, GetAddress, ToTargetEndpoint,
                                      ToBoundEndpoint, EndpointEquals)
     core/task/channel/inbound.go    (Inbound.ToFMQMap, MergeInbound)
     core/task/channel/outbound.go   (Outbound.ToFMQMap, MergeOutbound)
     core/workflow/rolebase.go       (CollectInboundChannels / CollectOutboundChannels)
     core/task/scheduler.go          (makeTaskForMesosResources: the task's local bind map)
     core/task/manager.go            (configureTasks: the environment-wide bind map, alias check)
     core/task/task.go               (BuildPropertyMap: the chans.* part of the CONFIGURE payload)
     core/task/taskclass/class.go    (targets of task-template connect blocks are cleared)
   Definitions only.  The port / IPC path handed to an inbound channel is an uninterpreted
   allocation (an oracle indexed by the position of the channel), see props.d/C13.json.
   The model describes the code after the repairs C13-a (a channel with a target of its own is
   neither allocated nor registered), C13-b (an inbound channel ToFMQMap refuses fails the
   configuration) and C13-c (one alias declared twice in one task is refused). *)
From Verif Require Export Common.
Open Scope N_scope.

(* ---------- constants ---------- *)
Definition s_tcp : str := [116;99;112;58;47;47].          (* tcp:// *)
Definition s_ipc : str := [105;112;99;58;47;47].          (* ipc:// *)
Definition s_star : str := [42].                          (* * *)
Definition s_colon : str := [58].                         (* TARGET_SEPARATOR *)
Definition s_dot : str := [46].                           (* PATH_SEPARATOR *)
Definition s_alias : str := [58;58].                      (* :: *)
Definition m_bind : str := [98;105;110;100].              (* bind *)
Definition m_connect : str := [99;111;110;110;101;99;116]. (* connect *)

Fixpoint has_prefix (p s : str) : bool :=
  match p, s with
  | [], _ => true
  | a :: p', b :: s' => (a =? b) && has_prefix p' s'
  | _ :: _, [] => false
  end.

Definition nonempty {A} (l : list A) : bool := match l with [] => false | _ => true end.

(* strings.HasPrefix(target,"tcp://") || strings.HasPrefix(target,"ipc://") *)
Definition is_explicit (t : str) : bool := has_prefix s_tcp t || has_prefix s_ipc t.

(* ---------- %d ---------- *)
Fixpoint dec_aux (fuel : nat) (n : N) (acc : str) : str :=
  match fuel with
  | O => acc
  | S f => let acc' := (48 + n mod 10) :: acc in
           let q := n / 10 in
           if q =? 0 then acc' else dec_aux f q acc'
  end.
Definition dec (n : N) : str := dec_aux (S (N.size_nat n)) n [].

(* ---------- endpoints ---------- *)
Inductive endpoint :=
| Tcp (host : str) (port : N) (tr : str)
| Ipc (path : str) (tr : str).

Definition ep_eqb (e f : endpoint) : bool :=            (* EndpointEquals *)
  match e, f with
  | Tcp h p t, Tcp h' p' t' => str_eqb h h' && (p =? p') && str_eqb t t'
  | Ipc p t, Ipc p' t' => str_eqb p p' && str_eqb t t'
  | _, _ => false
  end.

Definition ep_address (e : endpoint) : str :=           (* GetAddress *)
  match e with
  | Tcp h p _ => if negb (nonempty h) || str_eqb h s_star
                 then s_tcp ++ s_star ++ s_colon ++ dec p
                 else s_tcp ++ h ++ s_colon ++ dec p
  | Ipc p _ => s_ipc ++ p
  end.

Definition ep_transport (e : endpoint) : str :=
  match e with Tcp _ _ t => t | Ipc _ t => t end.

Definition to_target (host : str) (e : endpoint) : endpoint :=   (* ToTargetEndpoint *)
  match e with Tcp _ p t => Tcp host p t | Ipc p t => Ipc p t end.

Definition to_bound (e : endpoint) : endpoint :=                 (* ToBoundEndpoint *)
  match e with Tcp _ p t => Tcp s_star p t | Ipc p t => Ipc p t end.

(* ---------- bind maps (Go map[string]Endpoint): unique keys, lookup by [assoc] ---------- *)
Definition bindmap := list (str * endpoint).

Definition bm_remove {V} (k : str) (m : list (str * V)) : list (str * V) :=
  filter (fun kv => negb (str_eqb (fst kv) k)) m.
Definition bm_set {V} (k : str) (v : V) (m : list (str * V)) : list (str * V) :=
  (k, v) :: bm_remove k m.

(* ---------- channel declarations (the fields that decide addresses) ---------- *)
Record inbound := mkIn { i_name : str; i_tr : str; i_target : str; i_global : str; i_ipc : bool }.
Record outbound := mkOut { o_name : str; o_tr : str; o_target : str }.

Definition in_eqb (a b : inbound) : bool :=
  str_eqb (i_name a) (i_name b) && str_eqb (i_tr a) (i_tr b) && str_eqb (i_target a) (i_target b) &&
  str_eqb (i_global a) (i_global b) && Bool.eqb (i_ipc a) (i_ipc b).
Definition out_eqb (a b : outbound) : bool :=
  str_eqb (o_name a) (o_name b) && str_eqb (o_tr a) (o_tr b) && str_eqb (o_target a) (o_target b).

(* what a device is told about one channel: chans.<name>.0.address / method / transport *)
Definition chanprop := (str * str * str)%type.
Definition cp_eqb (a b : chanprop) : bool :=
  let '(a1, a2, a3) := a in let '(b1, b2, b3) := b in
  str_eqb a1 b1 && str_eqb a2 b2 && str_eqb a3 b3.

(* Inbound.ToFMQMap on the task's local bind map; None = error (fails the configuration) *)
Definition inbound_props (local : bindmap) (i : inbound) : option chanprop :=
  if is_explicit (i_target i) then Some (i_target i, m_bind, i_tr i)
  else if nonempty (i_target i) then None
  else match assoc (i_name i) local with
       | None => None
       | Some ep => Some (ep_address (to_bound ep), m_bind, ep_transport ep)
       end.

(* Outbound.ToFMQMap on the environment-wide bind map; None = error (fails the configuration) *)
Definition outbound_props (bm : bindmap) (o : outbound) : option chanprop :=
  if is_explicit (o_target o) then Some (o_target o, m_connect, o_tr o)
  else match assoc (o_target o) bm with
       | None => None
       | Some ep => Some (ep_address ep, m_connect, ep_transport ep)
       end.

(* ---------- MergeInbound / MergeOutbound ---------- *)
(* The mergo.Merge call of the Go code works on a copy of the range variable and has no effect:
   an entry of [lp] is appended iff no entry with its name is present yet. *)
Definition has_name {A} (nm : A -> str) (n : str) (l : list A) : bool :=
  existsb (fun c => str_eqb (nm c) n) l.
Definition merge_step {A} (nm : A -> str) (acc : list A) (v : A) : list A :=
  if has_name nm (nm v) acc then acc else acc ++ [v].
Definition merge {A} (nm : A -> str) (hp lp : list A) : list A := fold_left (merge_step nm) lp hp.

(* Collect*Channels: own declarations merged over the parent's collection, up to the root
   (the root's parent is the environment's ParentAdapter, which contributes nothing).
   [chain] = own list, parent's list, ..., root's list. *)
Definition collect {A} (nm : A -> str) (chain : list (list A)) : list A :=
  fold_right (merge nm) [] chain.

Definition find_by {A} (nm : A -> str) (n : str) (l : list A) : option A :=
  find (fun c => str_eqb (nm c) n) l.

(* the nearest level of the chain that declares a channel called [n] *)
Fixpoint nearest {A} (nm : A -> str) (n : str) (chain : list (list A)) : option A :=
  match chain with
  | [] => None
  | l :: r => match find_by nm n l with Some c => Some c | None => nearest nm n r end
  end.

(* ---------- the task's local bind map (makeTaskForMesosResources) ---------- *)
Definition is_alias_key (k : str) : bool := has_prefix s_alias k.
Definition alias_key (g : str) : str := s_alias ++ g.

(* the endpoint created for channel [c] from the allocation [a] = (port, ipc path) *)
Definition mk_ep (c : inbound) (a : N * str) : endpoint :=
  if i_ipc c then Ipc (snd a) (i_tr c) else Tcp s_star (fst a) (i_tr c).

(* a channel with a target of its own (static bind address) is neither allocated nor registered *)
Definition local_step (c : inbound) (a : N * str) (m : bindmap) : bindmap :=
  if nonempty (i_target c) then m
  else
    let ep := mk_ep c a in
    let m1 := bm_set (i_name c) ep m in
    if nonempty (i_global c) then bm_set (alias_key (i_global c)) ep m1 else m1.

(* channel number k (from 0) of the merged list receives allocation [al k] *)
Fixpoint local_from (chs : list inbound) (k : nat) (al : nat -> N * str) (m : bindmap) : bindmap :=
  match chs with
  | [] => m
  | c :: r => local_from r (S k) al (local_step c (al k) m)
  end.
Definition local_bindmap (chs : list inbound) (al : nat -> N * str) : bindmap :=
  local_from chs 0%nat al [].

(* ---------- deployed tasks ---------- *)
Record task := mkTask {
  t_path : str;                 (* path of the parent role *)
  t_host : str;                 (* hostname of the offer the task was placed on *)
  t_chans : bool;               (* control mode direct / fairmq: receives channel configuration *)
  t_in : list inbound;          (* MergeInbound(role collection, template bind) *)
  t_out : list outbound;        (* MergeOutbound(role collection, template connect) *)
  t_alloc : nat -> N * str      (* allocation oracle *)
}.
Definition t_local (t : task) : bindmap := local_bindmap (t_in t) (t_alloc t).

(* ---------- the environment-wide bind map (configureTasks) ---------- *)
Definition bind_key (path n : str) : str :=
  if is_alias_key n then n else path ++ s_colon ++ n.

Fixpoint env_add (path host : str) (entries : bindmap) (bm : bindmap) : option bindmap :=
  match entries with
  | [] => Some bm
  | (n, ep) :: r =>
    if is_alias_key n then
      match assoc n bm with
      | Some ex => if ep_eqb ex ep then env_add path host r bm else None
      | None => env_add path host r (bm_set n (to_target host ep) bm)
      end
    else env_add path host r (bm_set (path ++ s_colon ++ n) (to_target host ep) bm)
  end.

(* two inbound channels of one task claiming one global alias: "illegal redefinition" *)
Definition globals_of (chs : list inbound) : list str := filter nonempty (map i_global chs).
Definition alias_dup (chs : list inbound) : bool := negb (nodupb str_eqb (globals_of chs)).

Fixpoint env_from (tasks : list task) (bm : bindmap) : option bindmap :=
  match tasks with
  | [] => Some bm
  | t :: r => if alias_dup (t_in t) then None
              else match env_add (t_path t) (t_host t) (t_local t) bm with
                   | None => None
                   | Some bm' => env_from r bm'
                   end
  end.
Definition env_bindmap (tasks : list task) : option bindmap := env_from tasks [].

(* ---------- the chans.* part of a task's CONFIGURE payload (BuildPropertyMap) ---------- *)
(* The result is the sequence of writes into the property map (channel name, properties);
   a later write to the same name replaces an earlier one: [given]. *)
Definition props := list (str * chanprop).
Definition given (n : str) (pr : props) : option chanprop := assoc n (rev pr).

Definition is_some {A} (o : option A) : bool := match o with Some _ => true | None => false end.

Fixpoint in_writes (local : bindmap) (ins : list inbound) : option props :=
  match ins with
  | [] => Some []
  | i :: r => match inbound_props local i with
              | None => None                 (* "channel generation failed" *)
              | Some p => match in_writes local r with
                          | None => None
                          | Some w => Some ((i_name i, p) :: w)
                          end
              end
  end.

Fixpoint out_writes (bm : bindmap) (outs : list outbound) : option props :=
  match outs with
  | [] => Some []
  | o :: r => match outbound_props bm o with
              | None => None                 (* "channel generation failed" *)
              | Some p => match out_writes bm r with
                          | None => None
                          | Some w => Some ((o_name o, p) :: w)
                          end
              end
  end.

Definition task_props (bm : bindmap) (t : task) : option props :=
  if t_chans t then
    match in_writes (t_local t) (t_in t) with
    | None => None
    | Some wi => match out_writes bm (t_out t) with
                 | None => None
                 | Some w => Some (wi ++ w)
                 end
    end
  else Some [].

Fixpoint all_props (bm : bindmap) (tasks : list task) : option (list props) :=
  match tasks with
  | [] => Some []
  | t :: r => match task_props bm t with
              | None => None
              | Some p => match all_props bm r with
                          | None => None
                          | Some ps => Some (p :: ps)
                          end
              end
  end.

(* an ipc:// endpoint exists on the host of the task that binds it only: the host recorded for
   a key is that of the task that registered the entry (alias: the first claimant; path:name:
   the last writer), and a task with channel configuration whose outbound target resolves to
   an IPC endpoint of another host fails the configuration *)
Definition writes_keyb (t : task) (k : str) : bool :=
  existsb (fun kv : str * endpoint => str_eqb (bind_key (t_path t) (fst kv)) k) (t_local t).
Definition key_host (tasks : list task) (k : str) : option str :=
  option_map t_host (find (fun t => writes_keyb t k) (if is_alias_key k then tasks else rev tasks)).
Definition is_ipc_ep (e : endpoint) : bool := match e with Ipc _ _ => true | Tcp _ _ _ => false end.
Definition cross_ipc (tasks : list task) (bm : bindmap) (t : task) : bool :=
  t_chans t &&
  existsb (fun o => match assoc (o_target o) bm with
                    | Some ep => is_ipc_ep ep &&
                                 negb (option_eqb str_eqb (key_host tasks (o_target o)) (Some (t_host t)))
                    | None => false
                    end) (t_out t).

(* configureTasks up to the point where the command is sent: None = the configuration fails *)
Definition configure (tasks : list task) : option (list props) :=
  match env_bindmap tasks with
  | None => None
  | Some bm => if existsb (cross_ipc tasks bm) tasks then None else all_props bm tasks
  end.

(* ---------- workflows: one entry per task role, with the declarations along its path ---------- *)
Record wtask := mkW {
  w_names : list str;               (* role names, root first *)
  w_binds : list (list inbound);    (* bind blocks: own role, parent, ..., root *)
  w_conns : list (list outbound);   (* connect blocks: own role, parent, ..., root *)
  w_chans : bool;
  w_cbind : list inbound;           (* task template bind block *)
  w_cconn : list outbound;          (* task template connect block as written *)
  w_host : str;
  w_alloc : list (N * str)          (* allocation per merged inbound channel, in order *)
}.

Fixpoint join_path (names : list str) : str :=
  match names with
  | [] => []
  | [n] => n
  | n :: r => n ++ s_dot ++ join_path r
  end.

(* taskclass.Class.UnmarshalYAML drops the target of template-level connect entries *)
Definition clear_target (o : outbound) : outbound := mkOut (o_name o) (o_tr o) [].

Definition w_in (w : wtask) : list inbound := merge i_name (collect i_name (w_binds w)) (w_cbind w).
Definition w_out (w : wtask) : list outbound :=
  merge o_name (collect o_name (w_conns w)) (map clear_target (w_cconn w)).

Definition task_of (w : wtask) : task :=
  mkTask (join_path (w_names w)) (w_host w) (w_chans w) (w_in w) (w_out w)
         (fun k => nth k (w_alloc w) (0, [])).

Definition configure_wf (ws : list wtask) : option (list props) := configure (map task_of ws).

(* ---------- well-formedness used by the theorems ---------- *)
(* channel names of one task are pairwise different and none looks like an alias key *)
Definition names_of (t : task) : list str := map i_name (t_in t) ++ map o_name (t_out t).
Definition names_ok (t : task) : Prop :=
  NoDup (names_of t) /\ forall i, In i (t_in t) -> is_alias_key (i_name i) = false.

(* ====================================================================================== *)
(* correspondence cases                                                                    *)
(* ====================================================================================== *)
Inductive c13_case :=
| CInFmq (i : inbound) (bm : bindmap) (obs : option chanprop)          (* Inbound.ToFMQMap *)
| COutFmq (o : outbound) (bm : bindmap) (obs : option chanprop)        (* Outbound.ToFMQMap *)
| CMergeIn (hp lp : list inbound) (obs : list inbound)                 (* MergeInbound *)
| CMergeOut (hp lp : list outbound) (obs : list outbound)              (* MergeOutbound *)
| CEndpoint (e : endpoint) (host : str) (f : endpoint)
            (obs : str * endpoint * endpoint * bool)                   (* endpoint.go *)
| CEnv (ws : list wtask)                                               (* DEPLOY + CONFIGURE *)
       (obs : option (list (bindmap * props)))   (* per task: local bind map, chans.* told *)
       (ports : list (list N)).                  (* per task: ports requested in ACCEPT *)

(* equality of finite maps given as lists (the model side may carry overwritten entries) *)
Definition keys_in {V W} (a : list (str * V)) (b : list (str * W)) : bool :=
  forallb (fun kv => is_some (assoc (fst kv) b)) a.
Definition bm_eqb (a b : bindmap) : bool :=
  forallb (fun kv => option_eqb ep_eqb (assoc (fst kv) a) (Some (snd kv))) b && keys_in a b.
Definition props_eqb (model obs : props) : bool :=
  forallb (fun kv => option_eqb cp_eqb (given (fst kv) model) (Some (snd kv))) obs && keys_in model obs.

Fixpoint forall2b {A B} (f : A -> B -> bool) (a : list A) (b : list B) : bool :=
  match a, b with
  | [], [] => true
  | x :: a', y :: b' => f x y && forall2b f a' b'
  | _, _ => false
  end.

Definition corr13 (c : c13_case) : bool :=
  match c with
  | CInFmq i bm obs => option_eqb cp_eqb (inbound_props bm i) obs
  | COutFmq o bm obs => option_eqb cp_eqb (outbound_props bm o) obs
  | CMergeIn hp lp obs => list_eqb in_eqb (merge i_name hp lp) obs
  | CMergeOut hp lp obs => list_eqb out_eqb (merge o_name hp lp) obs
  | CEndpoint e host f (a, tg, bd, eq) =>
    str_eqb (ep_address e) a && ep_eqb (to_target host e) tg && ep_eqb (to_bound e) bd &&
    Bool.eqb (ep_eqb e f) eq
  | CEnv ws obs _ =>
    let ts := map task_of ws in
    match configure ts, obs with
    | None, None => true
    | Some ps, Some os =>
      forall2b (fun (mp : task * props) (o : bindmap * props) =>
                  bm_eqb (t_local (fst mp)) (fst o) && props_eqb (snd mp) (snd o))
               (combine ts ps) os
      && (length ts =? length ps)%nat
    | _, _ => false
    end
  end.

(* ====================================================================================== *)
(* monitor: the property evaluated on what the implementation did.  It does not use         *)
(* inbound_props / outbound_props / env_bindmap / merge; "the declaration that applies" is   *)
(* looked up directly (nearest role first, then the task template).                          *)
(* ====================================================================================== *)
Fixpoint drop_prefix (p s : str) : option str :=
  match p, s with
  | [], _ => Some s
  | a :: p', b :: s' => if a =? b then drop_prefix p' s' else None
  | _ :: _, [] => None
  end.

(* [ps] is the decimal form of one of [ports] *)
Definition port_in (ps : str) (ports : list N) : bool := existsb (fun p => str_eqb ps (dec p)) ports.

Definition s_tcp_star : str := s_tcp ++ s_star ++ s_colon.

(* the bind address told to the binder and the connect address told to a peer name the same
   endpoint: same port on the binder's host, or the same IPC path *)
Definition agree (host baddr caddr : str) : bool :=
  match drop_prefix s_tcp_star baddr with
  | Some ps => str_eqb caddr (s_tcp ++ host ++ s_colon ++ ps)
  | None => has_prefix s_ipc baddr && str_eqb caddr baddr
  end.

Definition dedup_names (l : list str) : list str :=
  fold_right (fun n acc => if mem_str n acc then acc else n :: acc) [] l.

Definition decls_in (w : wtask) : list inbound := concat (w_binds w) ++ w_cbind w.
Definition decls_out (w : wtask) : list outbound := concat (w_conns w) ++ map clear_target (w_cconn w).

Definition eff {A} (nm : A -> str) (decls : list A) : list A :=
  flat_map (fun n => match find_by nm n decls with Some c => [c] | None => [] end)
           (dedup_names (map nm decls)).
Definition eff_in (w : wtask) : list inbound := eff i_name (decls_in w).
Definition eff_out (w : wtask) : list outbound := eff o_name (decls_out w).

(* cases the monitor does not judge: a single block declaring one name twice, a name used for
   both directions in one task, names that look like alias keys *)
Definition block_clean {A} (nm : A -> str) (l : list A) : bool := nodupb str_eqb (map nm l).
Definition w_clean (w : wtask) : bool :=
  forallb (block_clean i_name) (w_cbind w :: w_binds w) &&
  forallb (block_clean o_name) (w_cconn w :: w_conns w) &&
  forallb (fun n => negb (mem_str n (map o_name (decls_out w))) && negb (is_alias_key n))
          (map i_name (decls_in w)).

Definition invalid_target (t : str) : bool := nonempty t && negb (is_explicit t).

(* does target [tgt] spell channel [e] of the task with path [p]?  ([target_names]: by its
   declaration; [target_hits]: and the channel takes part in matching, i.e. has no target of
   its own) *)
Definition target_names (tgt p : str) (e : inbound) : bool :=
  str_eqb tgt (p ++ s_colon ++ i_name e) ||
  (nonempty (i_global e) && str_eqb tgt (alias_key (i_global e))).
Definition target_hits (tgt p : str) (e : inbound) : bool :=
  negb (nonempty (i_target e)) && target_names tgt p e.

(* all (ports requested for the task in ACCEPT, task, told, effective inbound channel) *)
Definition binder := (list N * wtask * props * inbound)%type.
Definition binders_of (l : list (wtask * props * list N)) : list binder :=
  flat_map (fun x : wtask * props * list N =>
              let '(w, pr, pt) := x in map (fun e => (pt, w, pr, e)) (eff_in w)) l.

Definition w_path (w : wtask) : str := join_path (w_names w).

(* [addr]/[tr] is the endpoint allocated to channel [e] at launch, as a peer sees it: the
   binder's host with one of the ports requested for the task, or an IPC path; declared
   transport *)
Definition alloc_addr_ok (host : str) (ports : list N) (e : inbound) (addr tr : str) : bool :=
  str_eqb tr (i_tr e) &&
  (if i_ipc e then has_prefix s_ipc addr
   else match drop_prefix (s_tcp ++ host ++ s_colon) addr with
        | Some ps => port_in ps ports
        | None => false
        end).

(* the peer's address agrees with what the binder was told (a binder without channel
   configuration - control mode basic - is told nothing: the allocation is compared) *)
Definition good_hit (addr tr : str) (b : binder) : bool :=
  let '(pt, w, pr, e) := b in
  if w_chans w then
    match assoc (i_name e) pr with
    | Some (baddr, bm, btr) => str_eqb bm m_bind && agree (w_host w) baddr addr && str_eqb tr btr
    | None => false
    end
  else alloc_addr_ok (w_host w) pt e addr tr.

(* regressions of repaired defects: the peer was sent to an allocation made for a channel that
   is told its own explicit target (5) / whose target is invalid (6) *)
Definition known_hit (cls : N) (addr tr : str) (b : binder) : bool :=
  let '(pt, w, _, e) := b in
  alloc_addr_ok (w_host w) pt e addr tr &&
  (if cls =? 5 then is_explicit (i_target e) else invalid_target (i_target e)).

Definition hits_of (bs : list binder) (d : outbound) : list binder :=
  filter (fun b : binder => let '(_, w, _, e) := b in target_hits (o_target d) (w_path w) e) bs.
Definition named_by (bs : list binder) (d : outbound) : list binder :=
  filter (fun b : binder => let '(_, w, _, e) := b in target_names (o_target d) (w_path w) e) bs.

(* the binder's host *)
Definition binder_host (b : binder) : str := let '(_, w, _, _) := b in w_host w.

Definition check_out (bs : list binder) (host : str) (pr : props) (d : outbound) : N :=
  match assoc (o_name d) pr with
  | None => if negb (is_explicit (o_target d)) && negb (nonempty (hits_of bs d)) then 15 else 2
  | Some (addr, meth, tr) =>
    if negb (str_eqb meth m_connect) then 2
    else if is_explicit (o_target d) then
      (if str_eqb addr (o_target d) && str_eqb tr (o_tr d) then 0 else 3)
    else if existsb (good_hit addr tr) (hits_of bs d) then
      (* an IPC endpoint can be reached on the binder's host only *)
      (if has_prefix s_ipc addr &&
          negb (existsb (fun b => good_hit addr tr b && str_eqb (binder_host b) host) (hits_of bs d))
       then 16 else 0)
    else if existsb (known_hit 5 addr tr) (named_by bs d) then 5
    else if existsb (known_hit 6 addr tr) (named_by bs d) then 6
    else if nonempty (hits_of bs d) then 1 else 4
  end.

Definition check_in (ports : list N) (pr : props) (e : inbound) : N :=
  match assoc (i_name e) pr with
  | None => if invalid_target (i_target e) then 6 else 7
  | Some (baddr, meth, btr) =>
    if negb (str_eqb meth m_bind) then 7
    else if is_explicit (i_target e) then
      (if str_eqb baddr (i_target e) && str_eqb btr (i_tr e) then 0 else 3)
    else if invalid_target (i_target e) then 7
    else if negb (str_eqb btr (i_tr e)) then 11
    else if i_ipc e then (if has_prefix s_ipc baddr then 0 else 11)
    else match drop_prefix s_tcp_star baddr with
         | Some ps => if port_in ps ports then 0 else 11
         | None => 11
         end
  end.

(* one alias claimed twice.  Within one task any two declarations count (9); across tasks the
   channels that take part in matching (8). *)
Definition codes9 (ws : list wtask) : list N :=
  map (fun w => if nodupb str_eqb (globals_of (eff_in w)) then 0 else 9) ws.
Definition free_aliases (w : wtask) : list str :=
  globals_of (filter (fun e => negb (nonempty (i_target e))) (eff_in w)).
Fixpoint cross_dup (al : list (list str)) : bool :=
  match al with
  | [] => false
  | l :: r => existsb (fun g => existsb (mem_str g) r) l || cross_dup r
  end.
Definition codes8 (ws : list wtask) : list N :=
  if cross_dup (map free_aliases ws) then [8] else [].

(* the first violation *)
Definition pick (codes : list N) : N :=
  match filter (fun c => negb (c =? 0)) codes with c :: _ => c | [] => 0 end.

(* a channel with a target of its own must not be allocated / registered at launch *)
Definition advertised_codes (ws : list wtask) (locals : list bindmap) : list N :=
  flat_map (fun x : wtask * bindmap =>
              map (fun e => if nonempty (i_target e) && is_some (assoc (i_name e) (snd x)) then 5 else 0)
                  (eff_in (fst x)))
           (combine ws locals).

(* the configuration failed: it must be because of an unmatched target, an inbound channel
   with an invalid target, an alias claimed twice, or an IPC endpoint of another host *)
Definition unmatched_in (ws : list wtask) : bool :=
  let bs := binders_of (map (fun w => (w, [], [])) ws) in
  existsb (fun w => w_chans w &&
                    existsb (fun d => negb (is_explicit (o_target d)) && negb (nonempty (hits_of bs d)))
                            (eff_out w)) ws.
Definition invalid_in (ws : list wtask) : bool :=
  existsb (fun w => w_chans w && existsb (fun e => invalid_target (i_target e)) (eff_in w)) ws.
Definition cross_ipc_in (ws : list wtask) : bool :=
  let bs := binders_of (map (fun w => (w, [], [])) ws) in
  existsb (fun w => w_chans w &&
                    existsb (fun d => existsb (fun b : binder => let '(_, w', _, e) := b in
                                                 i_ipc e && negb (str_eqb (w_host w') (w_host w)))
                                              (hits_of bs d))
                            (eff_out w)) ws.
Definition alias_twice (ws : list wtask) : bool :=
  negb (forallb (N.eqb 0) (codes9 ws)) || cross_dup (map free_aliases ws).

Definition mon_env (ws : list wtask) (obs : option (list (bindmap * props))) (ports : list (list N)) : N :=
  if negb (forallb w_clean ws) then 0
  else
    match obs with
    | Some os =>
      if negb (length ws =? length os)%nat then 20
      else
        let wpp := combine (combine ws (map snd os)) (ports ++ repeat [] (length ws)) in
        let bs := binders_of wpp in
        let per_task :=
            flat_map (fun x : wtask * props * list N =>
                        let '(w, pr, pt) := x in
                        if w_chans w
                        then map (check_out bs (w_host w) pr) (eff_out w) ++ map (check_in pt pr) (eff_in w)
                        else [])
                     wpp in
        pick (per_task ++ codes9 ws ++ codes8 ws ++ advertised_codes ws (map fst os))
    | None => if unmatched_in ws || invalid_in ws || alias_twice ws || cross_ipc_in ws then 0 else 12
    end.

Definition key_in (k : str) (bm : bindmap) : bool := is_some (assoc k bm).

Definition bound_addr_ok (a : str) (ep : endpoint) : bool :=
  match ep with
  | Tcp _ p _ => str_eqb a (s_tcp_star ++ dec p)
  | Ipc path _ => str_eqb a (s_ipc ++ path)
  end.

Definition mon13 (c : c13_case) : N :=
  match c with
  | CInFmq i bm obs =>
    if is_explicit (i_target i) then
      match obs with
      | Some (a, m, t) => if str_eqb a (i_target i) && str_eqb m m_bind && str_eqb t (i_tr i) then 0 else 3
      | None => 3
      end
    else if nonempty (i_target i) then match obs with None => 0 | Some _ => 7 end
    else match obs, assoc (i_name i) bm with
         | Some (a, m, t), Some ep =>
           (* told to bind the bound form of the endpoint allocated under its name *)
           if bound_addr_ok a ep && str_eqb m m_bind && str_eqb t (ep_transport ep) then 0 else 1
         | Some _, None => 1
         | None, Some _ => 7
         | None, None => 0
         end
  | COutFmq o bm obs =>
    if is_explicit (o_target o) then
      match obs with
      | Some (a, m, t) => if str_eqb a (o_target o) && str_eqb m m_connect && str_eqb t (o_tr o) then 0 else 3
      | None => 3
      end
    else match obs with
         | Some (a, m, t) =>
           if existsb (fun kv => str_eqb (fst kv) (o_target o) && str_eqb a (ep_address (snd kv)) &&
                                 str_eqb t (ep_transport (snd kv))) bm && str_eqb m m_connect
           then 0 else 4
         | None => if key_in (o_target o) bm then 12 else 0
         end
  | CMergeIn hp lp obs =>
    (* the higher-priority block is kept as it is and decides every name it declares *)
    if forallb (fun c => option_eqb in_eqb (find_by i_name (i_name c) obs) (find_by i_name (i_name c) hp)) hp &&
       forallb (fun c => is_some (find_by i_name (i_name c) obs)) lp
    then 0 else 13
  | CMergeOut hp lp obs =>
    if forallb (fun c => option_eqb out_eqb (find_by o_name (o_name c) obs) (find_by o_name (o_name c) hp)) hp &&
       forallb (fun c => is_some (find_by o_name (o_name c) obs)) lp
    then 0 else 13
  | CEndpoint e host f (a, tg, bd, eq) =>
    (* the target form keeps port / path and transport and carries the given host; the bound
       form keeps them too *)
    match e, tg, bd with
    | Tcp _ p t, Tcp h' p' t', Tcp _ p'' t'' =>
      if str_eqb h' host && (p =? p') && (p =? p'') && str_eqb t t' && str_eqb t t'' then 0 else 14
    | Ipc p t, Ipc p' t', Ipc p'' t'' =>
      if str_eqb p p' && str_eqb p p'' && str_eqb t t' && str_eqb t t'' then 0 else 14
    | _, _, _ => 14
    end
  | CEnv ws obs ports => mon_env ws obs ports
  end.

(* which model branch a case exercises *)
Definition tag13 (c : c13_case) : N :=
  match c with
  | CInFmq i bm _ =>
    if is_explicit (i_target i) then 1 else if nonempty (i_target i) then 2
    else if key_in (i_name i) bm then 3 else 4
  | COutFmq o bm _ =>
    if is_explicit (o_target o) then 5 else if key_in (o_target o) bm then 6 else 7
  | CMergeIn hp lp _ => if existsb (fun c => has_name i_name (i_name c) hp) lp then 8 else 9
  | CMergeOut hp lp _ => if existsb (fun c => has_name o_name (o_name c) hp) lp then 10 else 11
  | CEndpoint e _ f _ => match e with Tcp _ _ _ => 12 | Ipc _ _ => 13 end
  | CEnv ws _ _ =>
    let ts := map task_of ws in
    match env_bindmap ts with
    | None => 102
    | Some bm => if existsb (cross_ipc ts bm) ts then 106 else
                 match all_props bm ts with
                 | None => 103
                 | Some _ =>
                   100 + (if existsb (fun t => existsb (fun o => negb (is_explicit (o_target o)))
                                                       (if t_chans t then t_out t else [])) ts
                          then 1 else 0)
                       + (if existsb (fun t => existsb (fun i => nonempty (i_target i)) (t_in t)) ts
                          then 4 else 0)
                 end
    end
  end.

Definition report13 := report corr13 mon13 tag13.
