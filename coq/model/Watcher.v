(* Watcher — executable model of how the failure of a task reaches the environment (property C03).
   Code modelled (AliceO2Group/Control):
     core/task/manager.go            handleMessage(TaskStatusMessage): terminal Mesos status of a locked
                                     task -> go updateTaskState(ERROR) and go updateTaskStatus (INACTIVE);
                                     HandleExecutorFailed / HandleAgentFailed: every task of the executor /
                                     agent -> updateTaskState(ERROR), status INACTIVE
     core/task/scheduler.go          failure: Event_FAILURE -> ExecutorFailedEvent / AgentFailedEvent
     core/workflow/taskrole.go       updateState: only a critical task role forwards to its parent
     core/workflow/parentadapter.go  updateState: non-blocking send to every subscriber (a rendezvous
                                     that is dropped when the receiver is not in its select)
     core/environment/environment.go subscribeToWfState: the watcher goroutine (a workflow already in
                                     ERROR at subscription is handled like a notification - fix
                                     C03-a; single shot; 500 ms timer;
                                     GO_ERROR, forced if refused; STOP to the tasks still RUNNING),
                                     the run-end bookkeeping of the before_/after_ callbacks of
                                     START_ACTIVITY, STOP_ACTIVITY and GO_ERROR
     core/environment/manager.go     handleDeviceEvent(TASK_INTERNAL_ERROR): role UpdateState(ERROR) in
                                     any state; TryTransition(STOP_ACTIVITY) only for a critical task of
                                     a RUNNING environment (fix C03-cd);
                                     CreateEnvironment: subscribeToWfState after the CONFIGURE of the creation
     core/server.go                  ControlEnvironment (error -> GO_ERROR -> forced ERROR)
   The role tree and its update walk are RoleTree.v's (property C11); the classification of a task
   command is TaskCmd.v's (property C02).
   Concurrency is a schedule: a list of [action]s; every theorem of props/C03.v quantifies over all
   of them.  Definitions only; lemmas live in proofs/Watcher_proofs.v. *)
From Verif Require Import Common RoleTree TaskCmd Gen_LeafHandover Gen_FailureLabel Gen_OwnerRouting Gen_Reconcile Gen_RosterWrite.
Open Scope N_scope.

Definition path := list nat.

(* ------------------------------------------------------------------ *)
(* 1. State                                                            *)
(* ------------------------------------------------------------------ *)

(* the watcher goroutine of subscribeToWfState *)
Inductive wst :=
| WNotStarted   (* CreateEnvironment has not called subscribeToWfState yet *)
| WStarting     (* subscribed, read a workflow state other than ERROR, not yet in its select *)
| WWaiting      (* blocked in select: a notification is received *)
| WBusy         (* took a notification that asks for nothing, between two selects *)
| WTimer        (* took ERROR: loop left, subscription removed, 500 ms timer armed *)
| WFired        (* the timer callback ran *)
| WGone.        (* loop never entered (workflow DONE at subscription) or left on DONE *)
Scheme Equality for wst.

(* run_end_time_ms / run_end_completion_time_ms: not defined, "", a time stamp *)
Inductive runv := RAbsent | REmpty | RSet.
Scheme Equality for runv.

(* an update on its way to a task role (one goroutine each in the code) *)
Inductive pupd :=
| PState (i : nat) (v : state)     (* updateTaskState: task.state := v; role.UpdateState(v) *)
| PRole (i : nat) (v : state)      (* role.UpdateState(v) alone (TASK_INTERNAL_ERROR) *)
| PStatus (i : nat) (v : status)   (* task.status := v; role.UpdateStatus(v) *)
| PFwd (i : nat) (v : state).      (* the task role has merged v into its own cache (and published its
                                      role event) and is about to hand v - the value it was called
                                      with, not its cache - to its parent *)

(* what the environment publishes / sends, in order *)
Inductive lev :=
| LState (n : N)         (* Ev_EnvironmentEvent.State *)
| LRun (n : N)           (* Ev_RunEvent: 1 START/STARTED 2 START/DONE_OK 4 STOP/STARTED 5 STOP/DONE_OK
                            7 GO_ERROR/STARTED 8 GO_ERROR/DONE_OK *)
| LCmd (ps : list nat).  (* a transition command sent to these task positions *)

Record wsys := mkW {
  w_env : estate;
  w_tree : rtree;             (* role tree of the workflow (task roles only) *)
  w_paths : list path;        (* task position -> path of its role *)
  w_tst : list state;         (* task.state by position *)
  w_watch : wst;
  w_flight : option cev;      (* the API transition holding the transition mutex *)
  w_pend : list pupd;
  w_istop : nat;              (* STOP_ACTIVITY requests of TASK_INTERNAL_ERROR handlers waiting for the mutex *)
  w_rend : runv;              (* run_end_time_ms *)
  w_rendc : runv;             (* run_end_completion_time_ms *)
  w_log : list lev
}.

Definition set_env e s := mkW e (w_tree s) (w_paths s) (w_tst s) (w_watch s) (w_flight s) (w_pend s) (w_istop s) (w_rend s) (w_rendc s) (w_log s).
Definition set_tree t s := mkW (w_env s) t (w_paths s) (w_tst s) (w_watch s) (w_flight s) (w_pend s) (w_istop s) (w_rend s) (w_rendc s) (w_log s).
Definition set_tst l s := mkW (w_env s) (w_tree s) (w_paths s) l (w_watch s) (w_flight s) (w_pend s) (w_istop s) (w_rend s) (w_rendc s) (w_log s).
Definition set_watch w s := mkW (w_env s) (w_tree s) (w_paths s) (w_tst s) w (w_flight s) (w_pend s) (w_istop s) (w_rend s) (w_rendc s) (w_log s).
Definition set_flight f s := mkW (w_env s) (w_tree s) (w_paths s) (w_tst s) (w_watch s) f (w_pend s) (w_istop s) (w_rend s) (w_rendc s) (w_log s).
Definition set_pend p s := mkW (w_env s) (w_tree s) (w_paths s) (w_tst s) (w_watch s) (w_flight s) p (w_istop s) (w_rend s) (w_rendc s) (w_log s).
Definition set_istop n s := mkW (w_env s) (w_tree s) (w_paths s) (w_tst s) (w_watch s) (w_flight s) (w_pend s) n (w_rend s) (w_rendc s) (w_log s).
Definition set_rend r s := mkW (w_env s) (w_tree s) (w_paths s) (w_tst s) (w_watch s) (w_flight s) (w_pend s) (w_istop s) r (w_rendc s) (w_log s).
Definition set_rendc r s := mkW (w_env s) (w_tree s) (w_paths s) (w_tst s) (w_watch s) (w_flight s) (w_pend s) (w_istop s) (w_rend s) r (w_log s).
Definition add_log l s := mkW (w_env s) (w_tree s) (w_paths s) (w_tst s) (w_watch s) (w_flight s) (w_pend s) (w_istop s) (w_rend s) (w_rendc s) (w_log s ++ l).
Definition clear_log s := mkW (w_env s) (w_tree s) (w_paths s) (w_tst s) (w_watch s) (w_flight s) (w_pend s) (w_istop s) (w_rend s) (w_rendc s) [].
Definition add_pend l s := set_pend (w_pend s ++ l) s.

Definition path_of (s : wsys) (i : nat) : path := nth i (w_paths s) [].

(* the role of task i, if the path leads to a task role *)
Definition leaf_at (t : rtree) (p : path) : option (bool * state * status) :=
  match get_sub p t with
  | Some (Leaf c st x) => Some (c, st, x)
  | _ => None
  end.
Definition crit_of (s : wsys) (i : nat) : bool :=
  match nth_error (w_paths s) i with
  | Some p => match leaf_at (w_tree s) p with Some (c, _, _) => c | None => false end
  | None => false
  end.

(* ------------------------------------------------------------------ *)
(* 2. Notification: ParentAdapter.updateState towards the watcher      *)
(* ------------------------------------------------------------------ *)

(* the watcher takes the value only when it is in its select *)
Definition deliver (v : state) (w : wst) : wst :=
  match w with
  | WWaiting => if state_beq v ERROR then WTimer
                else if state_beq v DONE then WGone
                else WBusy
  | _ => w
  end.

Fixpoint remove_nth {A} (i : nat) (l : list A) : list A :=
  match i, l with
  | _, [] => []
  | O, _ :: r => r
  | S i', a :: r => a :: remove_nth i' r
  end.

(* role.UpdateState(v) of the task role at position i: the walk of RoleTree.upd_state; what leaves
   the root goes to the ParentAdapter *)
Definition role_update (i : nat) (v : state) (s : wsys) : wsys :=
  match nth_error (w_paths s) i with
  | Some p =>
      let (t', fwd) := upd_state p v (w_tree s) in
      let s' := set_tree t' s in
      match fwd with
      | Some r => set_watch (deliver r (w_watch s)) s'
      | None => s'
      end
  | None => s
  end.

Definition status_update (i : nat) (v : status) (s : wsys) : wsys :=
  match nth_error (w_paths s) i with
  | Some p => set_tree (fst (upd_status p v (w_tree s))) s
  | None => s
  end.

(* taskRole.updateState from the hand-over on: the walk of RoleTree.upd_state without the write of
   the leaf's cache.  The leaf hands the value it was called with (taskrole.go / callrole.go:
   `t.parent.updateState(s)`, tied to the source by the translator leafhandover, see
   [leaf_hands_incoming]), whatever its cache holds by now. *)
Fixpoint fwd_state (p : path) (v : state) (t : rtree) {struct p} : rtree * option state :=
  match p, t with
  | [], Leaf c _ _ => (t, if c then Some v else None)
  | i :: p', Agg s x cs =>
      match nth_error cs i with
      | Some c =>
          let (c', fwd) := fwd_state p' v c in
          let cs' := replace_nth i c' cs in
          match fwd with
          | Some inc => let s' := merge_state s inc cs' in (Agg s' x cs', Some s')
          | None => (Agg s x cs', None)
          end
      | None => (t, None)
      end
  | _, _ => (t, None)
  end.

Definition role_forward (i : nat) (v : state) (s : wsys) : wsys :=
  match nth_error (w_paths s) i with
  | Some p =>
      let (t', fwd) := fwd_state p v (w_tree s) in
      let s' := set_tree t' s in
      match fwd with
      | Some r => set_watch (deliver r (w_watch s)) s'
      | None => s'
      end
  | None => s
  end.

(* the first half of a role update: only the leaf's own cache (SafeState.merge on a task role
   overwrites) *)
Definition leaf_write (i : nat) (v : state) (s : wsys) : wsys :=
  match nth_error (w_paths s) i with
  | Some p => set_tree (map_at p (write_leaf_f v) (w_tree s)) s
  | None => s
  end.

Definition apply_upd (u : pupd) (s : wsys) : wsys :=
  match u with
  | PState i v => role_update i v (set_tst (replace_nth i v (w_tst s)) s)
  | PRole i v => role_update i v s
  | PStatus i v => status_update i v s
  | PFwd i v => role_forward i v s
  end.

(* what the translator found in taskRole / callRole updateState and updateStatus: (calls of the
   parent's update, of these with the function's own parameter as argument, assignments to that
   parameter).  The leaf hands over what it was called with iff there is such a call, every call
   passes the parameter and the parameter is never reassigned. *)
Definition hands_param (f : N * N * N) : bool :=
  match f with (calls, with_param, assigned) => N.leb 1 calls && N.eqb with_param calls && N.eqb assigned 0 end.
Definition leaf_hands_incoming : bool :=
  hands_param task_state_handover && hands_param task_status_handover &&
  hands_param call_state_handover && hands_param call_status_handover.

(* ------------------------------------------------------------------ *)
(* 3. Environment side: GO_ERROR, task commands                        *)
(* ------------------------------------------------------------------ *)

(* TryTransition(GO_ERROR) with the fall-back every caller has (watcher: env.setState, server:
   Sm.SetState): the state is ERROR afterwards in any case.  before_GO_ERROR stamps the run end
   when it is "", after_GO_ERROR the completion time. *)
Definition go_error (s : wsys) : wsys :=
  let cur := N_of_estate (w_env s) in
  if go_error_ok (w_env s) then
    let s1 := add_log [LState cur] s in
    let s2 := if runv_beq (w_rend s1) REmpty then add_log [LRun 7] (set_rend RSet s1) else s1 in
    let s3 := add_log [LState 5] (set_env E_ERROR s2) in
    if runv_beq (w_rendc s3) REmpty then add_log [LRun 8] (set_rendc RSet s3) else s3
  else add_log [LState cur] (set_env E_ERROR s).

(* the tasks of the workflow as TaskCmd sees them (criticality, role status, role state) *)
Definition rtask_at (t : rtree) (p : path) : rtask :=
  match leaf_at t p with
  | Some (c, st, x) => mkR (mkT c Basic 0) x st
  | None => mkR (mkT false Basic 0) INACTIVE UNKNOWN
  end.
Definition rtasks (s : wsys) : list rtask := map (rtask_at (w_tree s)) (w_paths s).

(* the updates a command leaves behind, per target (TaskStateMessage from the reply; a task that
   dies: TASK_FAILED) *)
Definition upd_after (e : cev) (o : outc) (i : nat) : list pupd :=
  match o with
  | Ack => [PState i (task_dst e)]
  | ErrSrc => [PState i (task_src e)]
  | ErrErr => [PState i ERROR]
  | SendFail | Silent => []
  | Dies => [PState i ERROR; PStatus i INACTIVE]
  end.
Definition cmd_updates (e : cev) (tg : list nat) (oc : list outc) : list pupd :=
  flat_map (fun i => upd_after e (oc_at oc i) i) tg.

Definition target_pos (s : wsys) : list nat := map fst (targets (rtasks s)).

(* before_<event> of a transition whose event is valid *)
Definition before_hooks (e : cev) (s : wsys) : wsys :=
  match e with
  | START => add_log [LRun 1] (set_rendc REmpty (set_rend REmpty s))
  | STOP => if runv_beq (w_rend s) REmpty then add_log [LRun 4] (set_rend RSet s) else s
  | _ => s
  end.
Definition after_hooks (e : cev) (s : wsys) : wsys :=
  match e with
  | START => add_log [LRun 2] s
  | STOP => add_log [LRun 5] (set_rendc RSet s)
  | _ => s
  end.

(* the body of a command transition: targets = tasks whose role is ACTIVE now; the replies become
   pending updates; result as TaskCmd.cmd_result.  [fallback]: the caller is
   RpcServer.ControlEnvironment (GO_ERROR on failure). *)
Definition finish_cmd (fallback : bool) (e : cev) (oc : list outc) (s : wsys) : wsys :=
  let tg := target_pos s in
  let s1 := add_pend (cmd_updates e tg oc) (add_log [LCmd tg] s) in
  if res_ok (cmd_result (rtasks s) oc)
  then after_hooks e (add_log [LState (N_of_estate (ev_dst e))] (set_env (ev_dst e) s1))
  else if fallback then go_error s1 else s1.

(* ------------------------------------------------------------------ *)
(* 4. Faults                                                           *)
(* ------------------------------------------------------------------ *)

Inductive fault :=
| FDead (vs : list nat)     (* terminal Mesos status of an owned task ([v]), executor lost ([v]),
                               agent lost (every task on it): state ERROR and status INACTIVE each *)
| FInternal (v : nat).      (* DeviceEvent TASK_INTERNAL_ERROR from task v: role state ERROR *)

(* How the report of a failure is labelled and routed: Mesos state (1 TASK_FAILED 2 TASK_LOST
   3 TASK_KILLED 7 TASK_ERROR), reason code, source, route (0 plain update, 1 answer to the implicit
   reconciliation after a new subscription), optional fields missing.  handleMessage decides on the
   state and on the task being owned and locked only: the case list and what the guard looks at are
   read from the source on every run (translator failurelabel, Gen_FailureLabel.v). *)
Record flabel := mkFL { fl_state : N; fl_reason : N; fl_source : N; fl_route : N; fl_bare : bool }.

Definition report_fault (l : flabel) (owned_locked : bool) (v : nat) : fault :=
  if memN (fl_state l) error_case_states && owned_locked then FDead [v] else FDead [].

(* read semantically from handleMessage and its helpers (translator failurelabel, on symwalk): the
   states that put an owned, locked task in ERROR are the four terminal failure states, no condition
   on the label of the status (reason, optional fields, anything else taken from it) changes the
   decision, and a task that is not in the roster is never put in ERROR *)
Definition failure_label_irrelevant : bool :=
  list_eqb N.eqb error_case_states [1; 2; 3; 7] &&
  N.eqb error_label_dependence 0 && error_requires_roster.

(* The model keeps no copy of the executor / agent id of a task: a task of the environment is owned
   and locked until its executor or agent is reported lost.  In the code a TASK_RUNNING status
   refreshes these ids (updateTaskStatus); that it does so only when the status carries the field -
   a reconciliation answer of the master need not - is C18's regenerated fact
   [status_refresh_guarded] (Gen_Reconcile.v, translator reconcile), used here as an explicit
   hypothesis and exercised by the refresh-then-fail worlds of the harness. *)
Definition refresh_keeps_ownership : bool := status_refresh_guarded.

(* Every failure path starts from the roster entry of the task, and the model's environment has all
   its tasks: in the code a task of a live environment must stay in the task manager's roster,
   whatever other environments are deployed or torn down at the same time.  The roster is replaced
   as a whole only by roster.updateTasks; that no such write puts back a snapshot kept across a
   Mesos call (which would erase what a concurrent deployment appended) is read from the source
   (translator rosterwrite) and probed on the implementation at every sampling point
   ([wo_rostered], monitor class 11) in worlds where another environment's teardown - a held KILL
   call - overlaps the whole deployment. *)
Definition roster_writes_fresh : bool :=
  N.leb 1 roster_whole_writes && N.eqb roster_stale_writebacks 0.

(* A fault of the model is addressed to a task position of THE environment: the implementation must
   route every failure report to the environment that owns the task now, whatever the message
   carries (a task claimed from an earlier environment - reuseUnlockedTasks - still stamps its
   status and device-event labels with the environment that launched it).  Mesos status and
   executor / agent loss go through the roster entry and its parent role; the device event handler
   looks the environment up by id: that the id is the rostered task's current parent and never
   taken from the message is read from the source on every run (translator ownerrouting). *)
Definition routed_by_owner : bool :=
  N.leb 1 devent_env_lookups_via_task && N.eqb devent_env_lookups_via_message 0 &&
  N.eqb devent_env_lookups_other 0.

Definition fault_victims (f : fault) : list nat :=
  match f with FDead vs => vs | FInternal v => [v] end.

Definition do_fault (f : fault) (s : wsys) : wsys :=
  match f with
  | FDead vs => add_pend (flat_map (fun i => [PState i ERROR; PStatus i INACTIVE]) vs) s
  | FInternal v =>
      (* handleDeviceEvent (repaired, fix C03-cd): the role goes to ERROR in any state; the run is
         stopped only for a critical task of a RUNNING environment *)
      if crit_of s v && estate_beq (w_env s) E_RUNNING
      then set_istop (S (w_istop s)) (add_pend [PRole v ERROR] s)
      else add_pend [PRole v ERROR] s
  end.

(* ------------------------------------------------------------------ *)
(* 5. Actions and the step function                                    *)
(* ------------------------------------------------------------------ *)

Inductive action :=
| AFault (f : fault)
| AUpd (k : nat)              (* the k-th pending update runs (to its end) *)
| ALeafWrite (k : nat)        (* the k-th pending update, a role state update, runs up to the hand-over:
                                 task.state and the role's own cache are written, the value is still
                                 to be handed to the parent ([PFwd]) *)
| AReply (i : nat) (v : state)(* a transition response of task i arrives (TaskStateMessage): late,
                                 duplicated or unsolicited ones included *)
| AWStart                     (* the watcher goroutine subscribes and reads the workflow state *)
| AWSelect                    (* the watcher (re-)enters its select *)
| AFire (oc : list outc)      (* the timer callback runs (oc: replies to its STOP command) *)
| ABegin (e : cev)            (* ControlEnvironment: mutex taken, event checked, before_ hooks *)
| AFinish (oc : list outc)    (* ... body, state change, mutex released, GO_ERROR on failure *)
| AIStop (oc : list outc).    (* the STOP_ACTIVITY of a TASK_INTERNAL_ERROR handler gets the mutex *)

Definition is_flying (s : wsys) : bool := match w_flight s with Some _ => true | None => false end.

Definition running_pos (s : wsys) : list nat :=
  map fst (filter (fun p => state_beq (snd p) RUNNING) (indexed (w_tst s))).

Definition do_fire (oc : list outc) (s : wsys) : wsys :=
  if wst_beq (w_watch s) WTimer && negb (is_flying s) then
    let s1 := set_watch WFired (go_error s) in
    match running_pos s1 with
    | [] => s1
    | tg => add_pend (cmd_updates STOP tg oc) (add_log [LCmd tg] s1)
    end
  else s.

Definition do_begin (e : cev) (s : wsys) : wsys :=
  if is_flying s then s
  else if estate_beq (w_env s) (ev_src e)
  then before_hooks e (set_flight (Some e) (add_log [LState (N_of_estate (w_env s))] s))
  else go_error s.   (* event inappropriate: error, then the server's GO_ERROR *)

Definition do_finish (oc : list outc) (s : wsys) : wsys :=
  match w_flight s with
  | Some e => finish_cmd true e oc (set_flight None s)
  | None => s
  end.

Definition do_istop (oc : list outc) (s : wsys) : wsys :=
  match w_istop s with
  | O => s
  | S n =>
      if is_flying s then s
      else
        let s1 := add_log [LState (N_of_estate (w_env s))] (set_istop n s) in
        if estate_beq (w_env s) E_RUNNING
        then finish_cmd false STOP oc (before_hooks STOP s1)
        else s1
  end.

Definition do_wstart (s : wsys) : wsys :=
  match w_watch s with
  | WNotStarted =>
      (* repaired (fix C03-a): a workflow already in ERROR is fed to the loop like a notification
         (timer armed at once); only a workflow that is DONE is not watched *)
      set_watch (if state_beq (st_of (w_tree s)) ERROR then WTimer
                 else if state_beq (st_of (w_tree s)) DONE then WGone else WStarting) s
  | _ => s
  end.

Definition do_wselect (s : wsys) : wsys :=
  match w_watch s with
  | WStarting | WBusy => set_watch WWaiting s
  | _ => s
  end.

Definition do_upd (k : nat) (s : wsys) : wsys :=
  match nth_error (w_pend s) k with
  | Some u => apply_upd u (set_pend (remove_nth k (w_pend s)) s)
  | None => s
  end.

Definition do_leafwrite (k : nat) (s : wsys) : wsys :=
  match nth_error (w_pend s) k with
  | Some (PState i v) =>
      leaf_write i v (set_tst (replace_nth i v (w_tst s)) (set_pend (replace_nth k (PFwd i v) (w_pend s)) s))
  | Some (PRole i v) => leaf_write i v (set_pend (replace_nth k (PFwd i v) (w_pend s)) s)
  | _ => s
  end.

Definition do_reply (i : nat) (v : state) (s : wsys) : wsys := add_pend [PState i v] s.

Definition wstep (a : action) (s : wsys) : wsys :=
  match a with
  | AFault f => do_fault f s
  | AUpd k => do_upd k s
  | ALeafWrite k => do_leafwrite k s
  | AReply i v => do_reply i v s
  | AWStart => do_wstart s
  | AWSelect => do_wselect s
  | AFire oc => do_fire oc s
  | ABegin e => do_begin e s
  | AFinish oc => do_finish oc s
  | AIStop oc => do_istop oc s
  end.

Definition wrun (sched : list action) (s : wsys) : wsys := fold_left (fun s a => wstep a s) sched s.

(* nothing left to do: no update pending, no handler waiting, mutex free, timer not armed, watcher
   in its select or finished *)
Definition wquiet (s : wsys) : bool :=
  match w_pend s with [] => true | _ :: _ => false end &&
  Nat.eqb (w_istop s) 0 && negb (is_flying s) &&
  match w_watch s with WWaiting | WFired | WGone => true | _ => false end.

(* ------------------------------------------------------------------ *)
(* 6. Creation                                                         *)
(* ------------------------------------------------------------------ *)

(* the workflow right after the CONFIGURE of CreateEnvironment succeeded: starting from the tree as
   loaded (every role STANDBY / INACTIVE), every task reported TASK_RUNNING (status ACTIVE), then
   every task acknowledged CONFIGURE; the caches are whatever these updates leave (including
   aggregators no update ever reaches, finding C11-a) *)
Definition created_tree (t : rtree) (paths : list path) : rtree :=
  RoleTree.run_ops (map (fun p => OpStatus p ACTIVE) paths ++ map (fun p => OpState p CONFIGURED) paths) (fresh t).

Definition created (t : rtree) (paths : list path) : wsys :=
  mkW E_CONFIGURED (created_tree t paths) paths (map (fun _ => CONFIGURED) paths)
      WNotStarted None [] O RAbsent RAbsent [].

Definition reachable (s : wsys) : Prop :=
  exists t paths sched, s = wrun sched (created t paths).

(* every path leads to a task role, no two positions share a role, the root is an aggregator *)
Definition wf_ok (s : wsys) : bool :=
  is_agg (w_tree s) &&
  forallb (fun p => match leaf_at (w_tree s) p with Some _ => true | None => false end) (w_paths s) &&
  nodupb path_eqb (w_paths s).

(* ------------------------------------------------------------------ *)
(* 7. Harness scripts: the canonical schedule of a test case           *)
(* ------------------------------------------------------------------ *)

(* the pending updates run one after the other, the watcher back in its select in between (a
   notification is never lost in the runs the harness forces; the lossy schedules exist in [run]
   only) *)
Fixpoint drain (n : nat) (s : wsys) : wsys :=
  match n with
  | O => s
  | S n' => match w_pend s with
            | [] => s
            | _ :: _ => drain n' (wstep AWSelect (wstep (AUpd 0) s))
            end
  end.
Definition settle (s : wsys) : wsys := drain (length (w_pend s)) s.

(* the handlers waiting for the mutex, then the timer *)
Fixpoint run_istops (n : nat) (oc : list outc) (s : wsys) : wsys :=
  match n with
  | O => s
  | S n' => match w_istop s with
            | O => s
            | S _ => run_istops n' oc (settle (wstep (AIStop oc) s))
            end
  end.
Definition wait_timer (oc : list outc) (s : wsys) : wsys :=
  let s1 := run_istops (w_istop s) oc s in
  if wst_beq (w_watch s1) WTimer then settle (wstep (AFire oc) s1) else s1.

Inductive sop :=
| SCmd (e : cev) (oc : list outc)                 (* ControlEnvironment while nothing else happens *)
| SFault (f : fault) (oc : list outc)             (* fault while idle, then more than 500 ms pass *)
| SCmdFault (e : cev) (f : fault) (oc : list outc)
                                                  (* fault injected inside a before_<e> hook of the
                                                     request, then the request goes on, then > 500 ms *)
| SRefresh                                        (* benign status traffic: TASK_RUNNING for every live task,
                                                     as reconciliation answers after a reconnection or as
                                                     plain updates, optional ids present or not: nothing
                                                     changes (see [refresh_keeps_ownership]) *)
| SRace (v : nat) (late : state) (oc : list outc).
                                                  (* terminal Mesos status of task v while idle; its
                                                     state update is stopped right before the hand-over
                                                     to the parent role (inside the role-event write), a
                                                     late transition response of the same task (state
                                                     [late]) is processed to the end, then the first
                                                     update goes on; then > 500 ms *)

Definition run_sop (o : sop) (s : wsys) : wsys :=
  let s := clear_log s in
  match o with
  | SCmd e oc => settle (wstep (AFinish oc) (wstep (ABegin e) s))
  | SFault f oc => wait_timer oc (settle (wstep (AFault f) s))
  | SCmdFault e f oc =>
      let s1 := wstep (ABegin e) s in
      if is_flying s1
      then wait_timer oc (settle (wstep (AFinish oc) (settle (wstep (AFault f) s1))))
      else s1
  | SRefresh => s
  | SRace v late oc =>
      (* pending after the fault: [PState v ERROR; PStatus v INACTIVE] (nothing else is pending
         between two steps of a script) *)
      let s1 := wstep (ALeafWrite 0) (wstep (AFault (FDead [v])) s) in
      let s2 := wstep AWSelect (wstep (AUpd 1) s1) in                 (* the status update *)
      let s3 := wstep AWSelect (wstep (AUpd 1) (wstep (AReply v late) s2)) in   (* the late reply, to its end *)
      wait_timer oc (settle s3)                                        (* the hand-over of ERROR *)
  end.

(* what is observed of one step *)
Record wobs := mkWO {
  wo_state : N;             (* environment state at the end *)
  wo_hang : bool;           (* the request did not return *)
  wo_reported : list N;     (* states published, consecutive duplicates removed *)
  wo_cmded : list N;        (* positions that received a transition command (sorted, unique) *)
  wo_rend : N;              (* run_end_time_ms: 0 not defined, 1 "", 2 set *)
  wo_runevs : list N;       (* run events in order *)
  wo_tasks : list (N * N);  (* (role state, role status) of every task *)
  wo_rostered : bool        (* probe: every task of the environment is an entry of the task manager's
                               roster - the precondition of every failure path (a status update, a lost
                               executor / agent, a device event all start from the roster entry) *)
}.

Fixpoint dedup_adj (l : list N) : list N :=
  match l with
  | [] => []
  | a :: r => match r with
              | [] => [a]
              | b :: _ => if N.eqb a b then dedup_adj r else a :: dedup_adj r
              end
  end.
Definition log_states (l : list lev) : list N :=
  dedup_adj (flat_map (fun e => match e with LState n => [n] | _ => [] end) l).
Definition log_runevs (l : list lev) : list N :=
  flat_map (fun e => match e with LRun n => [n] | _ => [] end) l.
Definition log_cmded (n : nat) (l : list lev) : list N :=
  let all := flat_map (fun e => match e with LCmd ps => ps | _ => [] end) l in
  map N.of_nat (filter (fun i => existsb (Nat.eqb i) all) (seq 0 n)).

Definition N_of_runv (r : runv) : N := match r with RAbsent => 0 | REmpty => 1 | RSet => 2 end.

Definition view_tasks (s : wsys) : list (N * N) :=
  map (fun t => (N_of_state (r_st t), N_of_status (r_stat t))) (rtasks s).

Definition observe (s : wsys) : wobs :=
  mkWO (N_of_estate (w_env s)) (is_flying s) (log_states (w_log s))
       (log_cmded (length (w_paths s)) (w_log s)) (N_of_runv (w_rend s)) (log_runevs (w_log s))
       (view_tasks s) true.

(* a script stops at the first step that hangs or leaves the environment in ERROR *)
Fixpoint run_script (ops : list sop) (s : wsys) : list wobs :=
  match ops with
  | [] => []
  | o :: r =>
      let s' := run_sop o s in
      observe s' :: (if is_flying s' || estate_beq (w_env s') E_ERROR then [] else run_script r s')
  end.

(* input of a case: the workflow, the task roles, an optional fault injected inside an
   after_CONFIGURE hook of the creation (before subscribeToWfState), the script; [i_kinds]: how the
   harness produced each fault (not used by the model: the label must not matter):
   1 TASK_FAILED 2 TASK_LOST 3 TASK_KILLED 4 executor lost 5 agent lost 6 TASK_INTERNAL_ERROR
   7 TASK_ERROR, + 10 * reason (1 none 2 RECONCILIATION 3 AGENT_REMOVED 4 EXECUTOR_TERMINATED
   5 CONTAINER_LIMITATION_MEMORY 6 GC_ERROR; 0 the executor's own) + 100 * source (1 master 2 agent
   3 none; 0 executor) + 1000 reconciliation answer after a reconnection + 2000 optional fields
   missing + 4000 no UUID *)
Record c03_input := mkIn3 {
  i_tree : rtree; i_paths : list path; i_early : option fault; i_ops : list sop; i_kinds : list N }.

Definition start_watcher (s : wsys) : wsys := wstep AWSelect (wstep AWStart s).

Definition create3 (i : c03_input) : wsys :=
  let s0 := created (i_tree i) (i_paths i) in
  let s1 := match i_early i with
            | Some f => settle (wstep (AFault f) s0)
            | None => s0
            end in
  (* creation publishes STANDBY, DEPLOYED, CONFIGURED; every task got DEPLOY's launch and the
     CONFIGURE command *)
  wait_timer [] (start_watcher (add_log [LState 1; LState 2; LState 3; LCmd (seq 0 (length (i_paths i)))] s1)).

Definition run_model3 (i : c03_input) : list wobs :=
  let s := create3 i in
  observe s :: (if estate_beq (w_env s) E_ERROR then [] else run_script (i_ops i) s).

Record c03_case := mkCase3 { c3_in : c03_input; c3_obs : list wobs }.

Definition nn_eqb3 (a b : N * N) : bool := N.eqb (fst a) (fst b) && N.eqb (snd a) (snd b).
Definition wo_eqb (a b : wobs) : bool :=
  N.eqb (wo_state a) (wo_state b) && Bool.eqb (wo_hang a) (wo_hang b) &&
  list_eqb N.eqb (wo_reported a) (wo_reported b) && list_eqb N.eqb (wo_cmded a) (wo_cmded b) &&
  N.eqb (wo_rend a) (wo_rend b) && list_eqb N.eqb (wo_runevs a) (wo_runevs b) &&
  list_eqb nn_eqb3 (wo_tasks a) (wo_tasks b) && Bool.eqb (wo_rostered a) (wo_rostered b).

Definition corr03 (c : c03_case) : bool := list_eqb wo_eqb (run_model3 (c3_in c)) (c3_obs c).

(* ------------------------------------------------------------------ *)
(* 8. The monitor: the property evaluated on what the implementation did *)
(* ------------------------------------------------------------------ *)
(* Uses the inputs (criticality of the victims, kind of fault, instant) and the observations only;
   never [step], [deliver], [go_error] or [cmd_result].

   Violation classes (one per step; the case reports the one of highest priority):
    1  a critical task failed in a CONFIGURED / RUNNING environment (Mesos status, executor or agent
       lost, or internal error while RUNNING) and the environment did not end in ERROR
    2  TASK_INTERNAL_ERROR of a non-critical task changed the environment state   (C03-c, repaired)
    3  a critical task failed before the watcher subscribed (inside an after_CONFIGURE hook of the
       creation) and the environment stays CONFIGURED                               (C03-a, repaired)
    4  TASK_INTERNAL_ERROR of a critical task in a CONFIGURED environment is ignored (C03-d, repaired)
    5  the environment left RUNNING for ERROR and the end of the run is not recorded
       (run_end_time_ms empty or no run event of GO_ERROR / STOP_ACTIVITY)
    6  a task still RUNNING was not asked to stop when the environment went from RUNNING to ERROR
    7  the failure of a non-critical task (Mesos status, executor, agent) changed the environment state
    8  the failure of a non-critical task changed the outcome of the request it raced with
    9  the environment reports RUNNING at the end although a critical task is dead
   10  benign status traffic (TASK_RUNNING refresh / reconciliation answers) changed the environment state
   11  a task of the live environment is not in the task manager's roster (every later failure of it
       would go unnoticed): named before the classes it causes
   14  observation malformed (no step observed / more steps than requested) *)

Definition crit_in (t : rtree) (paths : list path) (i : nat) : bool :=
  match nth_error paths i with
  | Some p => match leaf_at t p with Some (c, _, _) => c | None => false end
  | None => false
  end.

Definition any_crit (t : rtree) (paths : list path) (vs : list nat) : bool :=
  existsb (crit_in t paths) vs.

Definition has_runend_event (evs : list N) : bool := memN 7 evs || memN 4 evs || memN 8 evs.

(* positions observed RUNNING and ACTIVE in a view, other than the victims *)
Fixpoint running_from (i : nat) (vs : list nat) (view : list (N * N)) : list N :=
  match view with
  | [] => []
  | p :: r => (if N.eqb (fst p) 3 && N.eqb (snd p) 3 && negb (existsb (Nat.eqb i) vs)
               then [N.of_nat i] else []) ++ running_from (S i) vs r
  end.

Definition subsetN (a b : list N) : bool := forallb (fun x => memN x b) a.

(* an idle fault: [prev] / [view] are the state and the task view before it *)
Definition mon_fault (t : rtree) (paths : list path) (prev : N) (view : list (N * N))
           (f : fault) (ob : wobs) : N :=
  let vs := fault_victims f in
  let healthy := N.eqb prev 3 || N.eqb prev 4 in
  if any_crit t paths vs then
    if negb healthy then 0
    else
      match f with
      | FInternal _ =>
          if N.eqb (wo_state ob) 5 then
            (if N.eqb prev 4 && negb (N.eqb (wo_rend ob) 2 && has_runend_event (wo_runevs ob)) then 5 else 0)
          else if N.eqb prev 3 then 4 else if N.eqb (wo_state ob) 4 then 9 else 1
      | FDead _ =>
          if N.eqb (wo_state ob) 5 then
            if N.eqb prev 4 then
              if negb (N.eqb (wo_rend ob) 2 && has_runend_event (wo_runevs ob)) then 5
              else if negb (subsetN (running_from 0 vs view) (wo_cmded ob)) then 6 else 0
            else 0
          else if N.eqb (wo_state ob) 4 then 9 else 1
      end
  else
    if N.eqb (wo_state ob) prev then 0
    else match f with FInternal _ => 2 | FDead _ => 7 end.

(* a fault racing with a request: a critical victim must end in ERROR whatever the request does; a
   non-critical one must leave the request's outcome alone - judged only when every commanded
   task is scripted to acknowledge and a critical task is left to command ([clean]) *)
Definition all_ack (oc : list outc) : bool := forallb is_ack oc.

Fixpoint other_crit_active_from (i : nat) (t : rtree) (paths : list path) (vs : list nat)
         (view : list (N * N)) : bool :=
  match view with
  | [] => false
  | p :: r => (crit_in t paths i && N.eqb (snd p) 3 && negb (existsb (Nat.eqb i) vs)) ||
              other_crit_active_from (S i) t paths vs r
  end.

Definition mon_cmdfault (t : rtree) (paths : list path) (prev : N) (view : list (N * N))
           (e : cev) (f : fault) (oc : list outc) (ob : wobs) : N :=
  let vs := fault_victims f in
  if negb (N.eqb prev (N_of_estate (ev_src e))) then 0
  else if negb (N.eqb prev 3 || N.eqb prev 4) then 0     (* the property speaks of CONFIGURED / RUNNING *)
  else if any_crit t paths vs then
    match f with
    | FDead _ =>
        if N.eqb (wo_state ob) 5 then
          (if (N.eqb prev 4 || memN 4 (wo_reported ob)) &&
              negb (N.eqb (wo_rend ob) 2 && has_runend_event (wo_runevs ob)) then 5 else 0)
        else if N.eqb (wo_state ob) 4 then 9 else 1
    | FInternal _ =>
        if N.eqb (wo_state ob) 5 then 0 else if N.eqb prev 3 then 4 else 1
    end
  else
    if all_ack oc && other_crit_active_from 0 t paths vs view then
      (if N.eqb (wo_state ob) (N_of_estate (ev_dst e)) && negb (wo_hang ob) then 0
       else match f with FInternal _ => 2 | FDead _ => 8 end)
    else 0.

(* [gone]: a critical task failed before the watcher subscribed and the environment stayed
   CONFIGURED (class 3): the watcher never entered its loop, so every later failure goes
   unhandled as well - the same defect, reported as class 3 *)
Definition regone (gone : bool) (c : N) : N :=
  if gone && (N.eqb c 1 || N.eqb c 9) then 3 else c.

Fixpoint mon_ops3 (gone : bool) (t : rtree) (paths : list path) (prev : N) (view : list (N * N))
         (ops : list sop) (obs : list wobs) : list N :=
  match obs with
  | [] => []
  | ob :: obs' =>
      match ops with
      | [] => [14]
      | o :: ops' =>
          (if negb (wo_rostered ob) then 11 else 0) ::
          regone gone
            (match o with
             | SCmd _ _ => 0                         (* plain requests are C02's business *)
             | SFault f _ => mon_fault t paths prev view f ob
             | SCmdFault e f oc => mon_cmdfault t paths prev view e f oc ob
             | SRace v _ _ => mon_fault t paths prev view (FDead [v]) ob
             | SRefresh => if N.eqb (wo_state ob) prev then 0 else 10
             end) :: mon_ops3 gone t paths (wo_state ob) (wo_tasks ob) ops' obs'
      end
  end.

Definition mon_create3 (t : rtree) (paths : list path) (early : option fault) (ob : wobs) : N :=
  match early with
  | None => if N.eqb (wo_state ob) 3 then 0 else 14
  | Some f =>
      if any_crit t paths (fault_victims f) then
        match f with
        | FDead _ => if N.eqb (wo_state ob) 5 then 0 else 3
        | FInternal _ => if N.eqb (wo_state ob) 5 then 0 else 4
        end
      else if N.eqb (wo_state ob) 3 then 0
      else match f with FInternal _ => 2 | FDead _ => 7 end
  end.

Definition prio03 : list N := [14; 11; 9; 1; 10; 7; 8; 5; 6; 4; 2; 3].
Definition pick03 (present : list N) : N :=
  match filter (fun c => memN c present) prio03 with [] => 0 | c :: _ => c end.

Definition mon_codes3 (c : c03_case) : list N :=
  let i := c3_in c in
  match c3_obs c with
  | [] => [14]
  | ob :: obs' =>
      let c0 := mon_create3 (i_tree i) (i_paths i) (i_early i) ob in
      (if negb (wo_rostered ob) then 11 else 0) :: c0 :: mon_ops3 (N.eqb c0 3) (i_tree i) (i_paths i) (wo_state ob) (wo_tasks ob) (i_ops i) obs'
  end.
Definition mon03 (c : c03_case) : N := pick03 (mon_codes3 c).

(* ------------------------------------------------------------------ *)
(* 9. Branch tags (measured input distribution)                        *)
(* ------------------------------------------------------------------ *)
(* bit set: 1 a fault before the subscription, 2 an idle fault of a critical task, 4 of a non-critical
   task, 8 a fault inside a request, 16 TASK_INTERNAL_ERROR, 32 several victims (agent), 64 the
   watcher took the ERROR (timer armed), 128 the timer's GO_ERROR left RUNNING, 256 STOP sent by the
   watcher, 512 a plain request, 1024 the model's environment ends in ERROR, 2048 nested workflow, 4096 a failure whose hand-over
   to the parent role is overtaken by another update of the same task, 8192 benign status traffic *)
Definition tag_fault (t : rtree) (paths : list path) (f : fault) : N :=
  N.lor (match f with FInternal _ => 16 | FDead (_ :: _ :: _) => 32 | FDead _ => 0 end)
        (if any_crit t paths (fault_victims f) then 2 else 4).

Fixpoint tag_ops3 (ops : list sop) (s : wsys) : N :=
  match ops with
  | [] => 0
  | o :: r =>
      let s' := run_sop o s in
      N.lor (N.lor
        (match o with
         | SCmd _ _ => 512
         | SFault f _ => tag_fault (w_tree s) (w_paths s) f
         | SCmdFault _ f _ => N.lor 8 (tag_fault (w_tree s) (w_paths s) f)
         | SRace v _ _ => N.lor 4096 (tag_fault (w_tree s) (w_paths s) (FDead [v]))
         | SRefresh => 8192
         end)
        (N.lor (if wst_beq (w_watch s') WFired && negb (wst_beq (w_watch s) WFired) then 64 else 0)
               (N.lor (if memN 7 (log_runevs (w_log s')) then 128 else 0)
                      (if wst_beq (w_watch s') WFired && negb (wst_beq (w_watch s) WFired) &&
                          match running_pos (set_watch WFired (go_error s)) with [] => false | _ => true end
                       then 256 else 0))))
        (if is_flying s' || estate_beq (w_env s') E_ERROR then 1024 else tag_ops3 r s')
  end.

Fixpoint depth (t : rtree) : nat :=
  match t with
  | Leaf _ _ _ => O
  | Agg _ _ cs => S (fold_left Nat.max (map depth cs) O)
  end.

Definition tag03 (c : c03_case) : N :=
  let i := c3_in c in
  let s := create3 i in
  N.lor (N.lor (match i_early i with Some _ => 1 | None => 0 end)
               (if Nat.ltb 1 (depth (i_tree i)) then 2048 else 0))
        (if estate_beq (w_env s) E_ERROR then 1024 else tag_ops3 (i_ops i) s).

Definition report03 := report corr03 mon03 tag03.
