#!/bin/sh
# regenerates _CoqProject and Makefile when the set of .v files changed
cd "$(dirname "$0")"
{ echo "-Q lib Verif"; echo "-Q gen Verif"; echo "-Q model Verif"; echo "-Q proofs Verif"; echo "-Q props Verif";
  echo "-arg -w -arg -notation-overridden,-deprecated-hint-without-locality,-deprecated-syntactic-definition";
  ls lib/*.v gen/*.v model/*.v proofs/*.v props/*.v 2>/dev/null | sort; } > _CoqProject.new
if ! cmp -s _CoqProject.new _CoqProject || [ ! -f Makefile ]; then
  mv _CoqProject.new _CoqProject
  coq_makefile -f _CoqProject -o Makefile >/dev/null
else
  rm -f _CoqProject.new
fi
