(* Common definitions shared by all models: byte strings as [list N], association
   lists, report helpers used by the harness-written case files.  Definitions and a
   few basic lemmas only; stdlib only. *)
From Coq Require Export List NArith ZArith Bool Lia.
Export ListNotations.
Open Scope N_scope.

(* ---------- byte strings ---------- *)
Definition str := list N.

Fixpoint list_eqb {A} (eqb : A -> A -> bool) (a b : list A) : bool :=
  match a, b with
  | [], [] => true
  | x :: a', y :: b' => eqb x y && list_eqb eqb a' b'
  | _, _ => false
  end.

Definition str_eqb : str -> str -> bool := list_eqb N.eqb.

Lemma list_eqb_spec {A} (eqb : A -> A -> bool)
      (H : forall x y, eqb x y = true <-> x = y) :
  forall a b, list_eqb eqb a b = true <-> a = b.
Proof.
  induction a as [|x a IH]; intros [|y b]; cbn; split; intro E;
    try reflexivity; try discriminate.
  - apply andb_true_iff in E. destruct E as [E1 E2].
    apply H in E1. apply IH in E2. subst. reflexivity.
  - inversion E; subst. apply andb_true_iff. split; [apply H|apply IH]; reflexivity.
Qed.

Lemma str_eqb_spec a b : str_eqb a b = true <-> a = b.
Proof. apply list_eqb_spec. intros x y. apply N.eqb_eq. Qed.

Lemma str_eqb_refl a : str_eqb a a = true.
Proof. apply str_eqb_spec. reflexivity. Qed.

Definition option_eqb {A} (eqb : A -> A -> bool) (a b : option A) : bool :=
  match a, b with
  | None, None => true
  | Some x, Some y => eqb x y
  | _, _ => false
  end.

Definition pair_eqb {A B} (ea : A -> A -> bool) (eb : B -> B -> bool)
           (a b : A * B) : bool :=
  ea (fst a) (fst b) && eb (snd a) (snd b).

(* ---------- association lists keyed by byte strings ---------- *)
Fixpoint assoc {V} (k : str) (l : list (str * V)) : option V :=
  match l with
  | [] => None
  | (k', v) :: r => if str_eqb k k' then Some v else assoc k r
  end.

Fixpoint assocN {V} (k : N) (l : list (N * V)) : option V :=
  match l with
  | [] => None
  | (k', v) :: r => if N.eqb k k' then Some v else assocN k r
  end.

Definition mem_str (k : str) (l : list str) : bool := existsb (str_eqb k) l.
Definition memN (k : N) (l : list N) : bool := existsb (N.eqb k) l.

(* ---------- report helpers ---------- *)
(* indices (from 0) of the elements on which [f] is false *)
Fixpoint failing_from {A} (f : A -> bool) (i : N) (l : list A) : list N :=
  match l with
  | [] => []
  | x :: r => if f x then failing_from f (N.succ i) r
              else i :: failing_from f (N.succ i) r
  end.
Definition failing {A} (f : A -> bool) (l : list A) : list N := failing_from f 0 l.

(* (index, code) for the elements whose code is not 0 *)
Fixpoint coded_from {A} (f : A -> N) (i : N) (l : list A) : list N :=
  match l with
  | [] => []
  | x :: r => let c := f x in
              if N.eqb c 0 then coded_from f (N.succ i) r
              else i :: c :: coded_from f (N.succ i) r
  end.
Definition coded {A} (f : A -> N) (l : list A) : list N := coded_from f 0 l.

(* The standard report printed by every case file:
   [ correspondence-mismatch indices ; (index,code) pairs of monitor failures, flattened ;
     per-case branch tags ] *)
Definition report {A} (corr : A -> bool) (mon : A -> N) (tag : A -> N)
           (cases : list A) : list (list N) :=
  [ failing corr cases ; coded mon cases ; map tag cases ].

Lemma failing_nil_forall {A} (f : A -> bool) l :
  failing f l = [] <-> forall x, In x l -> f x = true.
Proof.
  unfold failing. generalize 0 as i.
  induction l as [|x l IH]; intro i; cbn.
  - split; [intros _ y []|reflexivity].
  - destruct (f x) eqn:E.
    + rewrite IH. split.
      * intros H y [->|Hy]; [exact E|apply H, Hy].
      * intros H y Hy. apply H. right. exact Hy.
    + split; [discriminate|]. intro H. specialize (H x (or_introl eq_refl)). congruence.
Qed.

(* ---------- small list utilities ---------- *)
Fixpoint nodupb {A} (eqb : A -> A -> bool) (l : list A) : bool :=
  match l with
  | [] => true
  | x :: r => negb (existsb (eqb x) r) && nodupb eqb r
  end.

Definition Nlen {A} (l : list A) : N := N.of_nat (length l).
