#!/bin/sh
# tools/commitfix.sh <finding-id>... : commit /verif/build/fixes/<id>.diff (already applied in /repo's working tree)
# as its own "fix:" commit through the index, and replace PENDING-<id> in KNOWN_FINDINGS.json by the commit id.
for id in "$@"; do
  d=/verif/build/fixes/$id.diff; m=/verif/build/fixes/$id.msg
  if git -C /repo apply --cached --check $d 2>/dev/null; then
    git -C /repo apply --cached $d && git -C /repo commit -q -F $m && h=$(git -C /repo log --format=%h -1) && echo "$id -> $h $(head -1 $m)"
    sed -i "s/PENDING-$id\b/$h/g" /verif/KNOWN_FINDINGS.json
    mkdir -p /verif/fixes && cp $d $m /verif/fixes/
  else echo "$id: does not apply to the index:"; git -C /repo apply --cached --check $d 2>&1 | head -3; fi
done
python3 -c "import json;json.load(open('/verif/KNOWN_FINDINGS.json'))"
