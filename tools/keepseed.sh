#!/bin/sh
# tools/keepseed.sh <wt-suffix e.g. C16_1> <seed id e.g. C16-1> "<check verdict line>" "<caught_by>"
set -e
wt=/tmp/wt_$1; id=$2
mkdir -p /verif/seeded/$id && cp $wt/_seeded/* /verif/seeded/$id/
python3 - "$id" "$3" "$4" <<'PY'
import json,sys
id,verdict,by=sys.argv[1:4]
p='/verif/seeded/%s/meta.json'%id
m=json.load(open(p))
m['confirmed_by_coordinator']={'demo':'re-run by the coordinator in the worktree: demonstration FAILS with the patch and passes with it reverted; go build ./... ok; tests of the touched packages pass with the patch','check':verdict,'caught_by':by}
json.dump(m,open(p,'w'),indent=1)
PY
git -C /repo worktree remove --force $wt
