#!/bin/sh
# tools/takeseed.sh <wt-suffix e.g. C16_3>... : confirm the demonstration of a seeded change in its worktree
# /tmp/wt_<suffix> (fails with the patch, passes without), store it under /verif/seeded/<id>/, remove the worktree.
# The verdict of the check comes from tools/reseed.sh afterwards (fresh worktree of HEAD + patch, private /verif copy).
export GOFLAGS=-mod=mod GOPROXY=off GOSUMDB=off GOTOOLCHAIN=local
for w in "$@"; do
  wt=/tmp/wt_$w; id=$(echo $w | tr _ -)
  cd $wt || { echo "$id: no worktree"; continue; }
  demo=$(python3 -c "import json;print(json.load(open('_seeded/meta.json'))['demo_cmd'])")
  git apply --check -R _seeded/patch.diff 2>/dev/null || { echo "$id: patch not applied in worktree"; continue; }
  go build ./... >/dev/null 2>&1 && b=ok || b=FAILS
  sh -c "$demo" >/tmp/take_${w}_with.log 2>&1; a=$?
  git apply -R _seeded/patch.diff
  sh -c "$demo" >/tmp/take_${w}_without.log 2>&1; c=$?
  echo "$id: build=$b demo-with-patch exit=$a (want non-zero) demo-without-patch exit=$c (want 0)"
  mkdir -p /verif/seeded/$id && cp _seeded/* /verif/seeded/$id/
  cd /; git -C /repo worktree remove --force $wt; rm -f /tmp/take_${w}_*.log
done
