#!/bin/sh
# tools/reseed.sh <seed-id>... : re-validate kept seeded changes against /repo's current HEAD:
# fresh scratch worktree of HEAD + seeded/<id>/patch.diff, checked by a PRIVATE copy of /verif
# (so that neither coq/gen, build/bin nor evidence/ of /verif are touched); ./check must print VIOLATION.
export GOFLAGS=-mod=mod GOPROXY=off GOSUMDB=off GOTOOLCHAIN=local
pv=/tmp/reseed_verif_$$
mkdir -p $pv
rsync -a --delete --exclude .git --exclude build --exclude 'coq/cases' /verif/ $pv/
for id in "$@"; do
  pid=${CHECKPID:-${id%%-*}}; wt=/tmp/wtr_${id}_$$
  git -C /repo worktree remove --force $wt >/dev/null 2>&1
  git -C /repo worktree add --detach $wt HEAD -q >/dev/null 2>&1
  if ! git -C $wt apply /verif/seeded/$id/patch.diff 2>/dev/null; then
    if git -C $wt apply -3 /verif/seeded/$id/patch.diff >/dev/null 2>&1; then echo "$id: (patch applied with 3-way merge)"; else echo "$id: PATCH NO LONGER APPLIES"; git -C /repo worktree remove --force $wt; continue; fi
  fi
  if ! (cd $wt && go build ./... 2>/dev/null); then echo "$id: does not build"; git -C /repo worktree remove --force $wt; continue; fi
  v=$(cd $pv && VERIF_REPO=$wt ./check $pid 2>$pv/reseed_$id.err | grep -E "^(OK|VIOLATION|ERROR)" | cut -c1-140)
  echo "$id: $v"
  git -C /repo worktree remove --force $wt
done
rm -rf $pv
