#!/usr/bin/env python3
# Regenerates, in DESIGN.md section 11, the table of repairs (from KNOWN_FINDINGS.json "fixed" + /repo git log)
# and the table of findings kept recorded (from "findings" + the reasons below).
import json,re,subprocess
k=json.load(open('/verif/KNOWN_FINDINGS.json'))
def short(t,n):
    t=re.sub(r'\s+',' ',t).replace('|','/')
    return t if len(t)<=n else t[:n-1].rsplit(' ',1)[0]+' …'
rows=[]
for f in k['fixed']:
    m=re.match(r'fixed: property=(C\d\d) (\S+) (.*)',f,re.S)
    if not m: continue
    pid,h,what=m.groups()
    try: subj=subprocess.run(['git','-C','/repo','log','-1','--format=%s',h],capture_output=True,text=True).stdout.strip()
    except Exception: subj=''
    subj=re.sub(r'^fix:\s*','',subj)
    rows.append((pid,h,subj,what))
rows.sort(key=lambda r:(r[0],r[1]))
t1='| property | commit | subject | what failed |\n|---|---|---|---|\n'+'\n'.join('| %s | `%s` | %s | %s |'%(p,h,short(s,110),short(w,170)) for p,h,s,w in rows)
reasons={
'C02-a3':'design-level: whether a workflow without roles is deployable; an empty root aggregator is INACTIVE by construction',
'C02-c':'design-level: the status fold counts non-critical roles; changing it changes what PARTIAL/ACTIVE means for every reader of the role tree',
'C04-a':'design-level: a correct detector reservation has to span workflow loading and be undone on every failure path',
'C05-h':'design-level: the executor share is added to each TaskInfo after Resources.Satisfy compared the wants; bounded by one executor share (theorem)',
'C10-b':'design decision: what operators and later hooks should see after an aborted START (seeded change C10-5 shows how a naive clean-up breaks the run-number visibility clause)',
'C11-a':'design-level: initial STANDBY of aggregators without critical descendants',
'C11-b':'design-level: the leaf must hand over the incoming value (handing over the cache loses ERROR, seeded change C03-1), so an overtaken ERROR can be merged late',
'C16-a':'protocol-level: after a transport error the executor cannot know the device state',
'C20-a':'file backend only: YamlSource.Exists answering yes for folders is tested behaviour of the repository suite (source_test.go), and the caller-side cure costs the production Consul backend one more KV round trip per look-up; a proper repair is an entry-existence question of its own in the Source interface',
'C17-b':'hook tasks only, by design: hooks may run after KILL and are bounded by their own timeout',
'C17-j':'residue of C17-e after the nil-client repair: KILL before the gRPC dial returned is refused; a repair needs state shared between Launch and Kill and a cancellable dial',
}
t2='| id | reason |\n|---|---|\n'+'\n'.join('| %s | %s |'%(f['id'],reasons.get(f['id'],'see KNOWN_FINDINGS.json')) for f in sorted(k['findings'],key=lambda f:f['id']))
s=open('/verif/DESIGN.md').read()
a=s.index('| property | commit | subject | what failed |'); b=s.index('**Findings kept recorded')
s=s[:a]+t1+'\n\n'+s[b:]
a=s.index('| id | reason |',s.index('**Findings kept recorded')); b=s.index('**C20 notes.**')
s=s[:a]+t2+'\n\n'+s[b:]
s=re.sub(r'otherwise recorded\. \d+ defects are repaired by \d+','otherwise recorded. %d defects are repaired by %d'%(len(rows),len(set(r[1] for r in rows))),s)
open('/verif/DESIGN.md','w').write(s)
print(len(rows),'repairs;',len(k['findings']),'findings kept')
