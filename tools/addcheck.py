#!/usr/bin/env python3
# tools/addcheck.py Cxx "<level text>" "<level note>" "<technique>"
import json,sys
pid,text,note,tech=sys.argv[1:5]
p='/verif/MANIFEST.json'
m=json.load(open(p))
m['checks']=[c for c in m['checks'] if c['property_id']!=pid]
m['checks'].append({"property_id":pid,"quick_cmd":"./check %s --tier quick"%pid,"thorough_cmd":"./check %s --tier thorough"%pid,
 "evidence_file":"/verif/evidence/%s.json"%pid,"replay_cmd_template":"./check %s --replay {path}"%pid,"engine":"coq-proof+correspondence",
 "level_claimed":{"category":"proof","text":text,"design_ref":"DESIGN.md section 6 %s and section 11"%pid},"level_note":note,"technique":tech})
m['checks'].sort(key=lambda c:c['property_id'])
m['not_applicable']=[n for n in m.get('not_applicable',[]) if n['property_id']!=pid]
for e in m['engines']:
    if pid not in e['serves_properties']: e['serves_properties'].append(pid); e['serves_properties'].sort()
json.dump(m,open(p,'w'),indent=1)
print('checks:',[c['property_id'] for c in m['checks']])
