#!/usr/bin/env python3
# Regenerates DESIGN.md sections 12 (seeded changes) and 13 (harmless refactorings) from
# seeded/*/meta.json and refactors/*/meta.json; the prose around the tables lives here.
import json,glob,os,re
def short(t,n):
    t=re.sub(r'\s+',' ',str(t)).replace('|','/')
    return t if len(t)<=n else t[:n-1].rsplit(' ',1)[0]+' …'
rows=[];missed=[];nfif=[]
for d in sorted(glob.glob('/verif/seeded/*/'),key=lambda d:(os.path.basename(d.rstrip('/')).split('-')[0],int(os.path.basename(d.rstrip('/')).split('-')[1]))):
    sid=os.path.basename(d.rstrip('/'))
    m=json.load(open(d+'meta.json'))
    cb=m.get('confirmed_by_coordinator',{})
    chk=cb.get('check','')
    if 'missed' in chk or 'said OK' in chk or 'first version of the check: OK' in chk: missed.append(sid)
    if 'no-failing-input-found' in chk or 'no-failing-input-found' in cb.get('caught_by',''): nfif.append(sid)
    rows.append('| %s | %s | %s | %s |'%(sid,short(m['summary'],280),short(m['needs_to_manifest'],220),short(cb.get('caught_by','?'),330)))
s12='''## 12. Seeded changes and what catches them

Each change was written by a fresh sub-agent that saw only the text of the property and its own scratch worktree of /repo
(rounds 2-7 were also told which sites earlier reviewers had used, to push them to other clauses; round 7 was told to aim at
what the anchored functions DEPEND on: caches, backends, glue, defaults, constructors outside the anchored files); the coordinator re-ran
the demonstration (fails with the patch, passes without: `tools/takeseed.sh`) and the check against a fresh worktree of
HEAD with the patch, using a private copy of /verif (`tools/reseed.sh`). %d changes are kept; every one is reported as
VIOLATION now, with these qualifications: C17-1 and C18-1 only on the tree they were written for (their patches no longer
apply to the repaired code); C02-4 is an executor change that C02's check leaves to C16's, which reports it (code 4);
C17-6 led to the repair C17-m, after which the seeded change no longer breaks the property and is reported as
`no-failing-input-found` (a behavioural difference); C16-1, C16-3 and C02-4 were rebased onto the repairs C16-b/c
(originals kept as `patch_orig.diff`). Several round-7/8 changes are also caught by a neighbouring property's check;
the 'caught by' column says which. %d of them were MISSED by the version of the check that existed when they arrived (%s) and %d were at first reported
only as `no-failing-input-found` (%s); each miss led to a strengthening of model, theorems, generator, monitor or
translator for the whole CLASS of change, described in the "caught by" column.

| id | change | needs | caught by |
|---|---|---|---|
%s

What the misses taught (kept here rather than hidden):
* **Atomicity / hand-over / ordering assumptions must be read from the source, not assumed** (C11-1 merge drops the mutex;
  C19-2 producer-side select/default; C03-1 the leaf hands over its cache; C01-1 state read before the lock; C06-2 the
  order of the teardown steps; C18-3 reconcile once per instance; C19-3 the registry's check-then-create): each is now a
  translator fact the theorems depend on, plus a forced schedule or fault at exactly that point so that a concrete
  failing input is found.
* **Generators must cross the structural features** (C15-1 nested iterators; C05-1 shared classes and consecutive rounds;
  C06-1 executor failure before a forced keep-tasks destroy; C10-1/C10-3 real transition objects and partially stamped
  states; C08-2 sibling calls with different latencies at one await point; C03-2/C04-2 master-originated updates with
  unusual labels and missing ids; C09-3 the whole space of termination reports; C07-3 sequences of start attempts on
  one environment; C20-4 sequences of requests on a warm service; C06-3 partial deployment failures).
* **Code around the modelled core matters** (C19-3 the writer registry in core/the; C07-3 the environment side of
  run-number assignment; C20-4 caches in the service): the models grew to include it.
* **Pure-looking functions can mutate their arguments** (C05-1): the pure layer checks receiver, arguments and spare
  capacity after each call.
* **What the anchored code depends on is part of the property** (round 7: C04-6 the configuration cache proxy, C05-6 and
  C09-6 the task-class cache, C20-7 the Consul backend, C07-5/C07-6 the remote apricot client and server, C16-6 the executor
  layer above the transitioners, C10-6 YAML defaults of call roles, C13-6/C14-6 role copies made by iterators, C02-6 a
  shared slice helper of the roster, C12-6 pooled per-command objects): harnesses now drive the real glue (loopback gRPC,
  fake Consul KV over HTTP, the real cache proxy over a mutable inventory, workflows written as YAML), and where a model
  assumed a helper to be pure, fresh or last-write-wins, that assumption became a translator fact or a probe.
* **History matters** (C15-5 a process-global expression cache, C20-6 a template cached for a missing entry, C05-6 class
  reloads, C03-5/C03-6 benign traffic before the failure, C18-5/C18-6 operations before and after the reconnection):
  the generators produce sequences on one long-lived service / manager, and the theorems state history-independence.
* **A broken correspondence alone is a weak verdict** (C20-2, C09-1, C08-3, C18-2, C18-3, C01-1): every clause of a
  property now has a monitor class judged on the implementation's observed behaviour.
'''%(len(rows),len(missed),', '.join(missed),len(nfif),', '.join(nfif),'\n'.join(rows))
res={'C01':'first: no-failing-input-found (translator envfsm too syntactic); after generalising the translator: OK','C17':'first: no-failing-input-found (translator exectask); after rewriting it as operation streams with helper inlining: OK','C18':'first: no-failing-input-found (translator reconcile); after making it evaluate a truth table of the rule (symwalk.go): OK','C19':'first: no-failing-input-found (translator eventwriter); after helper inlining / constant resolution: OK','C13':'OK on the tree it was written for; the patch conflicts textually with the later repair C13-d'}
rrows=[]
for d in sorted(glob.glob('/verif/refactors/*/')):
    pid=os.path.basename(d.rstrip('/'))
    m=json.load(open(d+'meta.json'))
    rrows.append('| %s | %s | %s |'%(pid,short(m.get('summary',''),230),res.get(pid,'OK')))
s13='''
## 13. Harmless refactorings (false-alarm trials)

The converse of section 12: for every property a fresh sub-agent (same isolation) made a realistic, purely
behaviour-preserving clean-up of the anchored code (helper extraction, named constants, if/else <-> switch, merged case
arms, early returns, renamed locals, reordered independent statements; 40-100 changed lines); `tools/tryrefactor.sh` /
`tools/rerefactor.sh` run the check against it with a private copy of /verif; the patches are kept under
`/verif/refactors/<id>/`. Expected verdict: OK. Sixteen of twenty were OK at once. Four (C01, C17, C18, C19) gave
`VIOLATION ... no-failing-input-found` because the go/ast translators matched program text too literally - allowed by
the rules (a broken tie means the property is no longer shown to hold) but an alarm on code where the property holds;
those translators now follow calls to package-local helpers (three levels deep), resolve constants and hoisted locals,
and read if/switch/early-return forms of the same logic, while still emitting different facts for every kept seeded
change and every reverted repair (re-validated with `tools/reseed.sh`). What they still cannot follow (a closure stored
in a field, a helper in another package, renamed anchor functions) is reported as a broken tie.

| id | refactoring | verdict |
|---|---|---|
%s
'''%'\n'.join(rrows)
# round 2 of the refactoring trials (other kinds of clean-up); verdict notes in refactors2/<id>/verdict.txt
r2rows=[]
for d in sorted(glob.glob('/verif/refactors2/*/')):
    pid=os.path.basename(d.rstrip('/'))
    m=json.load(open(d+'meta.json'))
    vf=d+'verdict.txt'
    r2rows.append('| %s | %s | %s |'%(pid,short(m.get('summary',''),230),short(open(vf).read(),260) if os.path.exists(vf) else 'OK'))
s13+='''
### Round 2 (other kinds of clean-up)

A second set of twenty fresh sub-agents was asked for kinds of behaviour-preserving change the first round had not
used: closures turned into named methods or functions (method values, method expressions), functions moved to another
file of the package, renamed unexported functions / methods / fields / receivers / types, table-driven lookups instead
of switch or || chains, index loops <-> range loops, keyed <-> positional literals, splitting a function into
sequential steps, hoisting literals into package-level tables. Patches under `/verif/refactors2/<id>/`
(`REFDIR=refactors2 tools/rerefactor.sh <id>`). Ten were OK at once; ten tripped a translator
(`VIOLATION ... no-failing-input-found`, never a fabricated failing input) and the translators were generalised again
(declarations are looked up in the package rather than in a file, calls are followed through renamed unexported
callees starting from stable exported entry points, method values and method expressions are resolved, table
look-ups are evaluated) - verdict column.

| id | refactoring | verdict |
|---|---|---|
%s
'''%'\n'.join(r2rows)
r3rows=[]
for d in sorted(glob.glob('/verif/refactors3/*/')):
    pid=os.path.basename(d.rstrip('/'))
    m=json.load(open(d+'meta.json'))
    vf=d+'verdict.txt'
    r3rows.append('| %s | %s | %s |'%(pid,short(m.get('summary',''),230),short(open(vf).read(),260) if os.path.exists(vf) else 'OK'))
s13+='''
### Round 3 (the code the properties depend on)

After seed rounds 6-8 had pulled glue code, caches, backends and executor layers into models and translators, thirteen
fresh sub-agents refactored exactly that dependency code (cache proxy, class cache, port-range parser, constraint
matcher, remote apricot client/server, servent and command queue, template field evaluation, executor message handler
and ControllableTask, gRPC client, Consul/YAML backends, template loader, query helpers), 50-110 changed lines each.
Patches under `/verif/refactors3/<id>/` (`REFDIR=refactors3 tools/rerefactor.sh <id>`). Ten of thirteen were OK at
once; three tripped a translator added or extended in those rounds - verdict column.

| id | refactoring | verdict |
|---|---|---|
%s
'''%'\n'.join(r3rows)
s=open('/verif/DESIGN.md').read()
i=s.index('## 12. Seeded changes and what catches them')
open('/verif/DESIGN.md','w').write(s[:i]+s12+s13)
print(len(rows),'seeds;',len(missed),'missed at first;',len(nfif),'nfif;',len(rrows),'refactorings')
