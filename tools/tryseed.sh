#!/bin/sh
# tools/tryseed.sh <wt-suffix e.g. C16_1> <property id> : coordinator's confirmation of a seeded change
#  1. demonstration fails with the patch, passes with it reverted (in the scratch worktree /tmp/wt_<suffix>)
#  2. go build ./... with the patch
#  3. the check, run from a PRIVATE copy of /verif (so coq/gen, build/bin and evidence/ of /verif stay
#     untouched) against the worktree  (expected: VIOLATION)
export GOFLAGS=-mod=mod GOPROXY=off GOSUMDB=off GOTOOLCHAIN=local
wt=/tmp/wt_$1; pid=$2
cd $wt || exit 2
demo=$(python3 -c "import json;print(json.load(open('_seeded/meta.json'))['demo_cmd'])")
echo "demo_cmd: $demo"
git apply --check -R _seeded/patch.diff || { echo "patch not applied in worktree"; exit 2; }
go build ./... && echo "BUILD-WITH-PATCH ok"
sh -c "$demo" >/tmp/seed_$1_with.log 2>&1; echo "DEMO-WITH-PATCH exit=$? (expected non-zero)"
git apply -R _seeded/patch.diff
sh -c "$demo" >/tmp/seed_$1_without.log 2>&1; echo "DEMO-WITHOUT-PATCH exit=$? (expected 0)"
git apply _seeded/patch.diff
# remove demo copies (untracked files outside _seeded) so that the check sees the source change only
git status --short | grep '^??' | grep -v _seeded | awk '{print $2}' | xargs -r rm -rf
pv=/tmp/tryseed_verif_$1
mkdir -p $pv; rsync -a --delete --exclude .git --exclude build --exclude 'coq/cases' /verif/ $pv/
cd $pv && VERIF_REPO=$wt ./check $pid 2>/tmp/seed_$1_check.err | grep -E "^(OK|VIOLATION|ERROR)"
mkdir -p /verif/build/replays/seeded_$1 && cp $pv/build/replays/${pid}_* /verif/build/replays/seeded_$1/ 2>/dev/null
rm -rf $pv
