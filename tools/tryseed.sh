#!/bin/sh
# tools/tryseed.sh <wt-suffix e.g. C16_1> <property id> : coordinator's confirmation of a seeded change
#  1. demonstration fails with the patch, passes with it reverted (in the scratch worktree)
#  2. go build ./... with the patch
#  3. VERIF_REPO=<worktree> ./check <pid>  (expected: VIOLATION)
export GOFLAGS=-mod=mod GOPROXY=off GOSUMDB=off GOTOOLCHAIN=local
wt=/tmp/wt_$1; pid=$2
cd $wt || exit 2
demo=$(python3 -c "import json;print(json.load(open('_seeded/meta.json'))['demo_cmd'])")
echo "demo_cmd: $demo"
git apply --check -R _seeded/patch.diff || { echo "patch not applied in worktree"; exit 2; }
go build ./... && echo "BUILD-WITH-PATCH ok"
sh -c "$demo" >/tmp/seed_$1_with.log 2>&1; echo "DEMO-WITH-PATCH exit=$? (expected non-zero)"
git apply -R _seeded/patch.diff
sh -c "$demo" >/tmp/seed_$1_without.log 2>&1; echo "DEMO-WITHOUT-PATCH exit=$? (expected 0)"
git apply _seeded/patch.diff
# remove demo copies (untracked files outside _seeded) so that the check sees the source change only
git status --short | grep '^??' | grep -v _seeded | awk '{print $2}' | xargs -r rm -rf
cd /verif
VERIF_REPO=$wt ./check $pid 2>/tmp/seed_$1_check.err | grep -E "^(OK|VIOLATION|ERROR)" 
# the seeded run regenerated coq/gen/*.v from the scratch worktree: regenerate them from /repo again
python3 - "$pid" <<'PY'
import json,subprocess,sys,os
c=json.load(open('/verif/props.d/%s.json'%sys.argv[1]))
env=dict(os.environ,VERIF_REPO='/repo')
for name,out in c.get('translate',[]):
    subprocess.run(['/verif/build/bin/translate',name,'/verif/coq/'+out],env=env)
# enumerators run the harness binary, which the seeded run built against the worktree: rebuild first
if c.get('enumerate'):
    for g in c['enumerate']:
        subprocess.run(['go','build','-tags','verif','-o','/verif/build/bin/'+g['cmd'],'./cmd/'+g['cmd']],cwd='/verif/harness',env=dict(env,CGO_ENABLED='0'))
        subprocess.run(['/verif/build/bin/'+g['cmd']]+g['args'],cwd='/verif',env=env)
PY
git -C /verif status --short coq/gen | head
