#!/bin/sh
# tools/accept.sh Cxx : acceptance run for one property check (twice, for determinism) + schema validation
cd /verif
for i in 1 2 3; do
  [ $i = 2 ] && export VERIF_SEED=1
  [ $i = 3 ] && export VERIF_SEED=987654321
  /usr/bin/time -f "run $i (seed ${VERIF_SEED:-default}): %es" ./check "$1" 2>build/accept_$1_$i.err | grep -E "^(OK|VIOLATION|KNOWN-FINDING|ERROR)"; echo "exit=$?"
done
python3-vt - "$1" <<'PY'
import json,sys,jsonschema
pid=sys.argv[1]
ev=json.load(open('/verif/evidence/%s.json'%pid))
jsonschema.validate(ev,json.load(open('/root/.vp/EVIDENCE.schema.json')))
c=ev['coverage']
print('evidence ok: obligations=%s discharged=%s evaluations=%s distinct_nontrivial=%s mismatches=%s wall=%s'%(c['obligations'],c['discharged'],c['evaluations'],c['distinct_nontrivial'],c.get('correspondence_mismatches'),ev['wall_s']))
print('theorems:',', '.join(c['theorems']))
print('tags:',c.get('branch_tag_histogram'))
PY
