#!/bin/sh
# tools/rerefactor.sh <pid>... : re-validate kept harmless refactorings (/verif/refactors/<pid>/patch.diff) against
# /repo's current HEAD with a private copy of /verif: the check must print OK.
export GOFLAGS=-mod=mod GOPROXY=off GOSUMDB=off GOTOOLCHAIN=local
pv=/tmp/reref_verif_$$
mkdir -p $pv
rsync -a --delete --exclude .git --exclude build --exclude 'coq/cases' /verif/ $pv/
for pid in "$@"; do
  wt=/tmp/wtrf_${pid}_$$
  git -C /repo worktree remove --force $wt >/dev/null 2>&1
  git -C /repo worktree add --detach $wt HEAD -q >/dev/null 2>&1
  if ! git -C $wt apply /verif/${REFDIR:-refactors}/$pid/patch.diff 2>/dev/null; then
    if git -C $wt apply -3 /verif/${REFDIR:-refactors}/$pid/patch.diff >/dev/null 2>&1; then echo "$pid: (patch applied with 3-way merge)"; else echo "$pid: PATCH NO LONGER APPLIES"; git -C /repo worktree remove --force $wt; continue; fi
  fi
  if ! (cd $wt && go build ./... && go build -tags verif ./... 2>/dev/null); then echo "$pid: does not build"; git -C /repo worktree remove --force $wt; continue; fi
  v=$(cd $pv && VERIF_REPO=$wt ./check $pid 2>$pv/reref_$pid.err | grep -E "^(OK|VIOLATION|ERROR)" | cut -c1-150)
  echo "$pid: $v"; case "$v" in OK*) ;; *) grep BROKEN $pv/reref_$pid.err | head -3;; esac
  git -C /repo worktree remove --force $wt
done
rm -rf $pv
