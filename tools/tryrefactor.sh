#!/bin/sh
# tools/tryrefactor.sh <property id>... : a harmless refactoring made by a sub-agent sits in /tmp/wtf_<pid>
# (worktree with the change applied, _refactor/patch.diff); run the check from a private copy of /verif
# against it: expected OK (no false alarm). Keeps the patch under /verif/refactors/<pid>/.
export GOFLAGS=-mod=mod GOPROXY=off GOSUMDB=off GOTOOLCHAIN=local
for pid in "$@"; do
  wt=${WTPREFIX:-/tmp/wtf_}$pid
  [ -d $wt/_refactor ] || { echo "$pid: no refactoring in $wt"; continue; }
  (cd $wt && go build ./... && go build -tags verif ./... ) || { echo "$pid: does not build"; continue; }
  pv=/tmp/tryref_verif_$pid
  mkdir -p $pv; rsync -a --delete --exclude .git --exclude build --exclude 'coq/cases' /verif/ $pv/
  v=$(cd $pv && VERIF_REPO=$wt ./check $pid 2>$pv/check.err | grep -E "^(OK|VIOLATION|ERROR)" | cut -c1-160)
  echo "$pid: $v"
  mkdir -p /verif/${REFDIR:-refactors}/$pid; cp $wt/_refactor/* /verif/${REFDIR:-refactors}/$pid/
  case "$v" in OK*) ;; *) mkdir -p /verif/build/replays/refactor_$pid; cp $pv/build/replays/${pid}_* /verif/build/replays/refactor_$pid/ 2>/dev/null; grep BROKEN $pv/check.err | head -5;; esac
  rm -rf $pv
done
