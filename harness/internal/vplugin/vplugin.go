// Package vplugin is an integration plugin for verification harnesses: its call functions record
// (sequence number, probe id, start/end, a snapshot of selected variables), can be made to fail,
// and can block until the harness releases them.  Workflow usage (call role):
//
//	call:
//	  func: verif.Probe("id")      # or verif.Probe("id") with trigger/await/critical traits
//	  trigger: before_CONFIGURE-5
package vplugin

import (
	"sort"
	"sync"

	"github.com/AliceO2Group/Control/common/utils/uid"
	"github.com/AliceO2Group/Control/core/integration"
	"github.com/AliceO2Group/Control/core/workflow/callable"
)

type Event struct {
	Seq  int               `json:"seq"`
	Id   string            `json:"id"`
	Kind string            `json:"kind"` // "start" | "end"
	Vars map[string]string `json:"vars,omitempty"`
	Path string            `json:"path,omitempty"`
}

type Recorder struct {
	mu       sync.Mutex
	seq      int
	events   []Event
	fail     map[string]bool
	gates    map[string]chan struct{}
	SnapKeys []string // variables to snapshot at each probe start ("" = none)
	OnStart  func(id string, vars map[string]string) // optional callback inside the call (e.g. inject a fault)
}

func NewRecorder(snapKeys ...string) *Recorder {
	return &Recorder{fail: map[string]bool{}, gates: map[string]chan struct{}{}, SnapKeys: snapKeys}
}

func (r *Recorder) SetFail(id string, fail bool) { r.mu.Lock(); r.fail[id] = fail; r.mu.Unlock() }

// Gate makes the probe with this id block (after its start record) until Release(id).
func (r *Recorder) Gate(id string) {
	r.mu.Lock()
	r.gates[id] = make(chan struct{})
	r.mu.Unlock()
}

func (r *Recorder) Release(id string) {
	r.mu.Lock()
	g := r.gates[id]
	delete(r.gates, id)
	r.mu.Unlock()
	if g != nil {
		close(g)
	}
}

// Mark adds a harness-side record into the same sequence (e.g. "request returned").
func (r *Recorder) Mark(id, kind string) int {
	r.mu.Lock()
	defer r.mu.Unlock()
	r.seq++
	r.events = append(r.events, Event{Seq: r.seq, Id: id, Kind: kind})
	return r.seq
}

func (r *Recorder) Events() []Event {
	r.mu.Lock()
	defer r.mu.Unlock()
	return append([]Event(nil), r.events...)
}

func (r *Recorder) Reset() {
	r.mu.Lock()
	r.events = nil
	r.seq = 0
	r.mu.Unlock()
}

// Started reports whether a start record for id exists (used to wait for a blocked probe).
func (r *Recorder) Started(id string) bool {
	r.mu.Lock()
	defer r.mu.Unlock()
	for _, e := range r.events {
		if e.Id == id && e.Kind == "start" {
			return true
		}
	}
	return false
}

type Plugin struct {
	rec *Recorder
}

// New returns a constructor suitable for integration.RegisterPlugin("verif", ..., ctor).
func New(rec *Recorder) integration.NewFunc {
	return func(endpoint string) integration.Plugin { return &Plugin{rec: rec} }
}

func (p *Plugin) GetName() string            { return "verif" }
func (p *Plugin) GetPrettyName() string      { return "verification plugin" }
func (p *Plugin) GetEndpoint() string        { return "none" }
func (p *Plugin) GetConnectionState() string { return "READY" }
func (p *Plugin) GetData(_ []any) string     { return "" }
func (p *Plugin) GetEnvironmentsData(envIds []uid.ID) map[uid.ID]string {
	return map[uid.ID]string{}
}
func (p *Plugin) GetEnvironmentsShortData(envIds []uid.ID) map[uid.ID]string {
	return map[uid.ID]string{}
}
func (p *Plugin) Init(_ string) error { return nil }
func (p *Plugin) Destroy() error      { return nil }
func (p *Plugin) ObjectStack(_ map[string]string, _ map[string]string) map[string]interface{} {
	return map[string]interface{}{}
}

func (p *Plugin) CallStack(data interface{}) (stack map[string]interface{}) {
	call, ok := data.(*callable.Call)
	if !ok {
		return
	}
	r := p.rec
	stack = make(map[string]interface{})
	stack["Probe"] = func(id string) (out string) {
		snap := map[string]string{}
		keys := append([]string(nil), r.SnapKeys...)
		sort.Strings(keys)
		for _, k := range keys {
			if v, ok := call.VarStack[k]; ok {
				snap[k] = v
			} else {
				snap[k] = "\x00absent"
			}
		}
		r.mu.Lock()
		r.seq++
		r.events = append(r.events, Event{Seq: r.seq, Id: id, Kind: "start", Vars: snap, Path: call.GetParentRolePath()})
		gate := r.gates[id]
		fail := r.fail[id]
		cb := r.OnStart
		r.mu.Unlock()
		if cb != nil {
			cb(id, call.VarStack)
		}
		if gate != nil {
			<-gate
		}
		r.mu.Lock()
		r.seq++
		r.events = append(r.events, Event{Seq: r.seq, Id: id, Kind: "end"})
		r.mu.Unlock()
		if fail {
			call.VarStack["__call_error"] = "verif probe " + id + " failed"
		}
		return
	}
	return
}
