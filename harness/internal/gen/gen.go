// Package gen: deterministic PRNG, Coq term printers and the case-file / meta writers shared
// by all correspondence harnesses.
package gen

import (
	"crypto/sha256"
	"encoding/hex"
	"encoding/json"
	"flag"
	"fmt"
	"os"
	"path/filepath"
	"sort"
	"strings"
)

// ---------- splitmix64 ----------

type Rand struct{ s uint64 }

func NewRand(seed uint64) *Rand { return &Rand{s: seed} }

func (r *Rand) U64() uint64 {
	r.s += 0x9e3779b97f4a7c15
	z := r.s
	z = (z ^ (z >> 30)) * 0xbf58476d1ce4e5b9
	z = (z ^ (z >> 27)) * 0x94d049bb133111eb
	return z ^ (z >> 31)
}

// Intn returns a value in [0,n).
func (r *Rand) Intn(n int) int {
	if n <= 0 {
		return 0
	}
	return int(r.U64() % uint64(n))
}

// Range returns a value in [lo,hi].
func (r *Rand) Range(lo, hi int) int { return lo + r.Intn(hi-lo+1) }

// Chance is true with probability num/den.
func (r *Rand) Chance(num, den int) bool { return r.Intn(den) < num }

func (r *Rand) Pick(xs []string) string { return xs[r.Intn(len(xs))] }

// Fork derives an independent stream (so adding draws in one place does not shift others).
func (r *Rand) Fork() *Rand { return NewRand(r.U64()) }

func (r *Rand) Perm(n int) []int {
	p := make([]int, n)
	for i := range p {
		p[i] = i
	}
	for i := n - 1; i > 0; i-- {
		j := r.Intn(i + 1)
		p[i], p[j] = p[j], p[i]
	}
	return p
}

// ---------- Coq term printers ----------

func N(n uint64) string { return fmt.Sprintf("%d", n) }

func Z(n int64) string {
	if n < 0 {
		return fmt.Sprintf("(%d)%%Z", n)
	}
	return fmt.Sprintf("%d%%Z", n)
}

func Bool(b bool) string {
	if b {
		return "true"
	}
	return "false"
}

// Str prints a Go string as a Coq [list N] of its bytes.
func Str(s string) string {
	if len(s) == 0 {
		return "[]"
	}
	var b strings.Builder
	b.WriteString("[")
	for i := 0; i < len(s); i++ {
		if i > 0 {
			b.WriteString(";")
		}
		fmt.Fprintf(&b, "%d", s[i])
	}
	b.WriteString("]")
	return b.String()
}

func List(items []string) string {
	if len(items) == 0 {
		return "[]"
	}
	return "[" + strings.Join(items, "; ") + "]"
}

func StrList(xs []string) string {
	items := make([]string, len(xs))
	for i, x := range xs {
		items[i] = Str(x)
	}
	return List(items)
}

func NList(xs []uint64) string {
	items := make([]string, len(xs))
	for i, x := range xs {
		items[i] = N(x)
	}
	return List(items)
}

func Pair(a, b string) string { return "(" + a + ", " + b + ")" }

func Some(a string) string { return "(Some " + a + ")" }

func None() string { return "None" }

// KVs prints a map as a key-sorted list of (str*str) pairs.
func KVs(m map[string]string) string {
	keys := make([]string, 0, len(m))
	for k := range m {
		keys = append(keys, k)
	}
	sort.Strings(keys)
	items := make([]string, len(keys))
	for i, k := range keys {
		items[i] = Pair(Str(k), Str(m[k]))
	}
	return List(items)
}

// ---------- harness run description ----------

// Case is one (input, observed) pair: Term is the Coq term, Input the JSON-able description
// (used for replay, samples and distinctness), Kind a short label for the distribution.
type Case struct {
	Term  string      `json:"-"`
	Kind  string      `json:"kind"`
	Input interface{} `json:"input"`
	Obs   interface{} `json:"observed,omitempty"`
}

type Meta struct {
	Property     string         `json:"property"`
	Seed         uint64         `json:"seed"`
	Cases        int            `json:"cases"`
	Shards       int            `json:"shards"`
	ShardSizes   []int          `json:"shard_sizes"`
	Hashes       []string       `json:"hashes"` // per case, hash of Input
	Kinds        []string       `json:"kinds"`
	Distribution map[string]int `json:"distribution"`
	Extra        map[string]any `json:"extra,omitempty"`
	CasesJSON    string         `json:"cases_json"` // file with all inputs/observations
}

type Opts struct {
	Seed   uint64
	N      int
	Out    string
	Shards int
	Replay string
	Tier   string
}

func ParseFlags() Opts {
	var o Opts
	flag.Uint64Var(&o.Seed, "seed", 20260926, "PRNG seed")
	flag.IntVar(&o.N, "n", 300, "number of generated cases")
	flag.StringVar(&o.Out, "out", "", "output directory for case files")
	flag.IntVar(&o.Shards, "shards", 1, "number of case files")
	flag.StringVar(&o.Replay, "replay", "", "replay file (JSON) with explicit inputs")
	flag.StringVar(&o.Tier, "tier", "quick", "quick|thorough")
	flag.Parse()
	if o.Out == "" {
		fmt.Fprintln(os.Stderr, "need -out")
		os.Exit(2)
	}
	if err := os.MkdirAll(o.Out, 0o755); err != nil {
		fmt.Fprintln(os.Stderr, err)
		os.Exit(2)
	}
	return o
}

func hashOf(v interface{}) string {
	b, _ := json.Marshal(v)
	h := sha256.Sum256(b)
	return hex.EncodeToString(h[:8])
}

// WriteCases writes Cases_<prop>_<i>.v shards plus <prop>_meta.json and <prop>_cases.json.
// header is e.g. "From Verif Require Import CfgQuery." ; typ the Coq type of a case;
// reportFn the name of the report function.
func WriteCases(o Opts, prop, header, typ, reportFn string, cases []Case, extra map[string]any) error {
	if err := os.MkdirAll(o.Out, 0o755); err != nil {
		return err
	}
	old, _ := filepath.Glob(filepath.Join(o.Out, "Cases_"+prop+"_*"))
	for _, f := range old {
		os.Remove(f)
	}
	shards := o.Shards
	if shards < 1 {
		shards = 1
	}
	if shards > len(cases) && len(cases) > 0 {
		shards = len(cases)
	}
	meta := Meta{Property: prop, Seed: o.Seed, Cases: len(cases), Shards: shards,
		Distribution: map[string]int{}, Extra: extra}
	per := (len(cases) + shards - 1) / shards
	for s := 0; s < shards; s++ {
		lo, hi := s*per, (s+1)*per
		if lo > len(cases) {
			lo = len(cases)
		}
		if hi > len(cases) {
			hi = len(cases)
		}
		var b strings.Builder
		b.WriteString("(* generated by the correspondence harness; do not edit *)\n")
		b.WriteString(header + "\n")
		b.WriteString("Open Scope N_scope.\n")
		fmt.Fprintf(&b, "Definition cases : list %s := [\n", typ)
		for i := lo; i < hi; i++ {
			b.WriteString("  " + cases[i].Term)
			if i < hi-1 {
				b.WriteString(";\n")
			} else {
				b.WriteString("\n")
			}
		}
		b.WriteString("].\n")
		fmt.Fprintf(&b, "Definition R := Eval vm_compute in (%s cases).\n", reportFn)
		b.WriteString("Set Printing Width 100000.\nSet Printing Depth 10000000.\nPrint R.\n")
		name := filepath.Join(o.Out, fmt.Sprintf("Cases_%s_%d.v", prop, s))
		if err := os.WriteFile(name, []byte(b.String()), 0o644); err != nil {
			return err
		}
		meta.ShardSizes = append(meta.ShardSizes, hi-lo)
	}
	for _, c := range cases {
		meta.Hashes = append(meta.Hashes, hashOf(c.Input))
		meta.Kinds = append(meta.Kinds, c.Kind)
		meta.Distribution[c.Kind]++
	}
	meta.CasesJSON = filepath.Join(o.Out, prop+"_cases.json")
	cj, err := json.Marshal(cases)
	if err != nil {
		return err
	}
	if err := os.WriteFile(meta.CasesJSON, cj, 0o644); err != nil {
		return err
	}
	mj, _ := json.MarshalIndent(meta, "", " ")
	return os.WriteFile(filepath.Join(o.Out, prop+"_meta.json"), mj, 0o644)
}

// LoadReplay reads a replay file: {"cases":[{"kind":..,"input":..},...]} .
func LoadReplay(path string) ([]json.RawMessage, []string, error) {
	raw, err := os.ReadFile(path)
	if err != nil {
		return nil, nil, err
	}
	var doc struct {
		Cases []struct {
			Kind  string          `json:"kind"`
			Input json.RawMessage `json:"input"`
		} `json:"cases"`
	}
	if err := json.Unmarshal(raw, &doc); err != nil {
		return nil, nil, err
	}
	var ins []json.RawMessage
	var kinds []string
	for _, c := range doc.Cases {
		ins = append(ins, c.Input)
		kinds = append(kinds, c.Kind)
	}
	return ins, kinds, nil
}
