// Package c0203 is the machinery shared by the C02 and C03 correspondence harnesses: it builds the
// in-process core (internal/simcore) with a capture of the published events, writes generated
// workflows, creates environments while deciding itself when each launched task reports in, and
// scripts the per-task outcome of every transition command.
package c0203

import (
	"bytes"
	"context"
	"fmt"
	"os"
	"path/filepath"
	"runtime"
	"sort"
	"strings"
	"sync"
	"time"

	"github.com/AliceO2Group/Control/common/event/topic"
	evpb "github.com/AliceO2Group/Control/common/protos"
	"github.com/AliceO2Group/Control/common/utils/uid"
	"github.com/AliceO2Group/Control/core/environment"
	"github.com/AliceO2Group/Control/core/integration"
	pb "github.com/AliceO2Group/Control/core/protos"
	"github.com/AliceO2Group/Control/core/the"
	"github.com/AliceO2Group/Control/core/workflow"
	mesos "github.com/mesos/mesos-go/api/v1/lib"

	"verif/harness/internal/simcore"
	"verif/harness/internal/vplugin"
)

// ---------------------------------------------------------------- inputs

type Task struct {
	Crit bool   `json:"crit"`
	Mode string `json:"mode"` // basic | direct | fairmq
	Host int    `json:"host"` // 1..3
}

// Call is a call role running verif.Probe(Id) at Trigger.
type Call struct {
	Id       string
	Trigger  string
	Critical bool
}

var StateCode = map[string]int{"UNKNOWN": 0, "STANDBY": 1, "CONFIGURED": 2, "RUNNING": 3, "ERROR": 4, "DONE": 5, "MIXED": 6, "INVARIANT": 7}
var StatusCode = map[string]int{"UNDEFINED": 0, "INACTIVE": 1, "PARTIAL": 2, "ACTIVE": 3, "UNDEPLOYABLE": 4}
var EnvStateCode = map[string]int{"STANDBY": 1, "DEPLOYED": 2, "CONFIGURED": 3, "RUNNING": 4, "ERROR": 5, "DONE": 6}

// ---------------------------------------------------------------- event capture

type RunEv struct {
	Transition string
	Status     string
	State      string
	Run        uint32
}

type capture struct {
	mu    sync.Mutex
	envs  map[string][]string // env id -> published environment states, in order
	runs  map[string][]RunEv
	tasks map[string]int // task id -> number of task events published (one per applied state / status update)
	// onRole, when set, runs inside the core's goroutine that publishes a role event (a role whose
	// cached state or status changed writes it after the store and before it climbs to its parent)
	onRole func(envId, rolePath, state, status string)
}

func (c *capture) WriteEvent(e interface{}) {
	switch ev := e.(type) {
	case *evpb.Ev_EnvironmentEvent:
		c.mu.Lock()
		c.envs[ev.EnvironmentId] = append(c.envs[ev.EnvironmentId], ev.State)
		c.mu.Unlock()
	case *evpb.Ev_RoleEvent:
		c.mu.Lock()
		f := c.onRole
		c.mu.Unlock()
		if f != nil {
			f(ev.EnvironmentId, ev.RolePath, ev.State, ev.Status)
		}
	case *evpb.Ev_TaskEvent:
		c.mu.Lock()
		c.tasks[ev.Taskid]++
		c.mu.Unlock()
	case *evpb.Ev_RunEvent:
		c.mu.Lock()
		c.runs[ev.EnvironmentId] = append(c.runs[ev.EnvironmentId], RunEv{ev.Transition, ev.TransitionStatus.String(), ev.State, ev.RunNumber})
		c.mu.Unlock()
	}
}
func (c *capture) WriteEventWithTimestamp(e interface{}, _ time.Time) { c.WriteEvent(e) }
func (c *capture) Close()                                             {}

// ---------------------------------------------------------------- world

type World struct {
	Sim   *simcore.Sim
	Rec   *vplugin.Recorder
	cap   *capture
	Hosts int

	mu     sync.Mutex
	byTask map[string]*taskRef // task id -> (env, position)
	hooks  map[string]func()   // probe id -> callback run inside the probe

	// optional overrides (nil: the flat workflow of WorkflowYAML, role path "<name>.t<i>"); h03 uses
	// them for workflows with nested aggregator roles
	YAMLOf func(name string, tasks []Task, launch []string, calls []Call, deployTimeout string) string
	PathOf func(name string, i int) string
	// BeforeReport, when set, is called by the director of Create right before it lets the launched
	// task of position idx report in (how: run | fail | ...), in the order the tasks report
	BeforeReport func(e *Env, idx int, tid string, how string)
}

type taskRef struct {
	env *Env
	idx int
}

func hostName(h int) string { return fmt.Sprintf("host%d", h) }

func classYAML(name, mode string) string {
	extra := ""
	if mode != "basic" {
		extra = "bind:\n  - name: ctl\n    type: push\n    addressing: tcp\n"
	}
	return fmt.Sprintf("name: %s\ncontrol:\n  mode: %s\nwants:\n  cpu: 0.1\n  memory: 64\n%scommand:\n  env: []\n  shell: true\n  value: \"sleep 1000\"\n", name, mode, extra)
}

// greedy class: wants more CPU than any simulated agent offers (descriptor stays undeployed)
func greedyYAML(name, mode string) string {
	return fmt.Sprintf("name: %s\ncontrol:\n  mode: %s\nwants:\n  cpu: 100000\n  memory: 64\ncommand:\n  env: []\n  shell: true\n  value: \"sleep 1000\"\n", name, mode)
}

func NewWorld(workDir string, hosts int, verbose bool) (*World, error) {
	w := &World{Rec: vplugin.NewRecorder("run_number", "run_end_time_ms"), Hosts: hosts,
		cap:    &capture{envs: map[string][]string{}, runs: map[string][]RunEv{}, tasks: map[string]int{}},
		byTask: map[string]*taskRef{}, hooks: map[string]func(){}}
	classes := map[string]string{}
	for _, m := range []string{"basic", "direct", "fairmq"} {
		classes["c"+m] = classYAML("c"+m, m)
		classes["g"+m] = greedyYAML("g"+m, m)
	}
	var agents []simcore.Agent
	for h := 1; h <= hosts; h++ {
		agents = append(agents, simcore.Agent{Hostname: hostName(h), CPUs: 64, Mem: 65536,
			Ports:      [][2]uint64{{9000, 9999}, {30000, 30999}},
			Attributes: map[string]string{"machine_id": hostName(h)}})
	}
	the.VerifC02SetEventWriter(topic.Environment, w.cap)
	the.VerifC02SetEventWriter(topic.Run, w.cap)
	s, err := simcore.New(simcore.Options{
		Plugins:     map[string]integration.NewFunc{"verif": vplugin.New(w.Rec)},
		WorkDir:     workDir,
		Workflows:   map[string]string{},
		TaskClasses: classes,
		Agents:      agents,
		Quiet:       !verbose,
		// offers a few milliseconds after the REVIVE, as a master would: with none, the OFFERS event
		// can be handled before acquireTasks listens for the verdict of resourceOffers (dropped by
		// a non-blocking send; acquireTasks then blocks for ever holding the deploy mutex)
		OfferDelay: 4 * time.Millisecond,
		// simcore's default burst of 1000 revive tokens costs a thousand 1 ms timers per process
		Settings: map[string]interface{}{"mesosReviveBurst": 8, "mesosReviveWait": "1ms"},
	})
	if err != nil {
		return nil, err
	}
	// simcore resets nothing in package the; make sure our writers are still installed
	the.VerifC02SetEventWriter(topic.Environment, w.cap)
	the.VerifC02SetEventWriter(topic.Run, w.cap)
	the.VerifC02SetEventWriter(topic.Task, w.cap)
	w.Sim = s
	s.Beh.Launch = func(ti mesos.TaskInfo) string { return "silent" } // the director reports tasks in
	s.Beh.Command = func(taskId, cls, ev string) simcore.CmdOutcome {
		w.mu.Lock()
		ref := w.byTask[taskId]
		w.mu.Unlock()
		if ref == nil {
			return simcore.CmdAck
		}
		return ref.env.outcome(ref.idx, ev)
	}
	w.Rec.OnStart = func(id string, vars map[string]string) {
		w.mu.Lock()
		f := w.hooks[id]
		w.mu.Unlock()
		if f != nil {
			f()
		}
	}
	return w, nil
}

// OnRoleEvent installs (nil: removes) a callback run synchronously inside the core's goroutine that
// publishes a role event: after the role stored its new state / status, before it updates its parent.
func (w *World) OnRoleEvent(f func(envId, rolePath, state, status string)) {
	the.VerifC02SetEventWriter(topic.Role, w.cap) // (h03 installs a writer of its own for this topic)
	w.cap.mu.Lock()
	w.cap.onRole = f
	w.cap.mu.Unlock()
}

// OnProbe registers a callback run inside the probe with this id (nil removes it).
func (w *World) OnProbe(id string, f func()) {
	w.mu.Lock()
	if f == nil {
		delete(w.hooks, id)
	} else {
		w.hooks[id] = f
	}
	w.mu.Unlock()
}

// WorkflowYAML: a flat workflow: one task role per task ("t<i>", pinned to its host by a
// machine_id constraint) and the given call roles.  launch[i] selects the host / class that makes
// the descriptor undeployable ("nooffer": a host nobody offers) or undeployed ("nores": a class
// that wants more than any offer has).
func WorkflowYAML(name string, tasks []Task, launch []string, calls []Call, deployTimeout string) string {
	var b strings.Builder
	fmt.Fprintf(&b, "name: %s\ndefaults:\n  deploy_timeout: %s\nroles:", name, deployTimeout)
	if len(tasks) == 0 && len(calls) == 0 {
		b.WriteString(" []\n")
		return b.String()
	}
	b.WriteString("\n")
	for i, t := range tasks {
		host := hostName(t.Host)
		class := "c" + t.Mode
		if i < len(launch) {
			switch launch[i] {
			case "nooffer":
				host = "nowhere"
			case "nores":
				class = "g" + t.Mode
			}
		}
		fmt.Fprintf(&b, "  - name: \"t%d\"\n    constraints:\n      - attribute: machine_id\n        value: %s\n    task:\n      load: %s\n      critical: %v\n", i, host, class, t.Crit)
	}
	for i, c := range calls {
		fmt.Fprintf(&b, "  - name: \"k%d\"\n    call:\n      func: verif.Probe(%q)\n      trigger: %s\n      timeout: 20s\n      critical: %v\n", i, c.Id, c.Trigger, c.Critical)
	}
	return b.String()
}

// ---------------------------------------------------------------- one environment

type Env struct {
	W       *World
	Id      uid.ID
	Name    string
	Tasks   []Task
	TaskIds []string // by position ("" when the role never got a task)
	E       *environment.Environment

	mu         sync.Mutex
	outcomes   []simcore.CmdOutcome // for the command in flight, by position
	armedEv    string               // "" or the event the outcomes are scripted for (once per position)
	used       []bool
	activeSeen []bool      // by position: the director saw the launched task ACTIVE in the roster
	cmdBase    map[int]int // position -> task events published when the last command reached the task
	trace      []string    // what the director of Create did and when (diagnosis of a failed creation)
	finished   bool
	evMark     int // index into the captured state list where the current request began
	callMark   int
}

func (e *Env) outcome(idx int, ev string) simcore.CmdOutcome {
	e.mu.Lock()
	defer e.mu.Unlock()
	out := simcore.CmdAck
	if !e.finished && idx < len(e.outcomes) {
		if e.armedEv == "" {
			out = e.outcomes[idx]
		} else if ev == e.armedEv && idx < len(e.used) && !e.used[idx] {
			out = e.outcomes[idx]
			e.used[idx] = true
		} else {
			// scripted for one event, once: a command of the core's own (the STOP the watcher sends to
			// the tasks still RUNNING once the environment is in ERROR) is refused at once with the task
			// left as it is, so that it neither blocks the command queue nor changes what is observed
			// after the request, whenever it arrives
			out = simcore.CmdErrSource
		}
	}
	if (out == simcore.CmdAck || out == simcore.CmdErrSource || out == simcore.CmdErrError) && idx < len(e.TaskIds) && e.TaskIds[idx] != "" {
		// a reply will come: remember how many task events the task had published (AwaitReplies)
		e.W.cap.mu.Lock()
		e.cmdBase[idx] = e.W.cap.tasks[e.TaskIds[idx]]
		e.W.cap.mu.Unlock()
	}
	return out
}

// AllRunActive: every task scripted to run (launch[i] "run" or absent) was launched and seen ACTIVE in
// the core's roster by the director of Create (true for a workflow without tasks).
func (e *Env) AllRunActive(launch []string) bool {
	e.mu.Lock()
	defer e.mu.Unlock()
	for i := range e.Tasks {
		if i < len(launch) && launch[i] != "" && launch[i] != "run" {
			continue
		}
		if i >= len(e.activeSeen) || !e.activeSeen[i] {
			return false
		}
	}
	return true
}

// Trace: what the director of Create did (task seen in the roster, reported in, seen ACTIVE / ERROR),
// with the milliseconds since Create began.  Diagnosis only.
func (e *Env) Trace() []string {
	e.mu.Lock()
	defer e.mu.Unlock()
	return append([]string(nil), e.trace...)
}

func (e *Env) note(t0 time.Time, format string, a ...interface{}) {
	e.mu.Lock()
	e.trace = append(e.trace, fmt.Sprintf("%dms ", time.Since(t0).Milliseconds())+fmt.Sprintf(format, a...))
	e.mu.Unlock()
}

// SetOutcomes scripts the outcome of every command the tasks receive from now on, by position.
func (e *Env) SetOutcomes(oc []simcore.CmdOutcome) {
	e.mu.Lock()
	e.outcomes = append([]simcore.CmdOutcome(nil), oc...)
	e.armedEv, e.used = "", nil
	e.mu.Unlock()
}

// SetOutcomesFor scripts the outcome of the next command with event ev (CONFIGURE | START | STOP |
// RESET) that reaches each task, by position; every other command, and a second one with that event,
// is refused at once (error reply, task left in the state it is in) until Finish.  A scripted silence would otherwise also swallow a command the core sends on its
// own afterwards and block the core's serial command queue for the 90 s response time-out, into the
// next case of the worker.
func (e *Env) SetOutcomesFor(ev string, oc []simcore.CmdOutcome) {
	e.mu.Lock()
	e.outcomes = append([]simcore.CmdOutcome(nil), oc...)
	e.armedEv, e.used = ev, make([]bool, len(oc))
	e.mu.Unlock()
}

func ParseOutcome(s string) simcore.CmdOutcome {
	switch s {
	case "errsrc":
		return simcore.CmdErrSource
	case "errerr":
		return simcore.CmdErrError
	case "sendfail":
		return simcore.CmdSendFail
	case "silent":
		return simcore.CmdSilent
	case "dies":
		return simcore.CmdDies
	}
	return simcore.CmdAck
}

func ParseOutcomes(ss []string, n int) []simcore.CmdOutcome {
	out := make([]simcore.CmdOutcome, n)
	for i := range out {
		if i < len(ss) {
			out[i] = ParseOutcome(ss[i])
		}
	}
	return out
}

func (e *Env) rolePath(i int) string {
	if e.W != nil && e.W.PathOf != nil {
		return e.W.PathOf(e.Name, i)
	}
	return fmt.Sprintf("%s.t%d", e.Name, i)
}

// Mark remembers where the event / call logs stand; Reported and Commanded are relative to it.
func (e *Env) Mark() {
	e.W.cap.mu.Lock()
	n := len(e.W.cap.envs[e.Id.String()])
	e.W.cap.mu.Unlock()
	calls := len(e.W.Sim.CallsSnapshot())
	e.mu.Lock()
	e.evMark, e.callMark = n, calls
	e.mu.Unlock()
}

// Reported: environment states published since Mark, consecutive duplicates removed, as codes
// (states outside the environment state machine, e.g. PENDING, are dropped).
func (e *Env) Reported() []int {
	e.mu.Lock()
	from := e.evMark
	e.mu.Unlock()
	e.W.cap.mu.Lock()
	all := append([]string(nil), e.W.cap.envs[e.Id.String()]...)
	e.W.cap.mu.Unlock()
	out := []int{}
	for _, s := range all[from:] {
		c, ok := EnvStateCode[s]
		if !ok {
			continue
		}
		if len(out) == 0 || out[len(out)-1] != c {
			out = append(out, c)
		}
	}
	return out
}

func (e *Env) RunEvents() []RunEv {
	e.W.cap.mu.Lock()
	defer e.W.cap.mu.Unlock()
	return append([]RunEv(nil), e.W.cap.runs[e.Id.String()]...)
}

// Commanded: positions of this environment's tasks that received a transition command with the
// given event since Mark (sorted, unique).
func (e *Env) Commanded(event string) []int {
	e.mu.Lock()
	from := e.callMark
	e.mu.Unlock()
	calls := e.W.Sim.CallsSnapshot()
	set := map[int]bool{}
	for _, c := range calls[from:] {
		if c.Type != "MESSAGE" || c.Msg == nil || c.Msg.Name != "MesosCommand_Transition" || (event != "" && c.Msg.Event != event) {
			continue
		}
		for _, tid := range c.Msg.TaskIds {
			for i, mine := range e.TaskIds {
				if mine != "" && mine == tid {
					set[i] = true
				}
			}
		}
	}
	out := []int{}
	for i := range set {
		out = append(out, i)
	}
	sort.Ints(out)
	return out
}

// TaskEvents: by position, how many task events the core has published for the task so far.  The core
// applies every state reply and every Mesos status update of a task in a goroutine of its own
// (go m.updateTaskState / go m.updateTaskStatus), each of which publishes exactly one task event
// after writing the task and before updating the role.
func (e *Env) TaskEvents() []int {
	out := make([]int, len(e.TaskIds))
	e.W.cap.mu.Lock()
	for i, tid := range e.TaskIds {
		if tid != "" {
			out[i] = e.W.cap.tasks[tid]
		}
	}
	e.W.cap.mu.Unlock()
	return out
}

// UpdatesInFlight: some goroutine of this process is inside the core's updateTaskState /
// updateTaskStatus (read off the goroutine dump: the core runs in-process).
func UpdatesInFlight() bool {
	buf := make([]byte, 1<<20)
	for {
		n := runtime.Stack(buf, true)
		if n < len(buf) {
			buf = buf[:n]
			break
		}
		buf = make([]byte, 2*len(buf))
	}
	return bytes.Contains(buf, []byte("task.(*Manager).updateTaskState")) || bytes.Contains(buf, []byte("task.(*Manager).updateTaskStatus"))
}

// AwaitReplies waits (at most d) until the state update of every reply to the commands this
// environment's tasks have received since the last call has been applied - the task event count of
// the task has grown past what it was when the command reached the (simulated) executor - and no
// update goroutine is in flight any more.  The core applies the replies after the request has
// returned, each in a goroutine of its own, in any order: one that is still pending when the next
// command is answered overwrites the newer state (a schedule of its own, C03's subject), and when it
// carries the state the task already has (error reply in the source state) nothing shows that it is
// still pending.
func (e *Env) AwaitReplies(d time.Duration) bool {
	e.mu.Lock()
	pend := e.cmdBase
	e.cmdBase = map[int]int{}
	e.mu.Unlock()
	return simcore.WaitFor(d, func() bool {
		now := e.TaskEvents()
		for i, base := range pend {
			if i < len(now) && now[i] < base+1 {
				return false
			}
		}
		return !UpdatesInFlight()
	})
}

// Accepts: number of ACCEPT calls (task launches) since Mark.
func (e *Env) Accepts() int {
	e.mu.Lock()
	from := e.callMark
	e.mu.Unlock()
	n := 0
	for _, c := range e.W.Sim.CallsSnapshot()[from:] {
		if c.Type == "ACCEPT" {
			n++
		}
	}
	return n
}

// Kills: positions of this environment's tasks for which a KILL call was made since Mark.
func (e *Env) Kills() []int {
	e.mu.Lock()
	from := e.callMark
	e.mu.Unlock()
	calls := e.W.Sim.CallsSnapshot()
	set := map[int]bool{}
	for _, c := range calls[from:] {
		if c.Type != "KILL" {
			continue
		}
		for i, mine := range e.TaskIds {
			if mine != "" && mine == c.Kill {
				set[i] = true
			}
		}
	}
	out := []int{}
	for i := range set {
		out = append(out, i)
	}
	sort.Ints(out)
	return out
}

// RoleView: (state code, status code) of every task role, read from the role tree itself.
func (e *Env) RoleView() [][2]int {
	out := make([][2]int, len(e.Tasks))
	if e.E == nil || e.E.Workflow() == nil {
		return out
	}
	byPath := map[string][2]int{}
	workflow.LeafWalk(e.E.Workflow(), func(r workflow.Role) {
		byPath[r.GetPath()] = [2]int{StateCode[r.GetState().String()], StatusCode[r.GetStatus().String()]}
	})
	for i := range e.Tasks {
		out[i] = byPath[e.rolePath(i)]
	}
	return out
}

// RootState: state of the workflow's root role.
func (e *Env) RootState() string {
	if e.E == nil || e.E.Workflow() == nil {
		return ""
	}
	return e.E.Workflow().GetState().String()
}

// Settle waits (at most d) until the role view equals want; returns the view.
func (e *Env) Settle(want [][2]int, d time.Duration) [][2]int {
	var v [][2]int
	simcore.WaitFor(d, func() bool {
		v = e.RoleView()
		if want == nil {
			return true
		}
		for i := range v {
			if i >= len(want) || v[i] != want[i] {
				return false
			}
		}
		return true
	})
	return v
}

func (e *Env) State() string {
	if e.E == nil {
		return ""
	}
	return e.E.CurrentState()
}

// CreateResult of World.Create.
type CreateResult struct {
	Err  error
	Hang bool
}

// Create writes the workflow and runs envman.CreateEnvironment.  While it runs, a director
// goroutine watches the core's roster for this environment's tasks and lets each of them report
// in according to launch[i] ("run": TASK_RUNNING; "fail": TASK_FAILED; anything else: never),
// one at a time and only once the task is in the roster.  cfg are the outcomes of the CONFIGURE
// command of the creation.  hangAfter bounds the wait for CreateEnvironment.
func (w *World) Create(name string, tasks []Task, launch []string, cfg []string, calls []Call, deployTimeout string, hangAfter time.Duration) (*Env, CreateResult) {
	y := ""
	if w.YAMLOf != nil {
		y = w.YAMLOf(name, tasks, launch, calls, deployTimeout)
	} else {
		y = WorkflowYAML(name, tasks, launch, calls, deployTimeout)
	}
	if err := os.WriteFile(filepath.Join(w.Sim.RepoDir, "workflows", name+".yaml"), []byte(y), 0o644); err != nil {
		return nil, CreateResult{Err: err}
	}
	e := &Env{W: w, Id: uid.New(), Name: name, Tasks: tasks, TaskIds: make([]string, len(tasks)), activeSeen: make([]bool, len(tasks)), cmdBase: map[int]int{}}
	e.SetOutcomesFor("CONFIGURE", ParseOutcomes(cfg, len(tasks)))
	e.Mark()
	stop := make(chan struct{})
	dirDone := make(chan struct{})
	tCreate := time.Now()
	stopped := func() bool {
		select {
		case <-stop:
			return true
		default:
			return false
		}
	}
	go func() {
		defer close(dirDone)
		seen := map[string]bool{}
		for {
			select {
			case <-stop:
				return
			default:
			}
			time.Sleep(500 * time.Microsecond)
			ros := w.Sim.Taskman.VerifRoster()
			type item struct {
				idx int
				tid string
			}
			var fresh []item
			for _, t := range ros {
				if t.EnvId != e.Id.String() || seen[t.TaskId] || t.RolePath == "" {
					continue
				}
				for i := range tasks {
					if t.RolePath == e.rolePath(i) {
						fresh = append(fresh, item{i, t.TaskId})
					}
				}
			}
			sort.Slice(fresh, func(a, b int) bool { return fresh[a].idx < fresh[b].idx })
			for _, it := range fresh {
				seen[it.tid] = true
				e.TaskIds[it.idx] = it.tid
				w.mu.Lock()
				w.byTask[it.tid] = &taskRef{e, it.idx}
				w.mu.Unlock()
				how := "run"
				if it.idx < len(launch) && launch[it.idx] != "" {
					how = launch[it.idx]
				}
				e.note(tCreate, "t%d in roster (%s), %s", it.idx, it.tid, how)
				// acquireTasks writes the roster first and gives the roles their tasks right after: a task
				// that reported in between (no real executor is that fast) would make the role ACTIVE
				// while GetActiveTasks does not find its task yet
				if !simcore.WaitFor(2*time.Second, func() bool { return w.roleHasTask(e.Id, e.rolePath(it.idx)) || stopped() }) {
					e.note(tCreate, "t%d: the role never got its task", it.idx)
				}
				if w.BeforeReport != nil {
					w.BeforeReport(e, it.idx, it.tid, how)
				}
				switch how {
				case "run":
					if !w.Sim.C02MarkRunning(it.tid) {
						e.note(tCreate, "t%d not live in the simulated master", it.idx)
					}
					// returns as soon as the status is there; the bound only matters on a very slow machine
					// (or when the creation is over)
					active := false
					simcore.WaitFor(10*time.Second, func() bool {
						active = w.taskStatus(it.tid) == "ACTIVE"
						return active || stopped()
					})
					e.mu.Lock()
					e.activeSeen[it.idx] = active
					e.mu.Unlock()
					e.note(tCreate, "t%d active=%v (roster status %s)", it.idx, active, w.taskStatus(it.tid))
					time.Sleep(time.Millisecond) // let the DEPLOY loop get back to its select
				case "fail":
					w.Sim.FailTask(it.tid, mesos.TASK_FAILED)
					simcore.WaitFor(10*time.Second, func() bool { return w.taskState(it.tid) == "ERROR" || stopped() })
					time.Sleep(time.Millisecond)
				}
			}
		}
	}()
	done := make(chan error, 1)
	go func() {
		_, err := w.Sim.Envman.CreateEnvironment(name, map[string]string{}, false, e.Id, false)
		done <- err
	}()
	var res CreateResult
	select {
	case err := <-done:
		res.Err = err
	case <-time.After(hangAfter):
		// grace period: a slow machine is not a hang (a real hang never returns)
		select {
		case err := <-done:
			res.Err = err
		case <-time.After(HangGrace):
			res.Hang = true
		}
	}
	e.note(tCreate, "creation returned (hang=%v)", res.Hang)
	close(stop)
	<-dirDone
	e.E, _ = w.Sim.Envman.Environment(e.Id)
	return e, res
}

func findRole(r workflow.Role, path string) workflow.Role {
	if r == nil {
		return nil
	}
	if r.GetPath() == path {
		return r
	}
	for _, c := range r.GetRoles() {
		if x := findRole(c, path); x != nil {
			return x
		}
	}
	return nil
}

// roleHasTask: the role with this path in the environment's workflow has been given its task.
func (w *World) roleHasTask(envId uid.ID, path string) bool {
	env, err := w.Sim.Envman.Environment(envId)
	if err != nil || env == nil || env.Workflow() == nil {
		return false
	}
	r := findRole(env.Workflow(), path)
	return r != nil && len(r.GetTasks()) > 0
}

func (w *World) taskStatus(tid string) string {
	for _, t := range w.Sim.Taskman.VerifRoster() {
		if t.TaskId == tid {
			return t.Status
		}
	}
	return ""
}

func (w *World) taskState(tid string) string {
	for _, t := range w.Sim.Taskman.VerifRoster() {
		if t.TaskId == tid {
			return t.State
		}
	}
	return ""
}

var optype = map[string]pb.ControlEnvironmentRequest_Optype{
	"CONFIGURE": pb.ControlEnvironmentRequest_CONFIGURE,
	"START":     pb.ControlEnvironmentRequest_START_ACTIVITY,
	"STOP":      pb.ControlEnvironmentRequest_STOP_ACTIVITY,
	"RESET":     pb.ControlEnvironmentRequest_RESET,
}

type ControlResult struct {
	State string
	Err   error
	Hang  bool
}

// Control issues RpcServer.ControlEnvironment (ev: CONFIGURE | START | STOP | RESET).
func (e *Env) Control(ev string, hangAfter time.Duration) ControlResult {
	type r struct {
		st  string
		err error
	}
	done := make(chan r, 1)
	go func() {
		rep, err := e.W.Sim.Rpc.ControlEnvironment(context.Background(), &pb.ControlEnvironmentRequest{Id: e.Id.String(), Type: optype[ev]})
		st := ""
		if rep != nil {
			st = rep.State
		}
		done <- r{st, err}
	}()
	select {
	case x := <-done:
		return ControlResult{State: x.st, Err: x.err}
	case <-time.After(hangAfter):
	}
	select {
	case x := <-done:
		return ControlResult{State: x.st, Err: x.err}
	case <-time.After(HangGrace):
		return ControlResult{State: e.State(), Hang: true}
	}
}

// Finish makes the scripted outcomes inert (later stray commands are acknowledged) and destroys
// the environment (forced), bounded in time.
func (e *Env) Finish(destroy bool) {
	e.mu.Lock()
	e.finished = true
	e.mu.Unlock()
	if !destroy || e.E == nil {
		return
	}
	done := make(chan struct{})
	go func() {
		defer close(done)
		_, _ = e.W.Sim.Rpc.DestroyEnvironment(context.Background(), &pb.DestroyEnvironmentRequest{Id: e.Id.String(), Force: true})
	}()
	select {
	case <-done:
	case <-time.After(5 * time.Second):
	}
}

// HangGrace is added to every hang watchdog before a request is declared hung: on a loaded or cold
// machine a request can be slow; a request that really hangs never returns.
var HangGrace = 6 * time.Second

// ---------------------------------------------------------------- additions for C03

// TaskYAML is the role entry of task i as WorkflowYAML writes it, indented by indent spaces
// (for workflows with nested aggregator roles).
func TaskYAML(i int, t Task, indent string) string {
	return fmt.Sprintf("%s- name: \"t%d\"\n%s  constraints:\n%s    - attribute: machine_id\n%s      value: %s\n%s  task:\n%s    load: %s\n%s    critical: %v\n",
		indent, i, indent, indent, indent, hostName(t.Host), indent, indent, "c"+t.Mode, indent, t.Crit)
}

// CallYAML is the role entry of call role k.
func CallYAML(k int, c Call, indent string) string {
	return fmt.Sprintf("%s- name: \"k%d\"\n%s  call:\n%s    func: verif.Probe(%q)\n%s    trigger: %s\n%s    timeout: 20s\n%s    critical: %v\n",
		indent, k, indent, indent, c.Id, indent, c.Trigger, indent, indent, c.Critical)
}

// AgentOf / ExecutorOf: the Mesos agent and executor ids of a launched task.
func (w *World) AgentOf(tid string) string    { return w.Sim.LiveTasks()[tid].Agent }
func (w *World) ExecutorOf(tid string) string { return w.Sim.LiveTasks()[tid].Executor }

// RunEndVar: the run_end_time_ms variable of the workflow: 0 not defined, 1 "", 2 set.
func (e *Env) RunEndVar() int {
	if e.E == nil || e.E.Workflow() == nil {
		return 0
	}
	v, ok := e.E.Workflow().GetUserVars().Get("run_end_time_ms")
	if !ok {
		return 0
	}
	if v == "" {
		return 1
	}
	return 2
}

// RosterTaskId finds the task of a role path in the core's roster ("" if none): usable before
// Create has returned (inside a hook of the creation).
func (w *World) RosterTaskId(rolePath string) string {
	for _, t := range w.Sim.Taskman.VerifRoster() {
		if t.RolePath == rolePath {
			return t.TaskId
		}
	}
	return ""
}

// RoleViewOf: (state code, status code) of the role with this path in env's workflow.
func (w *World) RoleViewByPath(envId uid.ID, rolePath string) [2]int {
	env, err := w.Sim.Envman.Environment(envId)
	if err != nil || env == nil || env.Workflow() == nil {
		return [2]int{}
	}
	var out [2]int
	workflow.LeafWalk(env.Workflow(), func(r workflow.Role) {
		if r.GetPath() == rolePath {
			out = [2]int{StateCode[r.GetState().String()], StatusCode[r.GetStatus().String()]}
		}
	})
	return out
}

// EventCapture is the writer NewWorld installed for the environment and run topics; a harness that
// wraps it (to act at the instant an event is published) must forward every event to it.
func (w *World) EventCapture() interface {
	WriteEvent(e interface{})
	WriteEventWithTimestamp(e interface{}, t time.Time)
	Close()
} {
	return w.cap
}
