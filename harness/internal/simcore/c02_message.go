package simcore

import (
	mesos "github.com/mesos/mesos-go/api/v1/lib"
	"github.com/mesos/mesos-go/api/v1/lib/scheduler"
)

// ExecutorMessage delivers a MESSAGE event from an executor to the framework with this payload, as
// the simulated master does for the replies of the simulated executors (used by h02 to hand over what
// the real executor message handler answered).
func (s *Sim) ExecutorMessage(agentId, executorId string, data []byte) {
	s.push(&scheduler.Event{Type: scheduler.Event_MESSAGE, Message: &scheduler.Event_Message{
		AgentID: mesos.AgentID{Value: agentId}, ExecutorID: mesos.ExecutorID{Value: executorId}, Data: append([]byte(nil), data...)}})
}
