package simcore

import (
	"context"
	"errors"
	"net/http"
	"strings"
	"time"

	"github.com/AliceO2Group/Control/core"
	mesos "github.com/mesos/mesos-go/api/v1/lib"
	"github.com/mesos/mesos-go/api/v1/lib/scheduler"
)

// deadCaller is what a crashed core life talks to: nothing it still tries to send (goroutines of
// the dropped objects keep running in this process) reaches the simulated master.
type deadCaller struct{}

func (deadCaller) Call(context.Context, *scheduler.Call) (mesos.Response, error) {
	return emptyResp{}, errors.New("simulated: this core life has crashed")
}

// RestartLife is a crash of the core followed by a start of a new one over the same simulated
// master and the same Consul KV.  Differences to Restart:
//   - core/task.initMetrics registers its handler with http.Handle on the default mux, which panics
//     on the second registration of the same pattern in one process: the default mux is replaced;
//   - the dropped life is cut off from the master (its leftover goroutines get errors);
//   - schedEventsCh is a package-level channel read by one goroutine per life, so the scheduler
//     state machine of the new life may never see CONNECT: instead of waiting for the CONNECTED
//     state this waits for the SUBSCRIBE and the RECONCILE call of the new life.
func (s *Sim) RestartLife() error {
	old := s.Taskman
	s.cancel()
	if old != nil {
		old.VerifSetCaller(deadCaller{})
	}
	time.Sleep(10 * time.Millisecond)
	http.DefaultServeMux = http.NewServeMux()

	before := len(s.CallsSnapshot())
	s.ctx, s.cancel = context.WithCancel(context.Background())
	rpc, tm, em, err := core.VerifNewCore(s.cancel)
	if err != nil {
		return err
	}
	s.Rpc, s.Taskman, s.Envman = rpc, tm, em
	s.streamMu.Lock()
	s.events = make(chan *scheduler.Event, 4096)
	s.streamMu.Unlock()
	tm.VerifSetCaller(s)
	tm.Start(s.ctx)
	seen := func(reconcileToo bool) func() bool {
		return func() bool {
			sub := false
			for _, c := range s.CallsSnapshot()[before:] {
				if c.Type == "SUBSCRIBE" {
					sub = true
					if !reconcileToo {
						return true
					}
				}
				if sub && c.Type == "RECONCILE" {
					return true
				}
			}
			return false
		}
	}
	if !WaitFor(8*time.Second, seen(false)) {
		return errors.New("simcore: the new life did not subscribe")
	}
	// the implicit reconciliation normally follows within a millisecond; its absence is for the
	// caller to observe, not an error of the simulation
	WaitFor(500*time.Millisecond, seen(true))
	return nil
}

// RunTask sends the TASK_RUNNING update of a task that was launched with Behaviour.Launch =
// "silent" (so the harness decides when the executor reports; the default answers at once, which
// can overtake the core's own bookkeeping of the launch).
func (s *Sim) RunTask(taskId string) bool {
	s.mu.Lock()
	lt := s.live[taskId]
	dead := lt == nil || lt.Terminal
	s.mu.Unlock()
	if dead {
		return false
	}
	s.update(lt, mesos.TASK_RUNNING, mesos.TaskStatus_Reason(0), false)
	return true
}

// Alive reports whether the current life is still running (a StateError of the subscription
// tracker calls the shutdown function, which cancels the life's context).
func (s *Sim) Alive() bool {
	select {
	case <-s.ctx.Done():
		return false
	default:
		return true
	}
}

// Delete removes a key of the fake Consul KV (an operator wiping an entry).
func (c *FakeConsul) Delete(key string) {
	c.mu.Lock()
	defer c.mu.Unlock()
	key = strings.TrimPrefix(key, "/")
	if _, ok := c.kv[key]; ok {
		delete(c.kv, key)
		c.index++
	}
}

// SetTaskState changes the master's view of a live task (e.g. TASK_KILLING, TASK_STARTING)
// without telling the framework; the next reconciliation reports that state.
func (s *Sim) SetTaskState(taskId string, st mesos.TaskState) bool {
	s.mu.Lock()
	defer s.mu.Unlock()
	lt := s.live[taskId]
	if lt == nil || lt.Terminal {
		return false
	}
	lt.State = st
	return true
}
