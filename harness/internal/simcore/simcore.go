// Package simcore runs the AliECS core (task manager, environment manager, RpcServer) in-process
// against a simulated Mesos master, simulated agents and simulated executors.  The real
// controller.Run loop, event handlers, command queue and state machines are used; only the HTTP
// caller is replaced (task.Manager.VerifSetCaller).
package simcore

import (
	"context"
	"encoding/json"
	"errors"
	"fmt"
	"io"
	"os"
	"path/filepath"
	"sort"
	"strings"
	"sync"
	"time"

	"github.com/AliceO2Group/Control/core"
	"github.com/AliceO2Group/Control/core/environment"
	"github.com/AliceO2Group/Control/core/integration"
	"github.com/AliceO2Group/Control/core/task"
	"github.com/AliceO2Group/Control/core/task/schedutil"
	git "github.com/go-git/go-git/v5"
	mesos "github.com/mesos/mesos-go/api/v1/lib"
	"github.com/mesos/mesos-go/api/v1/lib/encoding"
	"github.com/mesos/mesos-go/api/v1/lib/scheduler"
	"github.com/sirupsen/logrus"
	"github.com/spf13/viper"
)

// ---------------------------------------------------------------- configuration

type Agent struct {
	Hostname   string
	Attributes map[string]string
	CPUs       float64
	Mem        float64
	Ports      [][2]uint64 // inclusive ranges
	Executors  []string    // executor ids already running on the agent (offer.ExecutorIDs)
}

type Options struct {
	WorkDir     string            // scratch directory (created, wiped)
	KV          map[string]string // initial content of the (fake) Consul KV backend
	Workflows   map[string]string // name -> YAML (written to <repo>/workflows/<name>.yaml)
	TaskClasses map[string]string // name -> YAML (written to <repo>/tasks/<name>.yaml)
	Agents      []Agent
	Plugins     map[string]integration.NewFunc // integration plugins to register (name -> ctor)
	Settings    map[string]interface{}         // extra viper settings
	Quiet       bool
	// OfferDelay: how long the simulated master waits after a REVIVE before it sends the offers
	// (0 = at once).  A real master answers after milliseconds to seconds; with 0 the OFFERS event
	// can be handled before acquireTasks listens for the verdict of resourceOffers, which the core
	// then drops (non-blocking send) - see the C02 report.
	OfferDelay time.Duration
}

// Outcome of one simulated executor command.
type CmdOutcome int

const (
	CmdAck       CmdOutcome = iota // reply ok, task in destination state
	CmdErrSource                   // error reply, task left in the source state
	CmdErrError                    // error reply, task in ERROR state
	CmdSendFail                    // the MESSAGE call itself fails
	CmdSilent                      // no reply at all
	CmdDies                        // task dies: TASK_FAILED update, no reply
)

// Behaviour decides how the simulated world reacts; all functions may be nil (= default).
type Behaviour struct {
	// Launch decides what happens to a launched task: "running" (default), "failed", "silent".
	Launch func(ti mesos.TaskInfo) string
	// Command decides the outcome of a transition command for one task.
	Command func(taskId, className, event string) CmdOutcome
	// Kill decides whether a KILL is answered with TASK_KILLED (default true).
	Kill func(taskId string) bool
	// KillError, when it returns an error, makes the KILL call itself fail (the master refuses it): the
	// call is recorded as "KILL_REFUSED" and nothing happens to the task.
	KillError func(taskId string) error
	// Hook decides the exit code of a triggered hook task (default 0); <0 = never terminates.
	Hook func(taskId, className string) int
}

type CallRecord struct {
	Seq   int
	Type  string
	Offer []string // ACCEPT/DECLINE offer ids
	Tasks []mesos.TaskInfo
	Kill  string // task id
	Msg   *MsgRecord
	FwID  string
}

type MsgRecord struct {
	AgentId, ExecutorId string
	Name                string // command name
	Event               string
	TaskIds             []string
	Arguments           map[string]string
	Raw                 json.RawMessage
}

type liveTask struct {
	Info     mesos.TaskInfo
	State    mesos.TaskState
	SmState  string
	Class    string
	FwID     string
	Terminal bool
}

type Sim struct {
	Opts    Options
	Taskman *task.Manager
	Envman  *environment.Manager
	Rpc     *core.RpcServer
	Beh     *Behaviour

	ctx    context.Context
	cancel context.CancelFunc

	mu       sync.Mutex
	seq      int
	Calls    []CallRecord
	live     map[string]*liveTask // by task id, across framework lives
	offerSeq int
	offers   map[string]string // offer id -> hostname
	fwSeq    int
	subs     int
	events   chan *scheduler.Event
	streamMu sync.Mutex
	RepoDir  string
	OfferLog []OfferRecord
	Consul   *FakeConsul
	// OnMsg, if set, is called synchronously for every MESSAGE command the core sends, before the
	// simulated executors react (so its effects are ordered before anything the command causes)
	OnMsg func(m *MsgRecord)
}

type OfferRecord struct {
	Id       string
	Hostname string
	Agent    Agent
}

var logOnce sync.Once

// New builds the world.  Only one Sim per process is supported for the core singletons
// (apricot instance, environment manager instance, repo manager); Restart gives a second "life".
func New(o Options) (*Sim, error) {
	if o.WorkDir == "" {
		return nil, errors.New("simcore: WorkDir required")
	}
	if strings.ContainsAny(o.WorkDir, ".:") {
		return nil, errors.New("simcore: WorkDir must not contain '.' or ':' (repo protocol detection)")
	}
	os.RemoveAll(o.WorkDir)
	if err := os.MkdirAll(o.WorkDir, 0o755); err != nil {
		return nil, err
	}
	s := &Sim{Opts: o, live: map[string]*liveTask{}, offers: map[string]string{}, Beh: &Behaviour{}}
	if o.Quiet {
		logrus.SetOutput(io.Discard)
		logrus.SetLevel(logrus.PanicLevel)
	}
	// configuration backend: in-process fake Consul (runtime KV is only supported with Consul)
	consul, err := NewFakeConsul()
	if err != nil {
		return nil, err
	}
	s.Consul = consul
	for k, v := range o.KV {
		consul.Set(k, v)
	}
	// local workflow repository
	s.RepoDir = filepath.Join(o.WorkDir, "repos", "wfrepo")
	for _, d := range []string{"workflows", "tasks"} {
		if err := os.MkdirAll(filepath.Join(s.RepoDir, d), 0o755); err != nil {
			return nil, err
		}
	}
	for n, y := range o.Workflows {
		if err := os.WriteFile(filepath.Join(s.RepoDir, "workflows", n+".yaml"), []byte(y), 0o644); err != nil {
			return nil, err
		}
	}
	for n, y := range o.TaskClasses {
		if err := os.WriteFile(filepath.Join(s.RepoDir, "tasks", n+".yaml"), []byte(y), 0o644); err != nil {
			return nil, err
		}
	}
	if _, err := git.PlainInit(s.RepoDir, false); err != nil {
		return nil, err
	}

	viper.Reset()
	for k, v := range map[string]interface{}{
		"config_endpoint":      "consul://" + consul.Addr,
		"coreWorkingDir":       filepath.Join(o.WorkDir, "work"),
		"defaultRepo":          s.RepoDir,
		"globalDefaultRevision": "local",
		"executor":             "/bin/true",
		"executorCPU":          0.01,
		"executorMemory":       64.0,
		"mesosFailoverTimeout": "1000h",
		"mesosReviveBurst":     1000,
		"mesosReviveWait":      "1ms",
		"mesosFrameworkName":   "aliecs",
		"mesosFrameworkUser":   "root",
		"mesosJobRestartDelay": "5s",
		"metrics.path":         "/metrics",
		"metrics.address":      "127.0.0.1",
		"metrics.port":         64009,
		"enableKafka":          false,
		"integrationPlugins":   []string{},
		"concurrentWorkflowTemplateProcessing":         true,
		"concurrentWorkflowTemplateIteratorProcessing": true,
		"concurrentIteratorRoleExpansion":              true,
		"reuseUnlockedTasks": false,
		"configCache":        false,
		"taskClassCacheTTL":  7 * 24 * time.Hour,
		"mesosLabels":        schedutil.Labels{},
	} {
		viper.Set(k, v)
	}
	os.MkdirAll(filepath.Join(o.WorkDir, "work"), 0o755)
	if len(o.Plugins) > 0 {
		integration.Reset()
		names := []string{}
		for n, f := range o.Plugins {
			integration.RegisterPlugin(n, n+"Endpoint", f)
			viper.Set(n+"Endpoint", "http://example.invalid")
			names = append(names, n)
		}
		sort.Strings(names)
		viper.Set("integrationPlugins", names)
	}
	for k, v := range o.Settings {
		viper.Set(k, v)
	}
	if err := s.startLife(); err != nil {
		return nil, err
	}
	return s, nil
}

func (s *Sim) startLife() error {
	s.ctx, s.cancel = context.WithCancel(context.Background())
	rpc, tm, em, err := core.VerifNewCore(s.cancel)
	if err != nil {
		return err
	}
	s.Rpc, s.Taskman, s.Envman = rpc, tm, em
	s.events = make(chan *scheduler.Event, 4096)
	tm.VerifSetCaller(s)
	tm.Start(s.ctx)
	// wait for SUBSCRIBED to be processed
	deadline := time.Now().Add(5 * time.Second)
	for time.Now().Before(deadline) {
		if tm.GetState() == "CONNECTED" {
			return nil
		}
		time.Sleep(2 * time.Millisecond)
	}
	return errors.New("simcore: scheduler did not reach CONNECTED")
}

// Restart drops the current core objects (as a crash would) and builds a new life over the same
// configuration backend and the same simulated master.
func (s *Sim) Restart() error {
	s.cancel()
	time.Sleep(20 * time.Millisecond)
	return s.startLife()
}

// Reconnect ends the current event stream; the controller re-subscribes.
func (s *Sim) Reconnect() {
	s.streamMu.Lock()
	old := s.events
	s.events = make(chan *scheduler.Event, 4096)
	s.streamMu.Unlock()
	close(old)
}

func (s *Sim) Close() { s.cancel() }

// ---------------------------------------------------------------- calls.Caller

type chanDecoder struct {
	ch  chan *scheduler.Event
	ctx context.Context
}

func (d *chanDecoder) Decode(m encoding.Unmarshaler) error {
	select {
	case ev, ok := <-d.ch:
		if !ok {
			return io.EOF
		}
		b, err := ev.Marshal()
		if err != nil {
			return err
		}
		return m.Unmarshal(b)
	case <-d.ctx.Done():
		return io.EOF
	}
}

type resp struct {
	mesos.Response
	dec *chanDecoder
}

func (r *resp) Decode(m encoding.Unmarshaler) error { return r.dec.Decode(m) }
func (r *resp) Close() error                        { return nil }

type emptyResp struct{}

func (emptyResp) Decode(encoding.Unmarshaler) error { return io.EOF }
func (emptyResp) Close() error                      { return nil }

func (s *Sim) record(c CallRecord) {
	s.mu.Lock()
	s.seq++
	c.Seq = s.seq
	s.Calls = append(s.Calls, c)
	s.mu.Unlock()
}

func (s *Sim) push(ev *scheduler.Event) {
	s.streamMu.Lock()
	ch := s.events
	s.streamMu.Unlock()
	defer func() { recover() }() // stream closed meanwhile
	ch <- ev
}

// Call implements calls.Caller.
func (s *Sim) Call(ctx context.Context, call *scheduler.Call) (mesos.Response, error) {
	fw := ""
	if call.FrameworkID != nil {
		fw = call.FrameworkID.Value
	}
	switch call.GetType() {
	case scheduler.Call_SUBSCRIBE:
		s.mu.Lock()
		s.subs++
		if fi := call.GetSubscribe().GetFrameworkInfo(); fi != nil && fi.ID != nil && fi.ID.Value != "" {
			fw = fi.ID.Value
		}
		if fw == "" {
			s.fwSeq++
			fw = fmt.Sprintf("fw-%04d", s.fwSeq)
		}
		s.mu.Unlock()
		s.record(CallRecord{Type: "SUBSCRIBE", FwID: fw})
		s.streamMu.Lock()
		ch := s.events
		s.streamMu.Unlock()
		hb := 15.0
		go s.push(&scheduler.Event{Type: scheduler.Event_SUBSCRIBED, Subscribed: &scheduler.Event_Subscribed{
			FrameworkID: &mesos.FrameworkID{Value: fw}, HeartbeatIntervalSeconds: &hb}})
		return &resp{dec: &chanDecoder{ch: ch, ctx: ctx}}, nil
	case scheduler.Call_REVIVE:
		s.record(CallRecord{Type: "REVIVE", FwID: fw})
		if d := s.Opts.OfferDelay; d > 0 {
			go func() { time.Sleep(d); s.SendOffers() }()
		} else {
			go s.SendOffers()
		}
	case scheduler.Call_ACCEPT:
		acc := call.GetAccept()
		rec := CallRecord{Type: "ACCEPT", FwID: fw}
		for _, id := range acc.OfferIDs {
			rec.Offer = append(rec.Offer, id.Value)
		}
		for _, op := range acc.Operations {
			if op.Launch != nil {
				rec.Tasks = append(rec.Tasks, op.Launch.TaskInfos...)
			}
		}
		s.record(rec)
		for _, ti := range rec.Tasks {
			s.launch(ti, fw)
		}
	case scheduler.Call_DECLINE:
		rec := CallRecord{Type: "DECLINE", FwID: fw}
		for _, id := range call.GetDecline().OfferIDs {
			rec.Offer = append(rec.Offer, id.Value)
		}
		s.record(rec)
	case scheduler.Call_KILL:
		tid := call.GetKill().TaskID.Value
		if s.Beh.KillError != nil {
			if err := s.Beh.KillError(tid); err != nil {
				s.record(CallRecord{Type: "KILL_REFUSED", Kill: tid, FwID: fw})
				return nil, err
			}
		}
		s.record(CallRecord{Type: "KILL", Kill: tid, FwID: fw})
		answer := true
		if s.Beh.Kill != nil {
			answer = s.Beh.Kill(tid)
		}
		if answer {
			s.mu.Lock()
			lt := s.live[tid]
			s.mu.Unlock()
			if lt != nil {
				s.terminate(lt, mesos.TASK_KILLED, mesos.REASON_TASK_KILLED_DURING_LAUNCH, false)
			} else {
				// unknown task: Mesos answers TASK_LOST / here nothing
			}
		}
	case scheduler.Call_MESSAGE:
		m := call.GetMessage()
		mr := &MsgRecord{AgentId: m.AgentID.Value, ExecutorId: m.ExecutorID.Value, Raw: append([]byte(nil), m.Data...)}
		var cmd struct {
			Name       string            `json:"name"`
			Id         string            `json:"id"`
			EnvId      string            `json:"environmentId"`
			Event      string            `json:"event"`
			Source     string            `json:"source"`
			Dest       string            `json:"destination"`
			Arguments  map[string]string `json:"arguments"`
			TargetList []struct {
				AgentId    mesos.AgentID
				ExecutorId mesos.ExecutorID
				TaskId     mesos.TaskID
			} `json:"targetList"`
		}
		_ = json.Unmarshal(m.Data, &cmd)
		mr.Name, mr.Event, mr.Arguments = cmd.Name, cmd.Event, cmd.Arguments
		for _, t := range cmd.TargetList {
			mr.TaskIds = append(mr.TaskIds, t.TaskId.Value)
		}
		// decide outcomes first: a send failure is reported to the caller
		type plan struct {
			tid string
			out CmdOutcome
		}
		var plans []plan
		sendFail := false
		for _, t := range cmd.TargetList {
			out := CmdAck
			if s.Beh.Command != nil && cmd.Name == "MesosCommand_Transition" {
				s.mu.Lock()
				cls := ""
				if lt := s.live[t.TaskId.Value]; lt != nil {
					cls = lt.Class
				}
				s.mu.Unlock()
				out = s.Beh.Command(t.TaskId.Value, cls, cmd.Event)
			}
			if out == CmdSendFail {
				sendFail = true
			}
			plans = append(plans, plan{t.TaskId.Value, out})
		}
		s.record(CallRecord{Type: "MESSAGE", Msg: mr, FwID: fw})
		if s.OnMsg != nil {
			s.OnMsg(mr)
		}
		if sendFail {
			return emptyResp{}, errors.New("simulated: agent unreachable")
		}
		for _, p := range plans {
			p := p
			switch cmd.Name {
			case "MesosCommand_Transition":
				go s.execTransition(m.AgentID.Value, m.ExecutorID.Value, cmd.Id, cmd.EnvId, cmd.Source, cmd.Event, cmd.Dest, p.tid, p.out)
			case "MesosCommand_TriggerHook":
				go s.execHook(m.AgentID.Value, m.ExecutorID.Value, cmd.Id, cmd.EnvId, p.tid)
			}
		}
	case scheduler.Call_ACKNOWLEDGE:
		s.record(CallRecord{Type: "ACKNOWLEDGE", Kill: call.GetAcknowledge().TaskID.Value, FwID: fw})
	case scheduler.Call_RECONCILE:
		s.record(CallRecord{Type: "RECONCILE", FwID: fw})
		if mode := takeReconcileFault(); mode != "" { // lostreconcile.go
			go s.lossyReconcile(fw, mode)
			if mode == "fail" {
				return nil, errReconcileFailed
			}
			return emptyResp{}, nil
		}
		go s.reconcile(fw)
	default:
		s.record(CallRecord{Type: call.GetType().String(), FwID: fw})
	}
	return emptyResp{}, nil
}

// ---------------------------------------------------------------- simulated master / agents

func (s *Sim) SendOffers() {
	var offers []mesos.Offer
	s.mu.Lock()
	for _, a := range s.Opts.Agents {
		s.offerSeq++
		id := fmt.Sprintf("offer-%05d", s.offerSeq)
		s.offers[id] = a.Hostname
		s.OfferLog = append(s.OfferLog, OfferRecord{Id: id, Hostname: a.Hostname, Agent: a})
		offers = append(offers, MakeOffer(id, a))
	}
	s.mu.Unlock()
	s.push(&scheduler.Event{Type: scheduler.Event_OFFERS, Offers: &scheduler.Event_Offers{Offers: offers}})
}

// SendCustomOffers sends exactly the given offers (C05 rounds).
func (s *Sim) SendCustomOffers(offers []mesos.Offer) {
	s.push(&scheduler.Event{Type: scheduler.Event_OFFERS, Offers: &scheduler.Event_Offers{Offers: offers}})
}

func MakeOffer(id string, a Agent) mesos.Offer {
	o := mesos.Offer{
		ID:          mesos.OfferID{Value: id},
		FrameworkID: mesos.FrameworkID{Value: "fw"},
		AgentID:     mesos.AgentID{Value: "agent-" + a.Hostname},
		Hostname:    a.Hostname,
	}
	keys := make([]string, 0, len(a.Attributes))
	for k := range a.Attributes {
		keys = append(keys, k)
	}
	sort.Strings(keys)
	for _, k := range keys {
		v := a.Attributes[k]
		o.Attributes = append(o.Attributes, mesos.Attribute{Name: k, Type: mesos.TEXT, Text: &mesos.Value_Text{Value: v}})
	}
	o.Resources = append(o.Resources,
		mesos.Resource{Name: "cpus", Type: mesos.SCALAR.Enum(), Scalar: &mesos.Value_Scalar{Value: a.CPUs}},
		mesos.Resource{Name: "mem", Type: mesos.SCALAR.Enum(), Scalar: &mesos.Value_Scalar{Value: a.Mem}})
	if len(a.Ports) > 0 {
		rs := &mesos.Value_Ranges{}
		for _, p := range a.Ports {
			rs.Range = append(rs.Range, mesos.Value_Range{Begin: p[0], End: p[1]})
		}
		o.Resources = append(o.Resources, mesos.Resource{Name: "ports", Type: mesos.RANGES.Enum(), Ranges: rs})
	}
	for _, e := range a.Executors {
		o.ExecutorIDs = append(o.ExecutorIDs, mesos.ExecutorID{Value: e})
	}
	return o
}

func classOf(name string) string {
	// task name is "<class identifier>#<id>"
	if i := strings.LastIndex(name, "#"); i >= 0 {
		name = name[:i]
	}
	if i := strings.LastIndex(name, "/tasks/"); i >= 0 {
		name = name[i+len("/tasks/"):]
	}
	if i := strings.Index(name, "@"); i >= 0 {
		name = name[:i]
	}
	return name
}

func (s *Sim) launch(ti mesos.TaskInfo, fw string) {
	lt := &liveTask{Info: ti, State: mesos.TASK_STAGING, SmState: "STANDBY", Class: classOf(ti.Name), FwID: fw}
	s.mu.Lock()
	s.live[ti.TaskID.Value] = lt
	s.mu.Unlock()
	mode := "running"
	if s.Beh.Launch != nil {
		mode = s.Beh.Launch(ti)
	}
	switch mode {
	case "running":
		go s.update(lt, mesos.TASK_RUNNING, mesos.TaskStatus_Reason(0), false)
	case "failed":
		go s.terminate(lt, mesos.TASK_FAILED, mesos.REASON_COMMAND_EXECUTOR_FAILED, false)
	case "silent":
	}
}

var uuidSeq uint64
var uuidMu sync.Mutex

func nextUUID() []byte {
	uuidMu.Lock()
	defer uuidMu.Unlock()
	uuidSeq++
	b := make([]byte, 16)
	for i := 0; i < 8; i++ {
		b[15-i] = byte(uuidSeq >> (8 * i))
	}
	return b
}

func (s *Sim) statusOf(lt *liveTask, st mesos.TaskState, reason mesos.TaskStatus_Reason, reconciliation bool) mesos.TaskStatus {
	aid := lt.Info.AgentID
	status := mesos.TaskStatus{
		TaskID:     lt.Info.TaskID,
		State:      &st,
		AgentID:    &aid,
		ExecutorID: &lt.Info.Executor.ExecutorID,
		Labels:     lt.Info.Labels,
	}
	src := mesos.SOURCE_EXECUTOR
	status.Source = &src
	if reconciliation {
		r := mesos.REASON_RECONCILIATION
		status.Reason = &r
		m := mesos.SOURCE_MASTER
		status.Source = &m
		applyReconcileOmit(&status) // bareanswers.go
	} else {
		status.UUID = nextUUID()
		if reason != 0 {
			status.Reason = &reason
		}
	}
	return status
}

func (s *Sim) update(lt *liveTask, st mesos.TaskState, reason mesos.TaskStatus_Reason, reconciliation bool) {
	s.mu.Lock()
	if !reconciliation {
		lt.State = st
	}
	status := s.statusOf(lt, st, reason, reconciliation)
	s.mu.Unlock()
	s.push(&scheduler.Event{Type: scheduler.Event_UPDATE, Update: &scheduler.Event_Update{Status: status}})
}

func (s *Sim) terminate(lt *liveTask, st mesos.TaskState, reason mesos.TaskStatus_Reason, reconciliation bool) {
	s.mu.Lock()
	already := lt.Terminal
	lt.Terminal = true
	s.mu.Unlock()
	if already {
		return
	}
	s.update(lt, st, reason, reconciliation)
}

// FailTask makes a live task die on its own with the given Mesos state.
func (s *Sim) FailTask(taskId string, st mesos.TaskState) bool {
	s.mu.Lock()
	lt := s.live[taskId]
	s.mu.Unlock()
	if lt == nil {
		return false
	}
	s.terminate(lt, st, mesos.REASON_COMMAND_EXECUTOR_FAILED, false)
	return true
}

// FailExecutor / FailAgent inject FAILURE events.
func (s *Sim) FailExecutor(agentId, executorId string) {
	status := int32(1)
	s.push(&scheduler.Event{Type: scheduler.Event_FAILURE, Failure: &scheduler.Event_Failure{
		AgentID: &mesos.AgentID{Value: agentId}, ExecutorID: &mesos.ExecutorID{Value: executorId}, Status: &status}})
}

func (s *Sim) FailAgent(agentId string) {
	s.push(&scheduler.Event{Type: scheduler.Event_FAILURE, Failure: &scheduler.Event_Failure{
		AgentID: &mesos.AgentID{Value: agentId}}})
}

// DeviceEvent sends a device event message (e.g. TASK_INTERNAL_ERROR, END_OF_STREAM) from a task.
func (s *Sim) DeviceEvent(taskId string, typ string, extra map[string]interface{}) bool {
	s.mu.Lock()
	lt := s.live[taskId]
	s.mu.Unlock()
	if lt == nil {
		return false
	}
	envId := ""
	if lt.Info.Labels != nil {
		for _, l := range lt.Info.Labels.Labels {
			if l.Key == "environmentId" && l.Value != nil {
				envId = *l.Value
			}
		}
	}
	msg := map[string]interface{}{
		"_messageType": "DeviceEvent",
		"type":         deviceEventTypeCode(typ),
		"origin": map[string]interface{}{
			"agentId":    map[string]string{"value": lt.Info.AgentID.Value},
			"executorId": map[string]string{"value": lt.Info.Executor.ExecutorID.Value},
			"taskId":     map[string]string{"value": taskId},
		},
		"labels": map[string]string{"environmentId": envId},
	}
	for k, v := range extra {
		msg[k] = v
	}
	b, _ := json.Marshal(msg)
	s.push(&scheduler.Event{Type: scheduler.Event_MESSAGE, Message: &scheduler.Event_Message{
		AgentID: lt.Info.AgentID, ExecutorID: lt.Info.Executor.ExecutorID, Data: b}})
	return true
}

func (s *Sim) reconcile(fw string) {
	defer reconcileFinished() // reconbarrier.go
	s.mu.Lock()
	var ls []*liveTask
	for _, lt := range s.live {
		// implicit reconciliation only reports the tasks of the asking framework
		if !lt.Terminal && (lt.State != mesos.TASK_STAGING || ReconcileStaging) && (fw == "" || lt.FwID == "" || lt.FwID == fw) {
			ls = append(ls, lt)
		}
	}
	s.mu.Unlock()
	sort.Slice(ls, func(i, j int) bool { return ls[i].Info.TaskID.Value < ls[j].Info.TaskID.Value })
	for _, lt := range ls {
		s.update(lt, lt.State, 0, true)
	}
}

var smNext = map[string]map[string]string{
	"CONFIGURE": {"STANDBY": "CONFIGURED"},
	"START":     {"CONFIGURED": "RUNNING"},
	"STOP":      {"RUNNING": "CONFIGURED"},
	"RESET":     {"CONFIGURED": "STANDBY"},
	"EXIT":      {"STANDBY": "DONE", "CONFIGURED": "DONE"},
	"RECOVER":   {"ERROR": "STANDBY"},
	"GO_ERROR":  {"STANDBY": "ERROR", "CONFIGURED": "ERROR", "RUNNING": "ERROR"},
}

func (s *Sim) execTransition(agentId, executorId, cmdId, envId, src, ev, dest, tid string, out CmdOutcome) {
	s.mu.Lock()
	lt := s.live[tid]
	s.mu.Unlock()
	if lt == nil || out == CmdSilent {
		return
	}
	if out == CmdDies {
		s.terminate(lt, mesos.TASK_FAILED, mesos.REASON_COMMAND_EXECUTOR_FAILED, false)
		return
	}
	state := dest
	errStr := ""
	switch out {
	case CmdErrSource:
		state, errStr = src, "simulated: transition refused"
	case CmdErrError:
		state, errStr = "ERROR", "simulated: device went to error"
	}
	s.mu.Lock()
	lt.SmState = state
	s.mu.Unlock()
	msg := map[string]interface{}{
		"name": "MesosCommand_Transition", "id": cmdId, "environmentId": envId, "error": errStr,
		"_messageType": "MesosCommandResponse", "state": state, "taskId": tid,
	}
	b, _ := json.Marshal(msg)
	s.push(&scheduler.Event{Type: scheduler.Event_MESSAGE, Message: &scheduler.Event_Message{
		AgentID: mesos.AgentID{Value: agentId}, ExecutorID: mesos.ExecutorID{Value: executorId}, Data: b}})
}

func (s *Sim) execHook(agentId, executorId, cmdId, envId, tid string) {
	s.mu.Lock()
	lt := s.live[tid]
	s.mu.Unlock()
	if lt == nil {
		return
	}
	msg := map[string]interface{}{
		"name": "MesosCommand_TriggerHook", "id": cmdId, "environmentId": envId, "error": "",
		"_messageType": "MesosCommandResponse", "taskId": tid,
	}
	b, _ := json.Marshal(msg)
	s.push(&scheduler.Event{Type: scheduler.Event_MESSAGE, Message: &scheduler.Event_Message{
		AgentID: mesos.AgentID{Value: agentId}, ExecutorID: mesos.ExecutorID{Value: executorId}, Data: b}})
	code := 0
	if s.Beh.Hook != nil {
		code = s.Beh.Hook(tid, lt.Class)
	}
	if code < 0 {
		return
	}
	final := "TASK_FINISHED"
	if code != 0 {
		final = "TASK_FAILED"
	}
	s.DeviceEvent(tid, "BASIC_TASK_TERMINATED", map[string]interface{}{
		"exitCode": code, "stdout": "", "stderr": "", "voluntaryTermination": true, "finalMesosState": final})
}

// ---------------------------------------------------------------- observation helpers

func (s *Sim) CallsSnapshot() []CallRecord {
	s.mu.Lock()
	defer s.mu.Unlock()
	return append([]CallRecord(nil), s.Calls...)
}

func (s *Sim) LiveTasks() map[string]liveTaskView {
	s.mu.Lock()
	defer s.mu.Unlock()
	out := map[string]liveTaskView{}
	for id, lt := range s.live {
		out[id] = liveTaskView{Class: lt.Class, State: lt.State.String(), SmState: lt.SmState, Terminal: lt.Terminal,
			Agent: lt.Info.AgentID.Value, Executor: lt.Info.Executor.ExecutorID.Value, FwID: lt.FwID}
	}
	return out
}

type liveTaskView struct {
	Class, State, SmState, Agent, Executor, FwID string
	Terminal                                       bool
}

// WaitFor polls cond until it is true or the timeout expires.
func WaitFor(timeout time.Duration, cond func() bool) bool {
	deadline := time.Now().Add(timeout)
	for {
		if cond() {
			return true
		}
		if time.Now().After(deadline) {
			return false
		}
		time.Sleep(3 * time.Millisecond)
	}
}
