package simcore

// Reconciliation answers with optional fields left out (h18, C18): a master-generated status need
// not carry executor_id, agent_id or source.  ReconcileOmit is applied to every reconciliation
// answer the simulated master builds while it is set.

import (
	"sync"

	mesos "github.com/mesos/mesos-go/api/v1/lib"
)

type AnswerOmit struct{ Executor, Agent, Source bool }

var (
	reconcileOmitMu sync.Mutex
	reconcileOmit   AnswerOmit
)

// SetReconcileOmit chooses the fields the following reconciliation answers lack.
func SetReconcileOmit(o AnswerOmit) {
	reconcileOmitMu.Lock()
	reconcileOmit = o
	reconcileOmitMu.Unlock()
}

func applyReconcileOmit(st *mesos.TaskStatus) {
	reconcileOmitMu.Lock()
	o := reconcileOmit
	reconcileOmitMu.Unlock()
	if o.Executor {
		st.ExecutorID = nil
	}
	if o.Agent {
		st.AgentID = nil
	}
	if o.Source {
		st.Source = nil
	}
}
