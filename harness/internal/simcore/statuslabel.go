package simcore

import (
	mesos "github.com/mesos/mesos-go/api/v1/lib"
	"github.com/mesos/mesos-go/api/v1/lib/scheduler"
)

// StatusLabel says how a status update is labelled and which optional fields it carries: the
// reason code (nil: none), the source (nil: none), whether it carries a UUID (only updates with a
// UUID are acknowledged), and whether agent id / executor id / labels are present.
type StatusLabel struct {
	Reason *mesos.TaskStatus_Reason
	Source *mesos.TaskStatus_Source
	UUID   bool
	Bare   bool // no agent id, no executor id, no labels
	// OmitAgent / OmitExecutor leave out one id only (labels stay)
	OmitAgent, OmitExecutor bool
}

// SendStatus pushes an UPDATE for a launched task with exactly this label, whatever the simulated
// task's own state (also for a task that already died unreported).  Used by the C03 harness to vary
// how the report of a failure is labelled and routed.
func (s *Sim) SendStatus(taskId string, st mesos.TaskState, l StatusLabel) bool {
	s.mu.Lock()
	lt := s.live[taskId]
	if lt == nil {
		s.mu.Unlock()
		return false
	}
	lt.State = st
	switch st {
	case mesos.TASK_FAILED, mesos.TASK_LOST, mesos.TASK_KILLED, mesos.TASK_ERROR, mesos.TASK_FINISHED, mesos.TASK_DROPPED, mesos.TASK_GONE:
		lt.Terminal = true
	}
	status := mesos.TaskStatus{TaskID: lt.Info.TaskID, State: &st, Reason: l.Reason, Source: l.Source}
	if !l.Bare {
		aid := lt.Info.AgentID
		status.AgentID = &aid
		if lt.Info.Executor != nil {
			status.ExecutorID = &lt.Info.Executor.ExecutorID
		}
		status.Labels = lt.Info.Labels
		if l.OmitAgent {
			status.AgentID = nil
		}
		if l.OmitExecutor {
			status.ExecutorID = nil
		}
	}
	if l.UUID {
		status.UUID = nextUUID()
	}
	s.mu.Unlock()
	s.push(&scheduler.Event{Type: scheduler.Event_UPDATE, Update: &scheduler.Event_Update{Status: status}})
	return true
}

// DieUnreported: the task is gone but no update reaches the framework (it died while the
// framework was disconnected, or with its executor / agent): the simulated master no longer
// reports it as running in a reconciliation.
func (s *Sim) DieUnreported(taskId string) bool {
	s.mu.Lock()
	defer s.mu.Unlock()
	lt := s.live[taskId]
	if lt == nil {
		return false
	}
	lt.Terminal = true
	return true
}

// FailExecutorBare injects a FAILURE event that names the executor only (no agent id, no status).
func (s *Sim) FailExecutorBare(executorId string) {
	s.push(&scheduler.Event{Type: scheduler.Event_FAILURE, Failure: &scheduler.Event_Failure{
		ExecutorID: &mesos.ExecutorID{Value: executorId}}})
}
