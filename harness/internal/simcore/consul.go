package simcore

import (
	"encoding/base64"
	"encoding/json"
	"io"
	"net"
	"net/http"
	"sort"
	"strconv"
	"strings"
	"sync"
)

// FakeConsul is an in-process Consul KV (GET single / ?recurse / ?keys, PUT with ?cas=, DELETE)
// with Consul's index rules: every successful write gets a fresh, strictly larger ModifyIndex.
type FakeConsul struct {
	mu    sync.Mutex
	kv    map[string]*kvEntry
	index uint64
	srv   *http.Server
	Addr  string
	Log   []string // "GET key", "PUT key", "CAS key idx ok|fail"
}

type kvEntry struct {
	Value       []byte
	CreateIndex uint64
	ModifyIndex uint64
}

func NewFakeConsul() (*FakeConsul, error) {
	c := &FakeConsul{kv: map[string]*kvEntry{}, index: 10}
	ln, err := net.Listen("tcp", "127.0.0.1:0")
	if err != nil {
		return nil, err
	}
	c.Addr = ln.Addr().String()
	mux := http.NewServeMux()
	mux.HandleFunc("/v1/kv/", c.handle)
	c.srv = &http.Server{Handler: mux}
	go c.srv.Serve(ln)
	return c, nil
}

func (c *FakeConsul) Close() { c.srv.Close() }

func (c *FakeConsul) Set(key, value string) {
	c.mu.Lock()
	defer c.mu.Unlock()
	c.put(strings.TrimPrefix(key, "/"), []byte(value))
}

func (c *FakeConsul) Get(key string) (string, bool) {
	c.mu.Lock()
	defer c.mu.Unlock()
	e, ok := c.kv[strings.TrimPrefix(key, "/")]
	if !ok {
		return "", false
	}
	return string(e.Value), true
}

func (c *FakeConsul) put(key string, v []byte) {
	c.index++
	if e, ok := c.kv[key]; ok {
		e.Value, e.ModifyIndex = v, c.index
	} else {
		c.kv[key] = &kvEntry{Value: v, CreateIndex: c.index, ModifyIndex: c.index}
	}
}

type kvJSON struct {
	LockIndex   uint64
	Key         string
	Flags       uint64
	Value       string
	CreateIndex uint64
	ModifyIndex uint64
}

func (c *FakeConsul) handle(w http.ResponseWriter, r *http.Request) {
	key := strings.TrimPrefix(r.URL.Path, "/v1/kv/")
	q := r.URL.Query()
	c.mu.Lock()
	defer c.mu.Unlock()
	w.Header().Set("X-Consul-Index", strconv.FormatUint(c.index, 10))
	w.Header().Set("X-Consul-KnownLeader", "true")
	w.Header().Set("X-Consul-LastContact", "0")
	switch r.Method {
	case http.MethodGet:
		_, recurse := q["recurse"]
		_, keysOnly := q["keys"]
		var ks []string
		if recurse || keysOnly {
			for k := range c.kv {
				if strings.HasPrefix(k, key) {
					ks = append(ks, k)
				}
			}
			sort.Strings(ks)
		} else if _, ok := c.kv[key]; ok {
			ks = []string{key}
		}
		if len(ks) == 0 {
			w.WriteHeader(http.StatusNotFound)
			return
		}
		w.Header().Set("Content-Type", "application/json")
		if keysOnly {
			sep := q.Get("separator")
			if sep != "" {
				seen := map[string]bool{}
				var out []string
				for _, k := range ks {
					rest := strings.TrimPrefix(k, key)
					if i := strings.Index(rest, sep); i >= 0 {
						k = key + rest[:i+len(sep)]
					}
					if !seen[k] {
						seen[k] = true
						out = append(out, k)
					}
				}
				ks = out
			}
			json.NewEncoder(w).Encode(ks)
			return
		}
		var out []kvJSON
		for _, k := range ks {
			e := c.kv[k]
			out = append(out, kvJSON{Key: k, Value: base64.StdEncoding.EncodeToString(e.Value),
				CreateIndex: e.CreateIndex, ModifyIndex: e.ModifyIndex})
		}
		json.NewEncoder(w).Encode(out)
	case http.MethodPut:
		body, _ := io.ReadAll(r.Body)
		if casS, ok := q["cas"]; ok {
			cas, _ := strconv.ParseUint(casS[0], 10, 64)
			e, exists := c.kv[key]
			okCas := (cas == 0 && !exists) || (exists && e.ModifyIndex == cas)
			if okCas {
				c.put(key, body)
			}
			w.Write([]byte(strconv.FormatBool(okCas)))
			return
		}
		c.put(key, body)
		w.Write([]byte("true"))
	case http.MethodDelete:
		if _, ok := q["recurse"]; ok {
			for k := range c.kv {
				if strings.HasPrefix(k, key) {
					delete(c.kv, k)
				}
			}
		} else {
			delete(c.kv, key)
		}
		c.index++
		w.Write([]byte("true"))
	default:
		w.WriteHeader(http.StatusMethodNotAllowed)
	}
}
