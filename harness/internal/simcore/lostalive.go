package simcore

// Additions for h18 (C18): roster tasks that are not ACTIVE at the core while the master reports
// them alive.
//
//   - ReconcileStaging: a real master answers an implicit reconciliation with the latest state of
//     EVERY non-terminal task, TASK_STAGING included (a task that was accepted and whose executor
//     has not reported yet).  The simulated master leaves those out unless this is set.
//   - LoseTask: the master declares a task TASK_LOST (agent unreachable) but keeps it: the agent
//     may come back, the process is still running, a later reconciliation reports the task in the
//     state it had.  (FailTask, by contrast, terminates the task at the master.)

import (
	mesos "github.com/mesos/mesos-go/api/v1/lib"
	"github.com/mesos/mesos-go/api/v1/lib/scheduler"
)

// ReconcileStaging makes Sim.reconcile report TASK_STAGING tasks too (one Sim per process).
var ReconcileStaging bool

// LoseTask sends a TASK_LOST update (source master, reason agent removed, acknowledged like any
// update) for a live task and leaves the master's own view of the task untouched.
func (s *Sim) LoseTask(taskId string) bool {
	s.mu.Lock()
	lt := s.live[taskId]
	dead := lt == nil || lt.Terminal
	var status mesos.TaskStatus
	if !dead {
		status = s.statusOf(lt, mesos.TASK_LOST, mesos.REASON_AGENT_REMOVED, false)
		m := mesos.SOURCE_MASTER
		status.Source = &m
	}
	s.mu.Unlock()
	if dead {
		return false
	}
	s.push(&scheduler.Event{Type: scheduler.Event_UPDATE, Update: &scheduler.Event_Update{Status: status}})
	return true
}
