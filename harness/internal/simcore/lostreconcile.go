package simcore

// Fault injection for h18 (C18): the reconciliation that follows a SUBSCRIBED is LOST.
//
// LoseNextReconcile arms a one-shot fault for the next RECONCILE call of the framework:
//
//	"drop"    the master takes the call, then the connection drops before any answer is delivered
//	"partial" the first answer is delivered, then the connection drops
//	"fail"    the call itself fails (master failover in progress) and the connection drops
//
// In every case the event stream ends (as with Reconnect), so the controller of the core
// re-subscribes; whether that subscription is followed by another RECONCILE is up to the core.

import (
	"errors"
	"sort"
	"sync"

	mesos "github.com/mesos/mesos-go/api/v1/lib"
)

var (
	reconcileFaultMu sync.Mutex
	reconcileFault   string
)

// LoseNextReconcile arms the fault (mode "" disarms it).
func LoseNextReconcile(mode string) {
	reconcileFaultMu.Lock()
	reconcileFault = mode
	reconcileFaultMu.Unlock()
}

func takeReconcileFault() string {
	reconcileFaultMu.Lock()
	defer reconcileFaultMu.Unlock()
	m := reconcileFault
	reconcileFault = ""
	return m
}

// lossyReconcile is Sim.reconcile cut short: at most the first answer, then the stream ends.
func (s *Sim) lossyReconcile(fw, mode string) {
	defer reconcileFinished()
	if mode == "partial" {
		s.mu.Lock()
		var ls []*liveTask
		for _, lt := range s.live {
			if !lt.Terminal && (lt.State != mesos.TASK_STAGING || ReconcileStaging) && (fw == "" || lt.FwID == "" || lt.FwID == fw) {
				ls = append(ls, lt)
			}
		}
		s.mu.Unlock()
		sort.Slice(ls, func(i, j int) bool { return ls[i].Info.TaskID.Value < ls[j].Info.TaskID.Value })
		if len(ls) > 0 {
			s.update(ls[0], ls[0].State, 0, true)
		}
	}
	s.Reconnect()
}

var errReconcileFailed = errors.New("simcore: RECONCILE refused (master failover in progress)")
