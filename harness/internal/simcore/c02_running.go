package simcore

import (
	mesos "github.com/mesos/mesos-go/api/v1/lib"
)

// C02MarkRunning sends the TASK_RUNNING update of a task that was launched with
// Behaviour.Launch returning "silent": the C02/C03 harnesses decide themselves when a task
// becomes active (only once the core has entered it in its roster, one task at a time), because
// an update that arrives before acquireTasks has written the roster is dropped by the core and
// two updates that arrive together can lose the status notification of the DEPLOY loop.
// Returns false when the task is unknown or already terminal.
func (s *Sim) C02MarkRunning(taskId string) bool {
	s.mu.Lock()
	lt := s.live[taskId]
	ok := lt != nil && !lt.Terminal
	s.mu.Unlock()
	if !ok {
		return false
	}
	s.update(lt, mesos.TASK_RUNNING, mesos.TaskStatus_Reason(0), false)
	return true
}
