package simcore

// Quiescence barrier for the reconciliation chain (used by h18).
//
// The master answers a RECONCILE call from a goroutine (Sim.reconcile) and the core handles the
// answers asynchronously: event loop -> taskman message queue -> handleMessage, where the KILL
// calls are made.  Reconciliation updates carry no UUID, so nothing the core sends tells when it
// is done with them.  A harness that wants to sample the state after the answers (a) waits until
// ReconcileRuns() has reached the number of RECONCILE calls it has seen, (b) pushes one more
// reconciliation update for a task id nobody knows with PushReconciliationUpdate and (c) waits
// for the KILL of that id: the event loop and the message queue are FIFO and handleMessage sends
// its KILLs synchronously, so everything the real answers caused has been sent by then.

import (
	"sync/atomic"

	mesos "github.com/mesos/mesos-go/api/v1/lib"
	"github.com/mesos/mesos-go/api/v1/lib/scheduler"
)

var reconcileRuns int64 // finished runs of Sim.reconcile (one Sim per process)

func reconcileFinished() { atomic.AddInt64(&reconcileRuns, 1) }

// ReconcileRuns is the number of RECONCILE calls whose answers have all been put on the event stream.
func ReconcileRuns() int64 { return atomic.LoadInt64(&reconcileRuns) }

// PushReconciliationUpdate puts a REASON_RECONCILIATION status update for an arbitrary task id
// (source master, no UUID, like the real answers) on the event stream of the current subscription.
func (s *Sim) PushReconciliationUpdate(taskId, agentId string, st mesos.TaskState) {
	r := mesos.REASON_RECONCILIATION
	m := mesos.SOURCE_MASTER
	status := mesos.TaskStatus{
		TaskID:  mesos.TaskID{Value: taskId},
		State:   &st,
		AgentID: &mesos.AgentID{Value: agentId},
		Reason:  &r,
		Source:  &m,
	}
	s.push(&scheduler.Event{Type: scheduler.Event_UPDATE, Update: &scheduler.Event_Update{Status: status}})
}
