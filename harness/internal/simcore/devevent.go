package simcore

// deviceEventTypeCode maps a device event type name to the numeric value of
// executor/protos.DeviceEventType: the core decodes the "type" field of a DeviceEvent message
// into that int32 enum (encoding/json), so a string there ends the subscription with a decode
// error.  Unknown names are passed through unchanged (to test exactly that).
func deviceEventTypeCode(typ string) interface{} {
	switch typ {
	case "NULL_DEVICE_EVENT":
		return 0
	case "END_OF_STREAM":
		return 1
	case "BASIC_TASK_TERMINATED":
		return 2
	case "TASK_INTERNAL_ERROR":
		return 3
	}
	return typ
}
