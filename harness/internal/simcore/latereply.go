package simcore

import (
	"encoding/json"

	"github.com/rs/xid"
	mesos "github.com/mesos/mesos-go/api/v1/lib"
	"github.com/mesos/mesos-go/api/v1/lib/scheduler"
)

// LateReply sends a MesosCommand_Transition response of a task that no command is waiting for: the
// late (or duplicated) answer of its executor to an earlier transition, announcing `state`.  The
// core turns every such response into a TaskStateMessage (scheduler.go incoming message handler)
// whether or not the command queue still knows the command.  Used by the C03 harness to let a
// second state update of one task overtake the first.
func (s *Sim) LateReply(taskId, state string) bool {
	s.mu.Lock()
	lt := s.live[taskId]
	s.mu.Unlock()
	id := xid.New().String() // the response carries a well-formed command id nobody waits for
	if lt == nil {
		return false
	}
	envId := ""
	if lt.Info.Labels != nil {
		for _, l := range lt.Info.Labels.Labels {
			if l.Key == "environmentId" && l.Value != nil {
				envId = *l.Value
			}
		}
	}
	msg := map[string]interface{}{
		"name": "MesosCommand_Transition", "id": id, "environmentId": envId, "error": "",
		"_messageType": "MesosCommandResponse", "state": state, "taskId": taskId,
	}
	b, _ := json.Marshal(msg)
	s.push(&scheduler.Event{Type: scheduler.Event_MESSAGE, Message: &scheduler.Event_Message{
		AgentID: mesos.AgentID{Value: lt.Info.AgentID.Value}, ExecutorID: mesos.ExecutorID{Value: lt.Info.Executor.ExecutorID.Value}, Data: b}})
	return true
}
