package simcore

import (
	mesos "github.com/mesos/mesos-go/api/v1/lib"
)

// SetTaskRunning sends the TASK_RUNNING status update of a launched task.  Together with
// Behaviour.Launch returning "silent" it lets a harness choose the instant (and the order) at
// which each launched task reports in, e.g. only after the core has entered it in its roster.
func (s *Sim) SetTaskRunning(taskId string) bool {
	s.mu.Lock()
	lt := s.live[taskId]
	s.mu.Unlock()
	if lt == nil || lt.Terminal {
		return false
	}
	s.update(lt, mesos.TASK_RUNNING, mesos.TaskStatus_Reason(0), false)
	return true
}

// TaskLabels returns the labels of a launched task (e.g. "environmentId").
func (s *Sim) TaskLabels(taskId string) map[string]string {
	s.mu.Lock()
	defer s.mu.Unlock()
	out := map[string]string{}
	lt := s.live[taskId]
	if lt == nil || lt.Info.Labels == nil {
		return out
	}
	for _, l := range lt.Info.Labels.Labels {
		if l.Value != nil {
			out[l.Key] = *l.Value
		}
	}
	return out
}
