package simcore

import (
	mesos "github.com/mesos/mesos-go/api/v1/lib"
)

// MarkRunning sends the TASK_RUNNING update of a task that was launched with Behaviour.Launch
// returning "silent" (so the harness, not the simulated agent, decides when the task becomes
// active: e.g. only once the core has entered the task in its roster, one task at a time).
// Returns false when the task is unknown or already terminal.
func (s *Sim) MarkRunning(taskId string) bool {
	s.mu.Lock()
	lt := s.live[taskId]
	ok := lt != nil && !lt.Terminal
	s.mu.Unlock()
	if !ok {
		return false
	}
	s.update(lt, mesos.TASK_RUNNING, mesos.TaskStatus_Reason(0), false)
	return true
}

// TaskAgentExecutor returns the agent and executor ids of a launched task ("" when unknown).
func (s *Sim) TaskAgentExecutor(taskId string) (agentId, executorId string) {
	s.mu.Lock()
	defer s.mu.Unlock()
	if lt := s.live[taskId]; lt != nil {
		agentId = lt.Info.AgentID.Value
		if lt.Info.Executor != nil {
			executorId = lt.Info.Executor.ExecutorID.Value
		}
	}
	return
}
